// appended to the scratch copy of crates/anemo/src/network/connection_manager.rs during probing
#[cfg(kani)]
pub(crate) fn verif_tie(a: &PeerId, b: &PeerId, e: ConnectionOrigin, n: ConnectionOrigin) -> bool {
    ActivePeersInner::simultaneous_dial_tie_breaking(a, b, e, n)
}

#[cfg(kani)]
mod verif_probe_cm {
    use super::*;
    use std::time::{Duration, Instant};

    fn any_duration_ms() -> Duration {
        let ms: u32 = kani::any();
        kani::assume(ms <= 100_000_000);
        Duration::from_millis(ms as u64)
    }

    fn base_instant() -> Instant {
        // Instant has no public constructor: build from a raw (secs, nanos) pair.
        let secs: i64 = kani::any();
        let nanos: u32 = kani::any();
        kani::assume(secs >= 0 && secs < (1i64 << 40));
        kani::assume(nanos < 1_000_000_000);
        unsafe { std::mem::transmute::<(i64, u32), Instant>((secs, nanos)) }
    }

    #[kani::proof]
    fn backoff_a() {
        let now = base_instant();
        let step = any_duration_ms();
        let max = any_duration_ms();
        let attempts: usize = kani::any();
        kani::assume(attempts < 64);
        let mut st = DialBackoffState { backoff: now, attempts };
        st.update(now, step, max);
        assert!(st.attempts == attempts + 1);
    }
    #[kani::proof]
    fn backoff_b() {
        let step = any_duration_ms();
        let k: u32 = kani::any();
        let d = step.saturating_mul(k);
        assert!(d >= step || k == 0);
    }
    #[kani::proof]
    fn backoff_c() {
        let now = base_instant();
        let step = any_duration_ms();
        let t = now + step;
        assert!(t.duration_since(now) == step);
    }

    #[kani::proof]
    fn backoff_update_formula() {
        let now = base_instant();
        let step = any_duration_ms();
        let max = any_duration_ms();
        let attempts: usize = kani::any();
        kani::assume(attempts < 1000);
        let mut st = DialBackoffState { backoff: now, attempts };
        st.update(now, step, max);
        assert!(st.attempts == attempts + 1);
        let k = st.attempts;
        // spec: min(max, k * step) with saturation
        let k32: u32 = k.try_into().unwrap_or(u32::MAX);
        let want = std::cmp::min(max, step.saturating_mul(k32));
        assert!(st.backoff == now + want);
        assert!(st.backoff >= now);
    }
}
