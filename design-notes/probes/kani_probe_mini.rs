#[cfg(kani)]
mod h {
    #[kani::proof]
    #[kani::unwind(6)]
    fn parse_u64() {
        let raw: [u8; 4] = kani::any();
        let len: usize = kani::any();
        kani::assume(len <= 4);
        let mut i = 0; while i < 4 { kani::assume(raw[i] < 0x80); i += 1; }
        let s = unsafe { std::str::from_utf8_unchecked(&raw[..len]) };
        let r = s.parse::<u64>();
        if let Ok(v) = r { assert!(v <= 9999); }
    }
    #[kani::proof]
    #[kani::unwind(6)]
    fn utf8() {
        let raw: [u8; 4] = kani::any();
        let r = std::str::from_utf8(&raw);
        if raw[0] < 0x80 && raw[1] < 0x80 && raw[2] < 0x80 && raw[3] < 0x80 { assert!(r.is_ok()); }
    }
    fn rs_new() -> std::hash::RandomState { unsafe { std::mem::zeroed() } }
    #[kani::proof]
    #[kani::unwind(9)]
    #[kani::stub(std::hash::RandomState::new, rs_new)]
    fn hashmap_get() {
        let mut m: std::collections::HashMap<String, String> = std::collections::HashMap::new();
        let b: u8 = kani::any();
        kani::assume(b < 0x80);
        m.insert("timeout".to_owned(), String::from_utf8(vec![b]).unwrap());
        let v = m.get("timeout").unwrap();
        assert!(v.as_bytes()[0] == b);
        assert!(m.get("other").is_none());
        std::mem::forget(m);
    }
}
#[cfg(kani)]
mod h2 {
    #[cfg(any())]
    fn cu() {
        let r = std::panic::catch_unwind(|| 5);
        assert!(r.is_ok());
    }
    thread_local! { static X: std::cell::Cell<u32> = std::cell::Cell::new(1); }
    #[kani::proof]
    fn tl() {
        let v = X.with(|x| x.get());
        assert!(v == 1);
    }
    thread_local! { static Y: std::cell::RefCell<Vec<u32>> = std::cell::RefCell::new(vec![1]); }
    #[cfg(any())]
    fn tl_drop() {
        let v = Y.try_with(|x| x.borrow().len()).unwrap_or(0);
        assert!(v == 1);
    }
}
#[cfg(kani)]
mod h3 {
    const N: usize = 4;
    #[kani::proof]
    #[kani::unwind(12)]
    fn matchit_total() {
        let mut r = matchit::Router::<u32>::new();
        r.insert("/a", 1).unwrap();
        r.insert("/b/*rest", 2).unwrap();
        let raw: [u8; N] = kani::any();
        let len: usize = kani::any();
        kani::assume(len <= N);
        let mut i = 0; while i < N { kani::assume(raw[i] < 0x80); i += 1; }
        let path = unsafe { std::str::from_utf8_unchecked(&raw[..len]) };
        let got = match r.at(path) { Ok(m) => Some(*m.value), Err(_) => None };
        let is_a = len == 2 && raw[0] == b'/' && raw[1] == b'a';
        let is_b = len >= 3 && raw[0] == b'/' && raw[1] == b'b' && raw[2] == b'/';
        if is_a { assert!(got == Some(1)); } else if is_b { assert!(got == Some(2)); } else { assert!(got.is_none()); }
        std::mem::forget(r);
    }
}
