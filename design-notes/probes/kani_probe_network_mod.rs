// appended to the scratch copy of crates/anemo/src/network/mod.rs during probing
#[cfg(kani)]
pub(crate) fn verif_tie(a: &PeerId, b: &PeerId, e: crate::ConnectionOrigin, n: crate::ConnectionOrigin) -> bool {
    connection_manager::verif_tie(a, b, e, n)
}
#[cfg(kani)]
pub(crate) async fn verif_read_version<T: tokio::io::AsyncRead + Unpin>(t: &mut T) -> Result<crate::types::Version> { wire::read_version_frame(t).await }
#[cfg(kani)]
pub(crate) async fn verif_write_version<T: tokio::io::AsyncWrite + Unpin>(t: &mut T, v: crate::types::Version) -> Result<()> { wire::write_version_frame(t, v).await }
#[cfg(kani)]
pub(crate) fn verif_codec(c: &Config) -> tokio_util::codec::LengthDelimitedCodec { wire::network_message_frame_codec(c) }
#[cfg(kani)]
pub(crate) async fn verif_read_request<T: tokio::io::AsyncRead + Unpin>(t: &mut tokio_util::codec::FramedRead<T, tokio_util::codec::LengthDelimitedCodec>) -> Result<Request<Bytes>> { wire::read_request(t).await }
#[cfg(kani)]
pub(crate) async fn verif_write_request<T: tokio::io::AsyncWrite + Unpin>(t: &mut tokio_util::codec::FramedWrite<T, tokio_util::codec::LengthDelimitedCodec>, r: Request<Bytes>) -> Result<()> { wire::write_request(t, r).await }
