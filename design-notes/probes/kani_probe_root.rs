extern crate alloc;
use crate::{ConnectionOrigin, PeerId};

#[kani::proof]
#[kani::unwind(34)]
fn tie_break_symmetric() {
    let a = PeerId(kani::any());
    let b = PeerId(kani::any());
    kani::assume(a != b);
    // conn X: dialed by A (A sees Outbound, B sees Inbound); conn Y: dialed by B.
    // order at A: symbolic; order at B: symbolic
    let a_x_first: bool = kani::any();
    let b_x_first: bool = kani::any();
    let (ox, oy) = (ConnectionOrigin::Outbound, ConnectionOrigin::Inbound); // as seen by A
    let keep_x_at_a = if a_x_first {
        // existing = X, new = Y ; true => drop existing (keep Y)
        !crate::network::verif_tie(&a, &b, ox, oy)
    } else {
        crate::network::verif_tie(&a, &b, oy, ox)
    };
    let (bx, by) = (ConnectionOrigin::Inbound, ConnectionOrigin::Outbound); // as seen by B
    let keep_x_at_b = if b_x_first {
        !crate::network::verif_tie(&b, &a, bx, by)
    } else {
        crate::network::verif_tie(&b, &a, by, bx)
    };
    assert_eq!(keep_x_at_a, keep_x_at_b);
    // winner is the connection dialed by the greater id
    assert_eq!(keep_x_at_a, a > b);
}

use std::future::Future;
use std::pin::Pin;
use std::task::{Context, Poll, RawWaker, RawWakerVTable, Waker};

fn noop_waker() -> Waker {
    fn clone(_: *const ()) -> RawWaker { RawWaker::new(std::ptr::null(), &VT) }
    fn noop(_: *const ()) {}
    static VT: RawWakerVTable = RawWakerVTable::new(clone, noop, noop, noop);
    unsafe { Waker::from_raw(RawWaker::new(std::ptr::null(), &VT)) }
}

fn poll_once<F: Future>(f: F) -> Option<F::Output> {
    let mut f = Box::pin(f);
    let w = noop_waker();
    let mut cx = Context::from_waker(&w);
    match f.as_mut().poll(&mut cx) {
        Poll::Ready(v) => Some(v),
        Poll::Pending => None,
    }
}


fn tr_interest(_c: &tracing::callsite::DefaultCallsite) -> tracing::subscriber::Interest { tracing::subscriber::Interest::never() }
fn tr_enabled(_m: &'static tracing::Metadata<'static>, _i: tracing::subscriber::Interest) -> bool { false }
fn tr_dispatch<'a>(_m: &'static tracing::Metadata<'static>, _f: &'a tracing::field::ValueSet<'_>) where 'a: 'a {}
fn rs_new() -> std::hash::RandomState { unsafe { std::mem::zeroed() } }
fn fmt_stub(_a: std::fmt::Arguments<'_>) -> String { String::new() }
fn bt_disabled() -> std::backtrace::Backtrace { std::backtrace::Backtrace::disabled() }

#[kani::proof]
#[kani::unwind(10)]
#[kani::stub(std::backtrace::Backtrace::capture, bt_disabled)]
#[kani::stub(alloc::fmt::format, fmt_stub)]
fn preamble_total_decoder() {
    let buf: [u8; 8] = kani::any();
    let mut rd: &[u8] = &buf;
    let r = poll_once(crate::network::verif_read_version(&mut rd)).unwrap();
    let good = buf == [b'a', b'n', b'e', b'm', b'o', 0, 1, 0];
    assert_eq!(r.is_ok(), good);
    std::mem::forget(r);
}

#[kani::proof]
#[kani::unwind(10)]
fn preamble_layout() {
    let mut out: Vec<u8> = Vec::new();
    poll_once(crate::network::verif_write_version(&mut out, crate::types::Version::V1)).unwrap().unwrap();
    assert!(out.len() == 8);
    assert!(out[0] == b'a' && out[4] == b'o' && out[5] == 0 && out[6] == 1 && out[7] == 0);
}

#[kani::proof]
fn status_closed_set() {
    let c: u16 = kani::any();
    match crate::types::response::StatusCode::new(c) {
        Ok(s) => {
            assert!(s.to_u16() == c);
            assert!(matches!(c, 200 | 400 | 404 | 408 | 429 | 500 | 505 | 520));
        }
        Err(_) => assert!(!matches!(c, 200 | 400 | 404 | 408 | 429 | 500 | 505 | 520)),
    }
}

// ---------- P3: timeout header parse + selection ----------
use std::time::Duration;
static mut SLEPT: Option<Duration> = None;
fn sleep_stub(d: Duration) -> tokio::time::Sleep {
    unsafe { SLEPT = Some(d); }
    // the property is checked here; the path ends (no runtime to build a Sleep in)
    let want = unsafe { WANT };
    assert!(want == Some(d));
    kani::assume(false);
    unreachable!()
}
static mut WANT: Option<Duration> = None;

#[derive(Clone)]
struct Never;
impl tower::Service<crate::Request<bytes::Bytes>> for Never {
    type Response = crate::Response<bytes::Bytes>;
    type Error = std::convert::Infallible;
    type Future = std::future::Pending<Result<Self::Response, Self::Error>>;
    fn poll_ready(&mut self, _: &mut Context<'_>) -> Poll<Result<(), Self::Error>> { Poll::Ready(Ok(())) }
    fn call(&mut self, _r: crate::Request<bytes::Bytes>) -> Self::Future { std::future::pending() }
}

#[kani::proof]
#[kani::unwind(24)]
#[kani::stub(tokio::time::sleep::sleep, sleep_stub)]
#[kani::stub(tracing::callsite::DefaultCallsite::interest, tr_interest)]
#[kani::stub(tracing::__macro_support::__is_enabled, tr_enabled)]
#[kani::stub(tracing::Event::dispatch, tr_dispatch)]
#[kani::stub(std::backtrace::Backtrace::capture, bt_disabled)]
#[kani::stub(alloc::fmt::format, fmt_stub)]
fn timeout_inbound_selection() {
    use tower::Service;
    // header: absent | arbitrary ASCII bytes up to 21 chars
    let present: bool = kani::any();
    let len: usize = kani::any();
    kani::assume(len <= 21);
    let raw: [u8; 21] = kani::any();
    let mut i = 0;
    while i < 21 { kani::assume(raw[i] < 0x80); i += 1; }
    let text = std::str::from_utf8(&raw[..len]).unwrap();
    let default_ms: Option<u32> = kani::any();
    let default = default_ms.map(|m| Duration::from_millis(m as u64));

    // reference semantics of the header: decimal u64 or absent
    let mut hdr: Option<u64> = None;
    if present {
        let mut acc: Option<u64> = if len == 0 { None } else { Some(0) };
        let mut j = 0;
        while j < len {
            let c = raw[j];
            acc = match acc {
                Some(a) if c >= b'0' && c <= b'9' => a.checked_mul(10).and_then(|x| x.checked_add((c - b'0') as u64)),
                Some(_) if j == 0 && c == b'+' && len > 1 => Some(0),
                _ => None,
            };
            j += 1;
        }
        hdr = acc;
    }
    let hdr_d = hdr.map(Duration::from_nanos);
    let want = match (hdr_d, default) { (None, None) => None, (Some(a), None) => Some(a), (None, Some(b)) => Some(b), (Some(a), Some(b)) => Some(if a < b { a } else { b }) };
    unsafe { WANT = want; }

    let mut req = crate::Request::new(bytes::Bytes::new());
    if present { req.headers_mut().insert("timeout".to_owned(), text.to_owned()); }
    let mut svc = crate::middleware::timeout::inbound::Timeout::new(Never, default);
    let fut = svc.call(req);
    // reached only when sleep was not called
    assert!(want.is_none());
    std::mem::forget(fut);
}

// ---------- P4: frame codec limit ----------
#[kani::proof]
#[kani::unwind(6)]
#[kani::stub(std::backtrace::Backtrace::capture, bt_disabled)]
#[kani::stub(alloc::fmt::format, fmt_stub)]
fn codec_decode_limit() {
    use tokio_util::codec::Decoder;
    let max: Option<usize> = kani::any();
    let mut cfg = crate::Config::default();
    cfg.max_frame_size = max;
    let mut codec = crate::network::verif_codec(&cfg);
    let hdr: [u8; 4] = kani::any();
    let n = u32::from_be_bytes(hdr) as usize;
    let mut buf = bytes::BytesMut::new();
    buf.extend_from_slice(&hdr);
    kani::assume(n > 64); // body not there yet
    let r = codec.decode(&mut buf);
    let limit = max.unwrap_or(usize::MAX);
    match &r {
        Ok(None) => assert!(n <= limit),
        Ok(Some(_)) => assert!(false),
        Err(_) => assert!(n > limit),
    }
    std::mem::forget(r);
    std::mem::forget(buf);
}

// ---------- P5: read_request on arbitrary bytes ----------
const NREQ: usize = 40;
#[kani::proof]
#[kani::unwind(42)]
#[kani::stub(std::backtrace::Backtrace::capture, bt_disabled)]
#[kani::stub(alloc::fmt::format, fmt_stub)]
fn read_request_total() {
    let raw: [u8; NREQ] = kani::any();
    let len: usize = kani::any();
    kani::assume(len <= NREQ);
    let cfg = crate::Config::default();
    let rd: &[u8] = &raw[..len];
    let mut fr = tokio_util::codec::FramedRead::new(rd, crate::network::verif_codec(&cfg));
    let r = poll_once(crate::network::verif_read_request(&mut fr));
    // &[u8] never returns Pending
    assert!(r.is_some());
    std::mem::forget(r);
    std::mem::forget(fr);
}

// ---------- P7: identity extraction ----------
const CERT_T: [u8; 284] = [48, 130, 1, 24, 48, 129, 203, 160, 3, 2, 1, 2, 2, 20, 126, 129, 44, 18, 243, 171, 76, 230, 172, 93, 182, 154, 195, 82, 249, 6, 203, 27, 17, 239, 48, 5, 6, 3, 43, 101, 112, 48, 33, 49, 31, 48, 29, 6, 3, 85, 4, 3, 12, 22, 114, 99, 103, 101, 110, 32, 115, 101, 108, 102, 32, 115, 105, 103, 110, 101, 100, 32, 99, 101, 114, 116, 48, 32, 23, 13, 55, 53, 48, 49, 48, 49, 48, 48, 48, 48, 48, 48, 90, 24, 15, 52, 48, 57, 54, 48, 49, 48, 49, 48, 48, 48, 48, 48, 48, 90, 48, 33, 49, 31, 48, 29, 6, 3, 85, 4, 3, 12, 22, 114, 99, 103, 101, 110, 32, 115, 101, 108, 102, 32, 115, 105, 103, 110, 101, 100, 32, 99, 101, 114, 116, 48, 42, 48, 5, 6, 3, 43, 101, 112, 3, 33, 0, 234, 74, 108, 99, 226, 156, 82, 10, 190, 245, 80, 123, 19, 46, 197, 249, 149, 71, 118, 174, 190, 190, 123, 146, 66, 30, 234, 105, 20, 70, 210, 44, 163, 19, 48, 17, 48, 15, 6, 3, 85, 29, 17, 4, 8, 48, 6, 130, 4, 116, 101, 115, 116, 48, 5, 6, 3, 43, 101, 112, 3, 65, 0, 38, 151, 169, 172, 193, 27, 17, 155, 13, 227, 103, 48, 196, 136, 50, 131, 82, 178, 145, 243, 211, 88, 157, 3, 181, 230, 240, 52, 122, 216, 211, 182, 46, 169, 162, 204, 23, 60, 235, 180, 47, 126, 170, 210, 188, 1, 42, 198, 156, 36, 152, 147, 112, 169, 201, 40, 238, 28, 168, 9, 167, 167, 111, 10];
const KEY_OFF: usize = 157;

#[kani::proof]
#[kani::unwind(40)]
#[kani::stub(std::backtrace::Backtrace::capture, bt_disabled)]
#[kani::stub(alloc::fmt::format, fmt_stub)]
fn peer_id_is_spki_key() {
    let mut cert = CERT_T;
    let key: [u8; 32] = kani::any();
    let mut i = 0;
    while i < 32 { cert[KEY_OFF + i] = key[i]; i += 1; }
    let der = rustls::pki_types::CertificateDer::from(&cert[..]);
    let r = crate::crypto::peer_id_from_certificate(&der);
    match &r {
        Ok(p) => assert!(p.0 == key),
        Err(_) => assert!(false),
    }
    std::mem::forget(r);
}

#[kani::proof]
fn ice_a() {
    let mut req = crate::Request::new(bytes::Bytes::new());
    req.headers_mut().insert("timeout".to_owned(), "5".to_owned());
    let r = crate::middleware::timeout::try_parse_timeout(req.headers());
    assert!(r.is_ok());
}
#[kani::proof]
#[kani::stub(tracing::callsite::DefaultCallsite::interest, tr_interest)]
#[kani::stub(tracing::__macro_support::__is_enabled, tr_enabled)]
#[kani::stub(tracing::Event::dispatch, tr_dispatch)]
fn ice_d() {
    tracing::trace!("hello {:?}", 5);
}

// ---------- P6: routing ----------
fn hm_insert<K, V, S, A: std::alloc::Allocator>(_m: &mut std::collections::HashMap<K, V, S, A>, k: K, v: V) -> Option<V> {
    std::mem::forget(k);
    std::mem::forget(v);
    None
}

#[derive(Clone)]
struct Tag(u8);
impl tower::Service<crate::Request<bytes::Bytes>> for Tag {
    type Response = crate::Response<bytes::Bytes>;
    type Error = std::convert::Infallible;
    type Future = std::future::Ready<Result<Self::Response, Self::Error>>;
    fn poll_ready(&mut self, _: &mut Context<'_>) -> Poll<Result<(), Self::Error>> { Poll::Ready(Ok(())) }
    fn call(&mut self, _r: crate::Request<bytes::Bytes>) -> Self::Future {
        let mut resp = crate::Response::new(bytes::Bytes::new());
        resp.extensions_mut().insert(self.0);
        std::future::ready(Ok(resp))
    }
}

const NROUTE: usize = 6;
#[kani::proof]
#[kani::unwind(12)]
#[kani::stub(std::collections::HashMap::insert, hm_insert)]
#[kani::stub(std::hash::RandomState::new, rs_new)]
#[kani::stub(std::backtrace::Backtrace::capture, bt_disabled)]
#[kani::stub(alloc::fmt::format, fmt_stub)]
fn router_dispatch() {
    use tower::Service;
    let mut router = crate::Router::new().route("/a", Tag(1)).route("/b/*rest", Tag(2));
    let raw: [u8; NROUTE] = kani::any();
    let len: usize = kani::any();
    kani::assume(len <= NROUTE);
    let mut i = 0; while i < NROUTE { kani::assume(raw[i] < 0x80); i += 1; }
    let path = unsafe { std::str::from_utf8_unchecked(&raw[..len]) };
    let req = crate::Request::new(bytes::Bytes::new()).with_route(path);
    let resp = poll_once(router.call(req)).unwrap().unwrap();
    let tag = resp.extensions().get::<u8>().copied();
    let is_a = len == 2 && raw[0] == b'/' && raw[1] == b'a';
    let is_b = len >= 3 && raw[0] == b'/' && raw[1] == b'b' && raw[2] == b'/';
    if is_a { assert!(tag == Some(1)); }
    else if is_b { assert!(tag == Some(2)); }
    else { assert!(tag.is_none()); assert!(resp.status() == crate::types::response::StatusCode::NotFound); }
    std::mem::forget(resp);
    std::mem::forget(router);
}

// ---------- P8: webpki glue with the Ed25519 primitive as an oracle ----------
static mut ORACLE_CALLS: u32 = 0;
static mut ORACLE_PK: [u8; 32] = [0; 32];
static mut ORACLE_PK_LEN: usize = 0;
static mut ORACLE_MSG_LEN: usize = 0;
static mut ORACLE_SIG_LEN: usize = 0;
static mut ORACLE_ANS: bool = false;
fn ring_verify_stub<B: AsRef<[u8]>>(this: &ring::signature::UnparsedPublicKey<B>, message: &[u8], signature: &[u8]) -> Result<(), ring::error::Unspecified> {
    let pk: &[u8] = this.as_ref();
    unsafe {
        ORACLE_CALLS += 1;
        ORACLE_PK_LEN = pk.len();
        if pk.len() == 32 { let mut i = 0; while i < 32 { ORACLE_PK[i] = pk[i]; i += 1; } }
        ORACLE_MSG_LEN = message.len();
        ORACLE_SIG_LEN = signature.len();
        let ans: bool = kani::any();
        ORACLE_ANS = ans;
        if ans { Ok(()) } else { Err(ring::error::Unspecified) }
    }
}

#[kani::proof]
#[kani::unwind(70)]
#[kani::stub(ring::signature::UnparsedPublicKey::verify, ring_verify_stub)]
#[kani::stub(std::backtrace::Backtrace::capture, bt_disabled)]
#[kani::stub(alloc::fmt::format, fmt_stub)]
fn tls13_signature_binds_cert_key() {
    use rustls::client::danger::ServerCertVerifier;
    let mut cert = CERT_T;
    let key: [u8; 32] = kani::any();
    let mut i = 0;
    while i < 32 { cert[KEY_OFF + i] = key[i]; i += 1; }
    let der = rustls::pki_types::CertificateDer::from(&cert[..]);
    let msg: [u8; 4] = kani::any();
    let sig: [u8; 64] = kani::any();
    let scheme_raw: u16 = kani::any();
    let mut enc = [0u8; 68];
    enc[0] = (scheme_raw >> 8) as u8; enc[1] = scheme_raw as u8; enc[2] = 0; enc[3] = 64;
    let mut j = 0; while j < 64 { enc[4 + j] = sig[j]; j += 1; }
    let dss = {
        use rustls::internal::msgs::codec::{Codec, Reader};
        let mut rd = Reader::init(&enc);
        rustls::DigitallySignedStruct::read(&mut rd).unwrap()
    };
    let v = crate::crypto::CertVerifier { server_names: vec!["test".to_owned()] };
    let r = v.verify_tls13_signature(&msg, &der, &dss);
    kani::cover!(r.is_ok(), "accept reachable");
    kani::cover!(r.is_err(), "reject reachable");
    if r.is_ok() {
        unsafe {
            assert!(scheme_raw == 0x0807);
            assert!(ORACLE_CALLS == 1);
            assert!(ORACLE_ANS);
            assert!(ORACLE_PK_LEN == 32 && ORACLE_PK == key);
            assert!(ORACLE_MSG_LEN == 4 && ORACLE_SIG_LEN == 64);
        }
    }
    std::mem::forget(r);
    std::mem::forget(dss);
    std::mem::forget(v);
}

#[kani::proof]
#[kani::unwind(40)]
#[kani::stub(std::backtrace::Backtrace::capture, bt_disabled)]
#[kani::stub(alloc::fmt::format, fmt_stub)]
fn peer_id_concrete() {
    let cert = CERT_T;
    let der = rustls::pki_types::CertificateDer::from(&cert[..]);
    let r = crate::crypto::peer_id_from_certificate(&der);
    match &r {
        Ok(p) => assert!(p.0[0] == 0xea),
        Err(_) => assert!(false),
    }
    std::mem::forget(r);
}

// ---------- P11: frame layout / decode totality (BytesMut only) ----------
#[kani::proof]
#[kani::unwind(14)]
#[kani::stub(std::backtrace::Backtrace::capture, bt_disabled)]
#[kani::stub(alloc::fmt::format, fmt_stub)]
fn frame_layout_and_decode() {
    use tokio_util::codec::{Decoder, Encoder};
    let cfg = crate::Config::default();
    let mut codec = crate::network::verif_codec(&cfg);
    let body: [u8; 6] = kani::any();
    let n: usize = kani::any();
    kani::assume(n <= 6);
    let mut out = bytes::BytesMut::new();
    let r = codec.encode(bytes::Bytes::copy_from_slice(&body[..n]), &mut out);
    assert!(r.is_ok());
    assert!(out.len() == 4 + n);
    assert!(out[0] == 0 && out[1] == 0 && out[2] == 0 && out[3] == n as u8);
    let mut i = 0; while i < n { assert!(out[4 + i] == body[i]); i += 1; }
    let d = codec.decode(&mut out);
    match &d { Ok(Some(f)) => { assert!(f.len() == n); let mut j = 0; while j < n { assert!(f[j] == body[j]); j += 1; } }, _ => assert!(false) }
    std::mem::forget(d); std::mem::forget(out); std::mem::forget(r);
}

// ---------- P12: tiny full round trip, empty headers ----------
#[kani::proof]
#[kani::unwind(12)]
#[kani::stub(std::hash::RandomState::new, rs_new)]
#[kani::stub(std::backtrace::Backtrace::capture, bt_disabled)]
#[kani::stub(alloc::fmt::format, fmt_stub)]
fn request_roundtrip_tiny() {
    let cfg = crate::Config::default();
    let rb: [u8; 2] = kani::any();
    kani::assume(rb[0] < 0x80 && rb[1] < 0x80);
    let rl: usize = kani::any(); kani::assume(rl <= 2);
    let route = unsafe { std::str::from_utf8_unchecked(&rb[..rl]) };
    let bb: [u8; 2] = kani::any();
    let bl: usize = kani::any(); kani::assume(bl <= 2);
    let req = crate::Request::new(bytes::Bytes::copy_from_slice(&bb[..bl])).with_route(route);
    let mut sink: Vec<u8> = Vec::new();
    {
        let mut fw = tokio_util::codec::FramedWrite::new(&mut sink, crate::network::verif_codec(&cfg));
        let w = poll_once(crate::network::verif_write_request(&mut fw, req)).unwrap();
        assert!(w.is_ok());
        std::mem::forget(w); std::mem::forget(fw);
    }
    // layout: 8 preamble + 4 + (8 + rl + 8) + 4 + bl
    assert!(sink.len() == 8 + 4 + 16 + rl + 4 + bl);
    assert!(sink[0] == b'a' && sink[6] == 1 && sink[7] == 0);
    assert!(sink[11] as usize == 16 + rl);
    assert!(sink[12] as usize == rl);
    let rd: &[u8] = &sink[..];
    let mut fr = tokio_util::codec::FramedRead::new(rd, crate::network::verif_codec(&cfg));
    let got = poll_once(crate::network::verif_read_request(&mut fr)).unwrap();
    match &got {
        Ok(r) => { assert!(r.route().len() == rl); assert!(r.body().len() == bl); assert!(r.headers().is_empty()); }
        Err(_) => assert!(false),
    }
    std::mem::forget(got); std::mem::forget(fr); std::mem::forget(sink);
}

// ---------- P13: header decode totality with map insertion stubbed ----------
const NH: usize = 24;
#[kani::proof]
#[kani::unwind(26)]
#[kani::stub(std::collections::HashMap::insert, hm_insert)]
#[kani::stub(std::hash::RandomState::new, rs_new)]
#[kani::stub(std::backtrace::Backtrace::capture, bt_disabled)]
#[kani::stub(alloc::fmt::format, fmt_stub)]
fn header_decode_total() {
    let raw: [u8; NH] = kani::any();
    let len: usize = kani::any();
    kani::assume(len <= NH);
    let r: Result<crate::types::request::RawRequestHeader, _> = bincode::deserialize(&raw[..len]);
    kani::cover!(r.is_ok(), "some header decodes");
    std::mem::forget(r);
}
