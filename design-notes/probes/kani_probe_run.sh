#!/bin/bash
# usage: run.sh <crate-dir> <harness> <timeout-s> [extra args]
d=$1; h=$2; t=$3; shift 3
cd $d
start=$(date +%s)
( ulimit -v 40000000; RUSTFLAGS="-Zcrate-attr=feature(allocator_api)" CARGO_NET_OFFLINE=true timeout $t cargo kani -Z stubbing --target-dir /tmp/probe/tgt/$h --harness $h "$@" > /tmp/probe/logs/$h.log 2>&1 )
rc=$?
end=$(date +%s)
echo "$h rc=$rc wall=$((end-start))s $(grep -E 'VERIFICATION|Verification Time' /tmp/probe/logs/$h.log | tr '\n' ' ')" >> /tmp/probe/logs/SUMMARY
