#!/usr/bin/env python3-vt
"""Throwaway feasibility prototype: symbolic execution of one MIR function body
(text from -Zunpretty=mir) with z3. Calls are uninterpreted (fresh result per
(callee, abstract-args) memoised), switchInt forks paths."""
import re, sys, z3

def load_fn(path, name_substr):
    txt = open(path).read().split('\n')
    for i, l in enumerate(txt):
        if l.startswith('fn ') and name_substr in l:
            j = i
            while txt[j] != '}':
                j += 1
            return txt[i:j + 1]
    raise SystemExit('fn not found')

def parse(lines):
    blocks, cur = {}, None
    for l in lines:
        m = re.match(r'\s+(bb\d+)( \(cleanup\))?: \{', l)
        if m:
            cur = m.group(1); blocks[cur] = []; continue
        if cur and l.strip() == '}':
            cur = None; continue
        if cur:
            blocks[cur].append(l.strip())
    return blocks

class Exec:
    def __init__(self, blocks):
        self.blocks = blocks
        self.memo = {}
        self.results = []
        self.n = 0
    def fresh(self, hint, sort='bool'):
        self.n += 1
        return z3.Bool(f'{hint}#{self.n}') if sort == 'bool' else z3.BitVec(f'{hint}#{self.n}', 64)
    def call(self, callee, args_key, sort):
        k = (callee, args_key)
        if k not in self.memo:
            import re as _re
            nm=_re.sub(r'<[^<>]*>','',_re.sub(r'<[^<>]*>','',_re.sub(r'<[^<>]*>','',callee))).replace('::::','::').strip(':').split('::')[-1]
            self.memo[k] = self.fresh(nm[:30], sort)
        return self.memo[k]
    def run(self, bb, env, pc, depth=0):
        env = dict(env)
        for st in self.blocks[bb]:
            # terminators
            m = re.match(r'switchInt\((?:move|copy) (_\d+)\) -> \[(.*)\];', st)
            if m:
                v = env.get(m.group(1))
                arms = [a.strip() for a in m.group(2).split(',')]
                taken = []
                for a in arms:
                    key, tgt = [x.strip() for x in a.split(':')]
                    if key == 'otherwise':
                        cond = z3.And([z3.Not(c) for c in taken]) if taken else z3.BoolVal(True)
                    else:
                        if z3.is_bool(v):
                            cond = v if int(key) != 0 else z3.Not(v)
                        else:
                            cond = v == z3.BitVecVal(int(key), 64)
                        taken.append(cond)
                    s = z3.Solver(); s.add(pc + [cond])
                    if s.check() == z3.sat:
                        self.run(tgt, env, pc + [cond], depth + 1)
                return
            m = re.match(r'goto -> (bb\d+);', st)
            if m:
                return self.run(m.group(1), env, pc, depth + 1)
            if st == 'return;':
                self.results.append((pc, env.get('_0')))
                return
            m = re.match(r'(_\d+) = (.*?)\((.*)\) -> \[return: (bb\d+), unwind.*\];', st)
            if m and not st.startswith('_0 = const'):
                dst, callee, args, tgt = m.groups()
                argv = tuple(str(env.get(a.split()[-1], a)) for a in args.split(', ') if a)
                boolish = any(k in callee for k in ('::ne', 'is_empty', 'contains', '::gt', 'unwrap_or', '::le'))
                if 'unwrap_or' in callee:
                    opt = env.get(args.split(', ')[0].split()[-1])
                    env[dst] = z3.If(opt[0], opt[1], z3.BoolVal('true' in args))
                elif 'Option::<&DialBackoffState>::map' in callee:
                    opt = env.get(args.split(', ')[0].split()[-1])
                    inner = self.call('Instant::gt(now, state.backoff)', (), 'bool')
                    env[dst] = (opt, inner)   # (is_some, value)
                elif 'HashMap' in callee and '::get::' in callee:
                    env[dst] = self.call('backoff_state_exists', (), 'bool')
                elif boolish:
                    env[dst] = self.call(callee, (), 'bool')
                else:
                    env[dst] = ('opaque', callee, argv)
                return self.run(tgt, env, pc, depth + 1)
            m = re.match(r'(_\d+) = discriminant\((.*)\);', st)
            if m:
                env[m.group(1)] = z3.BitVec('affinity_discr', 64)
                continue
            m = re.match(r'(_\d+) = const (true|false);', st)
            if m:
                env[m.group(1)] = z3.BoolVal(m.group(2) == 'true'); continue
            m = re.match(r'(_\d+) = (?:no_retag )?(?:copy|move) (_\d+);', st)
            if m:
                env[m.group(1)] = env.get(m.group(2)); continue
            m = re.match(r'(_\d+) = ', st)
            if m:
                env[m.group(1)] = ('opaque', st); continue
            raise SystemExit('unhandled: ' + st)

lines = load_fn(sys.argv[1], 'handle_connectivity_check::{closure#1}(')
ex = Exec(parse(lines))
ex.run('bb0', {}, [])
print('feasible paths:', len(ex.results))
impl = z3.Or([z3.And(pc + [ret]) for pc, ret in ex.results])
names = {str(v): v for v in ex.memo.values()}
print('oracle symbols:', sorted(names))
d = z3.BitVec('affinity_discr', 64)
g = lambda s: [v for k, v in names.items() if k.startswith(s)][0]
spec = z3.And(d == 0, g('ne'), z3.Not(g('is_empty')), z3.Not(g('contains#')), z3.Not(g('contains_key')),
              z3.Or(z3.Not(g('backoff_state_exists')), g('gt')))
s = z3.Solver(); s.add(z3.ULT(d, 3)); s.add(impl != spec)
print('equivalence query:', s.check(), '(unsat = eligibility filter == spec for all inputs)')
