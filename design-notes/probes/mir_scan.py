import sys, re, time, threading
sys.setrecursionlimit(1000000); threading.stack_size(1024*1024*1024)
import mirsym_prototype as M
import z3
def m_false(ex, p, c, a, t, k): k(p, z3.BoolVal(False))
def scan(path, pats):
    fns = M.load(path)
    for pat in pats:
        names = [n for n in fns if re.search(pat, n)]
        for n in names[:3]:
            ex = M.Exec(fns, [(r'Level as PartialOrd<LevelFilter>>::le', m_false)], max_depth=0)
            res = []
            t0 = time.time()
            try:
                fn = fns[n]
                args = [M.fresh(a, fn.decl.get(a, '')) for a in fn.args]
                # coroutine: start in state 0
                if '{closure' in n and args and isinstance(args[0], M.Lazy) and args[0].ty.startswith('Pin<&mut'):
                    st = M.Lazy('gen', 'coroutine'); st.discr = z3.BitVecVal(0, 64); args[0].fields[0] = M.Ref([st])
                p = M.Path()
                ex.run_fn(n, args, p, 0, lambda q, r: res.append(q))
                calls = set()
                print(f'OK   paths={len(res):4d} q={ex.queries:5d} {time.time()-t0:5.1f}s blocks={len(fn.blocks):4d} {n[-90:]}')
            except SystemExit as e:
                print(f'UNH  {str(e)[:230]}')
            except Exception as e:
                print(f'EXC  {type(e).__name__}: {str(e)[:120]} in {n[-80:]}')
def main():
    scan(sys.argv[1], sys.argv[2:])
t = threading.Thread(target=main); t.start(); t.join()
