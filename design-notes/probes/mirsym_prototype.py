#!/usr/bin/env python3-vt
"""Feasibility prototype #2 of the MIR symbolic executor (throwaway, not the framework).
Parses -Zunpretty=mir text, executes path-by-path with z3, models a few library calls,
records events.  Demos: admission (C10), add+tie-break (C04/C05)."""
import re, sys, itertools, z3

# ----------------------------------------------------------------------------- parsing
class Fn:
    def __init__(self, name, header, lines):
        self.name, self.header = name, header
        self.decl = {}
        self.blocks = {}
        cur = None
        for l in lines:
            m = re.match(r'\s+let (?:mut )?(_\d+): (.*);$', l)
            if m: self.decl[m.group(1)] = m.group(2); continue
            m = re.match(r'\s+(bb\d+)( \(cleanup\))?: \{', l)
            if m: cur = m.group(1); self.blocks[cur] = []; continue
            if cur and l.strip() == '}': cur = None; continue
            if cur and l.strip(): self.blocks[cur].append(l.strip())
        m = re.match(r'fn .*?\((.*)\) -> (.*) \{$', header)
        self.args = []
        if m:
            for a in split_top(m.group(1)):
                am = re.match(r'(_\d+): (.*)', a.strip())
                if am: self.args.append(am.group(1)); self.decl[am.group(1)] = am.group(2)
            self.decl['_0'] = m.group(2)

def split_top(s, sep=','):
    out, depth, cur = [], 0, ''
    i = 0
    while i < len(s):
        c = s[i]
        if c in '([{<' and not (c == '<' and s[i-1:i] == '-'): depth += 1
        elif c in ')]}' : depth -= 1
        elif c == '>' and s[i-1:i] not in ('-', '='): depth -= 1
        if c == sep and depth == 0: out.append(cur); cur = ''
        else: cur += c
        i += 1
    if cur.strip(): out.append(cur)
    return [x.strip() for x in out]

def load(path):
    fns, txt = {}, [re.sub(r'\s*// (in scope|scope|return place|mir::|\+ ).*$', '', l) for l in open(path).read().split('\n')]
    i = 0
    while i < len(txt):
        if txt[i].startswith('fn '):
            j = i
            while txt[j] != '}': j += 1
            name = txt[i][3:txt[i].index('(_')] if '(_' in txt[i] else txt[i][3:txt[i].index('(')]
            fns[name] = Fn(name, txt[i], txt[i+1:j])
            i = j
        i += 1
    return fns

# place parser: returns (local, [proj...]) ; proj = ('deref',) | ('field', n, ty) | ('down', variant)
def parse_place(s):
    s = s.strip()
    if re.fullmatch(r'_\d+', s): return (s, [])
    assert s[0] == '(' and s[-1] == ')', s
    inner = s[1:-1]
    if inner.startswith('*'):
        b, p = parse_place(inner[1:]); return (b, p + [('deref',)])
    # (P as Variant)  |  (P.N: T)
    m = re.match(r'(.*) as (\w+(?:#\d+)?)$', inner)
    if m and balanced(m.group(1)):
        b, p = parse_place(m.group(1)); return (b, p + [('down', m.group(2))])
    # find the top-level '.N: '
    depth = 0
    for k in range(len(inner)):
        c = inner[k]
        if c == '(' : depth += 1
        elif c == ')': depth -= 1
        elif c == '.' and depth == 0:
            m = re.match(r'\.(\d+): (.*)$', inner[k:])
            if m:
                b, p = parse_place(inner[:k]); return (b, p + [('field', int(m.group(1)), m.group(2))])
    raise ValueError('place? ' + s)

def balanced(s):
    d = 0
    for c in s:
        if c == '(': d += 1
        elif c == ')': d -= 1
        if d < 0: return False
    return d == 0

# ----------------------------------------------------------------------------- values
CNT = itertools.count()
def fresh(hint, ty):
    n = next(CNT)
    t = ty.strip() if ty else ''
    if t == 'bool': return z3.Bool(f'{hint}!{n}')
    if re.fullmatch(r'(u|i)(8|16|32|64|size)', t):
        w = 64 if t.endswith('size') else int(t[1:]); return z3.BitVec(f'{hint}!{n}', w)
    if re.fullmatch(r'(types::peer_id::)?PeerId', t): return z3.BitVec(f'{hint}!{n}', 256)
    return Lazy(f'{hint}!{n}', t)

class Lazy:
    """object of unknown structure; fields / discriminant materialise on demand"""
    def __init__(self, name, ty): self.name, self.ty, self.fields, self.discr, self.variants = name, ty, {}, None, {}
    def field(self, n, ty):
        if n not in self.fields: self.fields[n] = fresh(f'{self.name}.{n}', ty)
        return self.fields[n]
    def discriminant(self):
        if self.discr is None: self.discr = z3.BitVec(f'{self.name}.discr', 64)
        return self.discr
    def variant(self, v):
        if v not in self.variants: self.variants[v] = Lazy(f'{self.name}@{v}', '')
        return self.variants[v]
    def __repr__(self): return f'<{self.name}:{self.ty[:30]}>'

class Ref:
    def __init__(self, cell): self.cell = cell           # cell = [value]
class Ctor:
    def __init__(self, name, args): self.name, self.args = name, args
    def __repr__(self): return f'{self.name}({", ".join(map(str, self.args))})'

VARIANT_INDEX = {'None': 0, 'Some': 1, 'Ok': 0, 'Err': 1, 'Ready': 0, 'Pending': 1, 'Occupied': 0, 'Vacant': 1,
                 'Continue': 0, 'Break': 1}

class Path:
    def __init__(self): self.pc, self.events, self.env, self.state = [], [], {}, {}
    def clone(self):
        p = Path(); p.pc = list(self.pc); p.events = list(self.events); p.env = dict(self.env); p.state = dict(self.state); return p

class Exec:
    def __init__(self, fns, models, max_depth=3):
        self.fns, self.models, self.max_depth = fns, models, max_depth
        self.queries = 0
    def feasible(self, pc):
        s = z3.Solver(); s.add(pc); self.queries += 1
        return s.check() == z3.sat
    # ---- places
    def read_place(self, p, place):
        base, projs = parse_place(place)
        v = p.env.get(base)
        if v is None:
            v = fresh(base, self.fn.decl.get(base, '')); p.env[base] = v
        for pr in projs:
            if pr[0] == 'deref':
                if isinstance(v, Ref): v = v.cell[0]
                elif isinstance(v, Lazy): v = v.field('*', re.sub(r'^&(mut )?', '', v.ty))
            elif pr[0] == 'field':
                if isinstance(v, Lazy): v = v.field(pr[1], pr[2])
                elif isinstance(v, Ctor): v = v.args[pr[1]]
                elif isinstance(v, tuple): v = v[pr[1]]
                else: raise ValueError(f'field of {v}')
            elif pr[0] == 'down':
                if isinstance(v, Lazy): v = v.variant(pr[1])
                elif isinstance(v, Ctor): pass
        return v
    def write_place(self, p, place, val):
        base, projs = parse_place(place)
        if not projs: p.env[base] = val; return
        # only needed forms: write through one level into Lazy
        tgt = self.read_place(p, place[1:place.rindex('.')] if False else base) if False else None
        v = p.env.get(base)
        if v is None: v = fresh(base, self.fn.decl.get(base, '')); p.env[base] = v
        for pr in projs[:-1]:
            if pr[0] == 'deref': v = v.cell[0] if isinstance(v, Ref) else v.field('*', '')
            elif pr[0] == 'field': v = v.field(pr[1], pr[2])
            elif pr[0] == 'down': v = v.variant(pr[1])
        last = projs[-1]
        if last[0] == 'field' and isinstance(v, Lazy): v.fields[last[1]] = val
        elif last[0] == 'deref' and isinstance(v, Ref): v.cell[0] = val
    def operand(self, p, s):
        s = s.strip()
        s = re.sub(r'^no_retag ', '', s)
        if s.startswith('copy ') or s.startswith('move '): return self.read_place(p, s[5:])
        if s.startswith('const '):
            c = s[6:]
            if c in ('true', 'false'): return z3.BoolVal(c == 'true')
            m = re.fullmatch(r'(\d+)_(u|i)(8|16|32|64|size)', c)
            if m: return z3.BitVecVal(int(m.group(1)), 64 if m.group(3) == 'size' else int(m.group(3)))
            return Ctor('const', [c])
        if not s.startswith(('_', '(')): return Ctor('fnitem', [s])
        return self.read_place(p, s)
    def rvalue(self, p, dst, rv):
        m = re.fullmatch(r'discriminant\((.*)\)', rv)
        if m:
            v = self.read_place(p, m.group(1))
            if isinstance(v, Lazy): return v.discriminant()
            if isinstance(v, Ctor):
                return z3.BitVecVal(VARIANT_INDEX.get(v.name.split('::')[-1], 0), 64)
            return v
        m = re.fullmatch(r'(Eq|Ne|Lt|Le|Gt|Ge)\((.*)\)', rv)
        if m:
            a, b = [self.operand(p, x) for x in split_top(m.group(2))]
            op = m.group(1)
            return {'Eq': lambda: a == b, 'Ne': lambda: a != b, 'Lt': lambda: z3.ULT(a, b), 'Le': lambda: z3.ULE(a, b),
                    'Gt': lambda: z3.UGT(a, b), 'Ge': lambda: z3.UGE(a, b)}[op]()
        m = re.fullmatch(r'Not\((.*)\)', rv)
        if m: return z3.Not(self.operand(p, m.group(1)))
        if rv.startswith('[') and rv.endswith(']'):
            return tuple(self.operand(p, x) for x in split_top(rv[1:-1]))
        if rv.startswith('&mut ') or rv.startswith('&'):
            pl = rv[5:] if rv.startswith('&mut ') else rv[1:]
            return Ref([self.read_place(p, pl)])
        if rv.startswith('(') and not rv.startswith('(*') and not re.match(r'\(\(?\*?_\d+', rv):
            return tuple(self.operand(p, x) for x in split_top(rv[1:-1]))
        if rv.endswith(')') and not rv.startswith(('copy ', 'move ', 'const ', 'no_retag ', '(', '&')) and '::' in rv:
            d, j = 0, len(rv) - 1
            while j >= 0:
                if rv[j] == ')': d += 1
                elif rv[j] == '(':
                    d -= 1
                    if d == 0: break
                j -= 1
            head, inner = rv[:j], rv[j+1:-1]
            name = re.sub(r'::<.*>', '', head)
            return Ctor(name, [self.operand(p, x) for x in split_top(inner)] if inner.strip() else [])
        m = re.fullmatch(r'(.+?) \{ (.*) \}', rv)
        if m and not rv.startswith(('copy ', 'move ', 'const ')):
            return Ctor(re.sub(r'::<.*>', '', m.group(1)), [self.operand(p, x.split(': ', 1)[1]) for x in split_top(m.group(2))])
        if re.fullmatch(r'[\w:]+::\w+', rv) and not rv.startswith(('copy', 'move', 'const')):
            return Ctor(rv, [])
        try:
            return self.operand(p, rv)
        except Exception:
            return fresh('rv', self.fn.decl.get(dst, ''))
    # ---- execution
    def run_fn(self, name, argvals, p, depth, k):
        """run function `name`; call continuation k(path, retval) for every feasible path"""
        fn = self.fns[name]
        saved_env, saved_fn = p.env, getattr(self, 'fn', None)
        p.env = {a: v for a, v in zip(fn.args, argvals)}
        def done(q, ret):
            q.env = dict(saved_env); self.fn = saved_fn; k(q, ret)
        self.fn = fn
        self.run_block(fn, 'bb0', p, depth, done, set())
        self.fn = saved_fn
    def run_block(self, fn, bb, p, depth, k, seen):
        self.fn = fn
        if (bb) in seen:
            p.events.append(('loop-cut', bb)); k(p, None); return
        seen = seen | {bb}
        for st in fn.blocks[bb]:
            self.fn = fn
            if st == 'return;': k(p, p.env.get('_0')); return
            if st in ('unreachable;', 'resume;'): return
            m = re.fullmatch(r'goto -> (bb\d+);', st)
            if m: return self.run_block(fn, m.group(1), p, depth, k, seen)
            m = re.fullmatch(r'switchInt\((.*?)\) -> \[(.*)\];', st)
            if m:
                v = self.operand(p, m.group(1)); taken = []
                for arm in split_top(m.group(2)):
                    key, tgt = [x.strip() for x in arm.split(':')]
                    if key == 'otherwise': cond = z3.And([z3.Not(c) for c in taken]) if taken else z3.BoolVal(True)
                    else:
                        cond = (v if int(key) else z3.Not(v)) if z3.is_bool(v) else (v == z3.BitVecVal(int(key), v.size()))
                        taken.append(cond)
                    if self.feasible(p.pc + [cond]):
                        q = p.clone(); q.pc.append(cond)
                        self.run_block(fn, tgt, q, depth, k, seen)
                return
            m = re.fullmatch(r'drop\((.*)\) -> \[return: (bb\d+), unwind.*\];', st)
            if m:
                p.events.append(('drop', str(self.read_place(p, m.group(1)))))
                return self.run_block(fn, m.group(2), p, depth, k, seen)
            m = re.fullmatch(r'assert\((.*?), .*\) -> \[success: (bb\d+), unwind.*\];', st)
            if m: return self.run_block(fn, m.group(2), p, depth, k, seen)
            m = re.fullmatch(r'(.+?) = (.+\)) -> \[return: (bb\d+), unwind.*\];', st)
            if m:
                dst, rhs, tgt = m.groups()
                d, j = 0, len(rhs) - 1
                while j >= 0:
                    if rhs[j] == ')': d += 1
                    elif rhs[j] == '(':
                        d -= 1
                        if d == 0: break
                    j -= 1
                callee, args = rhs[:j], rhs[j+1:-1]
                argv = [self.operand(p, a) for a in split_top(args)] if args.strip() else []
                def cont(q, ret, dst=dst, tgt=tgt):
                    self.fn = fn
                    self.write_place(q, dst, ret)
                    self.run_block(fn, tgt, q, depth, k, seen)
                self.call(p, callee, argv, fn.decl.get(dst, ''), depth, cont)
                return
            m = re.fullmatch(r'discriminant\((.*)\) = (\d+);', st)
            if m: continue
            m = re.fullmatch(r'(.+?) = (.*);', st)
            if m:
                self.write_place(p, m.group(1), self.rvalue(p, m.group(1), m.group(2))); continue
            raise SystemExit(f'unhandled statement in {fn.name} {bb}: {st}')
    def call(self, p, callee, argv, retty, depth, k):
        for pat, model in self.models:
            if re.search(pat, callee):
                return model(self, p, callee, argv, retty, k)
        # crate-local with MIR?
        key = callee
        if key in self.fns and depth < self.max_depth:
            return self.run_fn(key, argv, p, depth + 1, k)
        k(p, fresh(re.sub(r'<.*', '', callee).split('::')[-1], retty))

# ----------------------------------------------------------------------------- demo A: admission (C10)
def demo_admission(fns):
    name = [n for n in fns if 'handle_incoming_task::{closure#0}::{closure#0}' in n][0]
    fn = fns[name]
    sym = {}
    def m_poll_connecting(ex, p, callee, argv, retty, k):
        # schedule: connecting is Ready(Ok(conn))
        conn = Lazy('conn', 'Connection'); sym['conn'] = conn
        k(p, Ctor('Poll::Ready', [Ctor('Result::Ok', [conn])]))
    def m_branch(ex, p, callee, argv, retty, k):
        v = argv[0]
        if isinstance(v, Ctor) and v.name.endswith('Ok'): k(p, Ctor('ControlFlow::Continue', v.args))
        else: k(p, Ctor('ControlFlow::Break', [v]))
    def m_known_get(ex, p, callee, argv, retty, k):
        r = Lazy('known', 'Option<PeerInfo>'); sym['known'] = r; p.events.append(('KnownPeers::get', str(argv[1]))); k(p, r)
    def m_limit(ex, p, callee, argv, retty, k):
        r = Lazy('limit', 'Option<usize>'); sym['limit'] = r; k(p, r)
    def m_len(ex, p, callee, argv, retty, k):
        r = z3.BitVec('active_len', 64); sym['len'] = r; k(p, r)
    def m_handshake(ex, p, callee, argv, retty, k):
        p.events.append(('ADMIT', str(argv[0]))); k(p, Lazy('hs', 'fut'))
    def m_ident(ex, p, callee, argv, retty, k): k(p, argv[0])
    def m_err(ex, p, callee, argv, retty, k):
        p.events.append(('REJECT',)); k(p, Lazy('err', 'anyhow::Error'))
    def m_poll_hs(ex, p, callee, argv, retty, k):
        k(p, Ctor('Poll::Pending', []))
    models = [(r'Connecting as futures::Future>::poll', m_poll_connecting), (r'as Try>::branch', m_branch),
              (r'KnownPeers::get', m_known_get), (r'max_concurrent_connections', m_limit), (r'ActivePeers::len', m_len),
              (r'^handshake$', m_handshake), (r'IntoFuture>::into_future|new_unchecked|as Deref>::deref', m_ident),
              (r'anyhow::error::<impl anyhow::Error>::msg', m_err), (r'wire::handshake\(\)\} as futures::Future>::poll', m_poll_hs)]
    ex = Exec(fns, models)
    p = Path(); p.env = {}
    ex.fn = fn
    results = []
    # start in coroutine state 0
    st = Lazy('gen', 'coroutine'); st.discr = z3.BitVecVal(0, 64)
    pin = Lazy('pin', 'Pin'); pin.fields[0] = Ref([st])
    p.env = {'_1': pin, '_2': Lazy('cx', 'Context')}
    ex.run_block(fn, 'bb0', p, 0, lambda q, r: results.append(q), set())
    admit = [z3.And(q.pc) for q in results if any(e[0] == 'ADMIT' for e in q.events)]
    reject = [z3.And(q.pc) for q in results if any(e[0] == 'REJECT' for e in q.events)]
    print(f'[C10] paths={len(results)} admit-paths={len(admit)} reject-paths={len(reject)} queries={ex.queries}')
    kd = sym['known'].discriminant(); aff = sym['known'].variant('Some').field(0, 'types::PeerInfo').field(1, 'types::PeerAffinity').discriminant()
    ld = sym['limit'].discriminant(); lim = sym['limit'].variant('Some').field(0, 'usize'); ln = sym['len']
    dom = z3.And(z3.ULT(kd, 2), z3.ULT(aff, 3), z3.ULT(ld, 2))
    spec = z3.Or(z3.And(kd == 1, z3.Or(aff == 0, aff == 1)), z3.And(kd == 0, z3.Or(ld == 0, z3.ULT(ln, lim))))
    s = z3.Solver(); s.add(dom, z3.Or(admit) != spec); r1 = s.check()
    s = z3.Solver(); s.add(dom, z3.Or(reject) != z3.Not(spec)); r2 = s.check()
    print(f'[C10] admit≡spec: {r1} ; reject≡¬spec: {r2}   (unsat = holds for all affinity/limit/len)')
    for q in results[:3]: print('   sample path events:', q.events)

# ----------------------------------------------------------------------------- demo B: add + tie-break (C04/C05)
def demo_add(fns):
    add = [n for n in fns if n.endswith('592:1: 592:22>::add')][0]
    tie = [n for n in fns if n.endswith('simultaneous_dial_tie_breaking')][0]
    has = z3.Bool('has_entry')
    old = Lazy('oldconn', 'Connection'); new = Lazy('newconn', 'Connection')
    own = z3.BitVec('own_id', 256); remote = z3.BitVec('remote_id', 256)
    o_old = z3.BitVec('old_origin', 64); o_new = z3.BitVec('new_origin', 64)   # 0 inbound, 1 outbound
    def m_peer_id(ex, p, c, a, t, k): k(p, remote)
    def m_entry(ex, p, c, a, t, k):
        for present in (True, False):
            cond = has if present else z3.Not(has)
            if ex.feasible(p.pc + [cond]):
                q = p.clone(); q.pc.append(cond)
                e = Lazy('entry', 'Entry'); e.discr = z3.BitVecVal(0 if present else 1, 64)
                k(q, e)
    def m_occ_get(ex, p, c, a, t, k): k(p, Ref([old]))
    def m_origin(ex, p, c, a, t, k):
        v = a[0].cell[0] if isinstance(a[0], Ref) else a[0]
        d = Lazy('dir', 'Direction'); d.discr = o_old if v is old else o_new
        k(p, Ctor('ConnectionOrigin', [d]))
    def m_tie(ex, p, c, a, t, k): ex.run_fn(tie, a, p, 1, k)
    def m_lt(ex, p, c, a, t, k):
        x, y = a[0], a[1]
        while isinstance(x, Ref): x = x.cell[0]
        while isinstance(y, Ref): y = y.cell[0]
        k(p, z3.ULT(x, y))
    def m_false(ex, p, c, a, t, k): k(p, z3.BoolVal(False))
    def m_clone(ex, p, c, a, t, k): k(p, a[0].cell[0] if isinstance(a[0], Ref) else a[0])
    def m_occ_insert(ex, p, c, a, t, k):
        p.events.append(('map:=', str(a[1]))); p.state['entry'] = a[1]; k(p, old)
    def m_vac_insert(ex, p, c, a, t, k):
        p.events.append(('map:=', str(a[1]))); p.state['entry'] = a[1]; k(p, Ref([a[1]]))
    def m_close(ex, p, c, a, t, k):
        v = a[0].cell[0] if isinstance(a[0], Ref) else a[0]; p.events.append(('close', str(v))); k(p, Ctor('()', []))
    def m_send(ex, p, c, a, t, k): p.events.append(('event', str(a[1]))); k(p, Ctor('()', []))
    models = [(r'Connection::peer_id', m_peer_id), (r'HashMap::<.*>::entry', m_entry), (r'OccupiedEntry::<.*>::get$', m_occ_get),
              (r'Connection::origin', m_origin), (r'simultaneous_dial_tie_breaking', m_tie), (r'PartialOrd>::lt', m_lt),
              (r'Level as PartialOrd<LevelFilter>>::le', m_false), (r'as Clone>::clone', m_clone),
              (r'OccupiedEntry::<.*>::insert', m_occ_insert), (r'VacantEntry::<.*>::insert', m_vac_insert),
              (r'Connection::close', m_close), (r'ActivePeersInner::send_event', m_send)]
    ex = Exec(fns, models)
    results = []
    p = Path()
    selfobj = Lazy('self', 'ActivePeersInner')
    ex.run_fn(add, [Ref([selfobj]), Ref([own]), new], p, 0, lambda q, r: results.append((q, r)))
    print(f'[C04] add: feasible paths={len(results)} queries={ex.queries}')
    dom = [z3.ULT(o_old, 2), z3.ULT(o_new, 2), own != remote]
    bad = 0
    for q, r in results:
        ev = [e for e in q.events if e[0] in ('map:=', 'close', 'event')]
        s = z3.Solver(); s.add(dom + q.pc); s.check(); mdl = s.model()
        vacant = z3.is_true(mdl.eval(z3.Not(has), model_completion=True))
        kinds = [(e[0], ('New' if 'NewPeer' in e[1] else 'Lost' if 'LostPeer' in e[1] else e[1])) for e in ev]
        ok = (kinds == [('map:=', str(new)), ('event', 'New')] if vacant else
              kinds in ([('map:=', str(new)), ('close', str(old)), ('event', 'Lost'), ('event', 'New')], [('close', str(new))]))
        bad += (not ok)
        print('   path:', 'Vacant' if vacant else 'Occupied', kinds, 'ret=', r, 'OK' if ok else 'BAD')
    # C05: keep-new decision == spec, for all ids/origins
    keep_new = z3.Or([z3.And(q.pc) for q, r in results if any(e[0] == 'map:=' for e in q.events)])
    spec = z3.Or(z3.Not(has), o_old == o_new, z3.And(o_old == 0, o_new == 1, z3.ULT(remote, own)), z3.And(o_old == 1, o_new == 0, z3.ULT(own, remote)))
    s = z3.Solver(); s.add(dom); s.add(keep_new != spec)
    print(f'[C05] replace-decision ≡ spec over 2^512 id pairs: {s.check()} ; bad paths={bad}')


# ----------------------------------------------------------------------------- demo C: generated route strings (C17)
import ast
def decode_template(lit, args):
    raw = ast.literal_eval(lit)            # b"..."
    out, i, ai = [], 0, 0
    while i < len(raw):
        b = raw[i]
        if b == 0: break
        if b == 0xc0: out.append(args[ai]); ai += 1; i += 1
        elif b < 0x80: out.append(z3.StringVal(raw[i+1:i+1+b].decode())); i += 1 + b
        else: raise SystemExit('template byte %x' % b)
    out=[o if (hasattr(o,'sort') and o.sort()==z3.StringSort()) else z3.String('opaque_str_%d'%next(CNT)) for o in out]
    return z3.Concat(*out) if len(out) > 1 else out[0]

def deref(v):
    while isinstance(v, Ref): v = v.cell[0]
    return v

def string_models(tag, sink):
    pkg, svc, route = z3.String('package'), z3.String('service'), z3.String('route_name')
    def m_pkg(ex, p, c, a, t, k): k(p, pkg)
    def m_svc(ex, p, c, a, t, k): k(p, svc)
    def m_route(ex, p, c, a, t, k): k(p, route)
    def m_empty(ex, p, c, a, t, k): k(p, z3.Length(deref(a[0])) == 0)
    def m_next(ex, p, c, a, t, k):
        if any(e == ('iter',) for e in p.events): k(p, Ctor('Option::None', []))
        else: p.events.append(('iter',)); k(p, Ctor('Option::Some', [Lazy('method', 'Method')]))
    def m_disp(ex, p, c, a, t, k): k(p, deref(a[0]))
    def m_args(ex, p, c, a, t, k):
        lit = a[0].args[0] if isinstance(a[0], Ctor) else None
        k(p, decode_template(lit, [deref(x) for x in deref(a[1])]))
    def m_id(ex, p, c, a, t, k): k(p, a[0])
    def m_sink(ex, p, c, a, t, k):
        strs = [deref(x) for x in a if hasattr(deref(x), 'sort') and deref(x).sort() == z3.StringSort()]
        if strs: sink.append((tag, list(p.pc), strs[-1]))
        k(p, Lazy('ts', 'TokenStream'))
    def m_strconst(ex, p, c, a, t, k): k(p, a[0])
    return [(r'Service::package', m_pkg), (r'Service::identifier', m_svc), (r'Method::identifier', m_route),
            (r'str>::is_empty', m_empty), (r'as Iterator>::next', m_next), (r'Argument::<.*>::new_display', m_disp),
            (r'Arguments::<.*>::new::<', m_args), (r'^format$|^must_use::<', m_id), (r'Deref>::deref|String::as_str', m_disp),
            (r'^generate_unary$|LitStr::new|^generate_transport$', m_sink)]

def demo_routes(build_fns, anemo_fns):
    sink = []
    class E2(Exec):
        def operand(self, p, s):
            s2 = s.strip()
            m = re.fullmatch(r'const "(.*)"', s2)
            if m: return z3.StringVal(m.group(1))
            m = re.fullmatch(r'const (b".*")', s2)
            if m: return Ctor('const', [m.group(1)])
            return super().operand(p, s)
    for tag, fname in (('client', 'generate_methods'), ('server-arm', 'generate_method_routes'), ('service-name', 'server::generate')):
        ex = E2(build_fns, string_models(tag, sink), max_depth=0)
        p = Path(); ex.run_fn(fname, [Ref([Lazy('service', 'Service')])], p, 0, lambda q, r: None)
    by = {}
    for tag, pc, v in sink: by.setdefault(tag, []).append((pc, v))
    print('[C17] sinks:', {k: len(v) for k, v in by.items()})
    pkg, svc, route = z3.String('package'), z3.String('service'), z3.String('route_name')
    def val(tag):   # merge paths with ite on path condition
        items = by[tag]; e = items[-1][1]
        for pc, v in items[:-1]: e = z3.If(z3.And(pc), v, e)
        return e
    client, server, name = val('client'), val('server-arm'), val('service-name')
    spec = z3.Concat(z3.StringVal('/'), pkg, z3.If(z3.Length(pkg) == 0, z3.StringVal(''), z3.StringVal('.')), svc, z3.StringVal('/'), route)
    for title, f in (('client path == server match arm', client != server), ('client path == spec', client != spec),
                     ('client path has prefix "/"+SERVICE_NAME+"/"', z3.Not(z3.PrefixOf(z3.Concat(z3.StringVal('/'), name, z3.StringVal('/')), client)))):
        s = z3.Solver(); s.set('timeout', 60000); s.add(f); print(f'[C17] {title}:', s.check(), '(unsat = holds for all strings)')

def main():
    fns = load(sys.argv[1])
    print('functions parsed:', len(fns))
    demo_admission(fns)
    demo_add(fns)
    if len(sys.argv) > 2: demo_routes(load(sys.argv[2]), fns)

if __name__ == '__main__' and not sys.argv[0].endswith('scan.py'):
    import threading
    sys.setrecursionlimit(1000000); threading.stack_size(1024*1024*1024)
    t = threading.Thread(target=main); t.start(); t.join()
