// Kani harnesses placed (by the scratch overlay) as a child module of the file that declares `DialBackoffState`
// (crates/anemo/src/network/connection_manager.rs at the pinned commit), so that the private type is nameable.
use super::*;
use std::time::{Duration, Instant};

fn any_duration_ms(limit_ms: u32) -> Duration {
    let ms: u32 = kani::any();
    kani::assume(ms <= limit_ms);
    Duration::from_millis(ms as u64)
}

fn any_instant() -> Instant {
    // Instant has no public constructor; on this target it is (secs: i64, nanos: u32 < 1e9).
    let secs: i64 = kani::any();
    let nanos: u32 = kani::any();
    kani::assume(secs >= 0 && secs < (1i64 << 40));
    kani::assume(nanos < 1_000_000_000);
    unsafe { std::mem::transmute::<(i64, u32), Instant>((secs, nanos)) }
}

fn backoff_update_formula(limit_ms: u32, max_attempts: usize) {
    let now = any_instant();
    let prev = any_instant();
    let step = any_duration_ms(limit_ms);
    let max = any_duration_ms(limit_ms);
    let attempts: usize = kani::any();
    kani::assume(attempts < max_attempts);
    let mut st = DialBackoffState { backoff: prev, attempts };
    st.update(now, step, max);
    assert!(st.attempts == attempts + 1, "attempts incremented by exactly one");
    // spec: next attempt no sooner than min(max, k * step) after `now`, k = attempts so far
    let k = (attempts + 1) as u32;
    let want = std::cmp::min(max, step * k);
    kani::cover!(step * k > max, "cap reachable");
    kani::cover!(step * k < max, "linear region reachable");
    assert!(st.backoff == now + want, "backoff = now + min(max, k*step)");
    assert!(st.backoff >= now, "never before now");
}

/// C13 (quick bound): step, max <= 2^16 ms, attempts < 64.
#[kani::proof]
fn c13_backoff_update_quick() {
    backoff_update_formula(1 << 16, 64);
}

/// C13 (thorough bound): step, max <= 10^8 ms (~27 h), attempts < 1000.
#[kani::proof]
fn c13_backoff_update_thorough() {
    backoff_update_formula(100_000_000, 1000);
}

/// C13: `new` is one update from (now, 0 attempts).
#[kani::proof]
fn c13_backoff_new_is_first_update() {
    let now = any_instant();
    let step = any_duration_ms(1 << 16);
    let max = any_duration_ms(1 << 16);
    let st = DialBackoffState::new(now, step, max);
    assert!(st.attempts == 1);
    assert!(st.backoff == now + std::cmp::min(max, step));
}
