// Kani harnesses placed (by the scratch overlay) as a child module of
// crates/anemo/src/network/connection_manager.rs, so that the private items
// `ActivePeersInner::simultaneous_dial_tie_breaking` is nameable (the overlay follows the function if it moves to another file).
use super::*;
use crate::{ConnectionOrigin, PeerId};
use std::time::{Duration, Instant};

fn tie(own: &PeerId, remote: &PeerId, existing: ConnectionOrigin, new: ConnectionOrigin) -> bool {
    ActivePeersInner::simultaneous_dial_tie_breaking(own, remote, existing, new)
}

/// C05: for all distinct 256-bit ids a, b and both arrival orders on each side, A and B keep
/// the same connection, and it is the one dialed by the greater id.
#[kani::proof]
#[kani::unwind(34)]
fn c05_tie_break_converges() {
    let a = PeerId(kani::any());
    let b = PeerId(kani::any());
    kani::assume(a != b);
    // connection X is dialed by A (A: Outbound, B: Inbound); Y is dialed by B.
    let a_x_first: bool = kani::any();
    let b_x_first: bool = kani::any();
    let (ax, ay) = (ConnectionOrigin::Outbound, ConnectionOrigin::Inbound);
    let keep_x_at_a = if a_x_first { !tie(&a, &b, ax, ay) } else { tie(&a, &b, ay, ax) };
    let (bx, by) = (ConnectionOrigin::Inbound, ConnectionOrigin::Outbound);
    let keep_x_at_b = if b_x_first { !tie(&b, &a, bx, by) } else { tie(&b, &a, by, bx) };
    kani::cover!(keep_x_at_a, "X can win");
    kani::cover!(!keep_x_at_a, "Y can win");
    assert!(keep_x_at_a == keep_x_at_b, "both sides keep the same connection");
    assert!(keep_x_at_a == (a > b), "survivor is the connection dialed by the greater id");
}

/// C05/C04: two connections of the same direction: the newer one always replaces the older,
/// whatever the ids (a reconnect by the same dialer).
#[kani::proof]
#[kani::unwind(34)]
fn c05_same_direction_replaces() {
    let a = PeerId(kani::any());
    let b = PeerId(kani::any());
    let inbound: bool = kani::any();
    let o = if inbound { ConnectionOrigin::Inbound } else { ConnectionOrigin::Outbound };
    kani::cover!(inbound, "inbound pair");
    kani::cover!(!inbound, "outbound pair");
    assert!(tie(&a, &b, o, o));
}
