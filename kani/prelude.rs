// Shared helpers for the in-crate Kani harnesses (copied next to each harness file in the
// scratch overlay; never part of /repo).
#![allow(dead_code, unused_imports)]
extern crate alloc;
use std::future::Future;
use std::task::{Context, Poll, RawWaker, RawWakerVTable, Waker};

pub(crate) fn noop_waker() -> Waker {
    fn clone(_: *const ()) -> RawWaker {
        RawWaker::new(std::ptr::null(), &VT)
    }
    fn noop(_: *const ()) {}
    static VT: RawWakerVTable = RawWakerVTable::new(clone, noop, noop, noop);
    unsafe { Waker::from_raw(RawWaker::new(std::ptr::null(), &VT)) }
}

/// Drive a future once with a no-op waker; in-memory streams never return Pending.
pub(crate) fn poll_once<F: Future>(f: F) -> Option<F::Output> {
    let mut f = Box::pin(f);
    let w = noop_waker();
    let mut cx = Context::from_waker(&w);
    match f.as_mut().poll(&mut cx) {
        Poll::Ready(v) => Some(v),
        Poll::Pending => None,
    }
}

// ---- standing stubs (each is part of every claim that uses it; see DESIGN.md 1.2)
pub(crate) fn tr_interest(_c: &tracing::callsite::DefaultCallsite) -> tracing::subscriber::Interest {
    tracing::subscriber::Interest::never()
}
pub(crate) fn tr_enabled(_m: &'static tracing::Metadata<'static>, _i: tracing::subscriber::Interest) -> bool {
    false
}
pub(crate) fn tr_dispatch<'a>(_m: &'static tracing::Metadata<'static>, _f: &'a tracing::field::ValueSet<'_>)
where
    'a: 'a,
{
}
pub(crate) fn fmt_stub(_a: std::fmt::Arguments<'_>) -> String {
    String::new()
}
pub(crate) fn bt_disabled() -> std::backtrace::Backtrace {
    std::backtrace::Backtrace::disabled()
}
