// Kani harnesses over crate-visible API (child module of crates/anemo/src/lib.rs).
use crate::__verif_prelude::*;
use crate::types::response::StatusCode;
use crate::types::Version;
use crate::PeerId;

const CODES: [u16; 8] = [200, 400, 404, 408, 429, 500, 505, 520];

/// C07/C06: StatusCode::new accepts exactly the eight established codes and maps back.
#[kani::proof]
#[kani::unwind(10)]
fn c07_status_closed_set() {
    let c: u16 = kani::any();
    let mut known = false;
    let mut i = 0;
    while i < 8 {
        if CODES[i] == c {
            known = true;
        }
        i += 1;
    }
    let r = StatusCode::new(c);
    kani::cover!(known, "known code reachable");
    kani::cover!(!known, "unknown code reachable");
    assert!(r.is_ok() == known, "closed set of status codes");
    if let Ok(s) = r {
        assert!(s.to_u16() == c, "code round trips");
    }
}

/// C07: Version::new accepts exactly 1.
#[kani::proof]
#[kani::stub(std::backtrace::Backtrace::capture, bt_disabled)]
#[kani::stub(alloc::fmt::format, fmt_stub)]
fn c07_version_closed_set() {
    let v: u16 = kani::any();
    let r = Version::new(v);
    kani::cover!(v == 1, "v1 reachable");
    assert!(r.is_ok() == (v == 1), "closed set of versions");
    if let Ok(x) = &r {
        assert!(x.to_u16() == v);
    }
    std::mem::forget(r);
}

/// C11: the decimal-u64 grammar of the timeout header as parsed by `str::parse::<u64>`:
/// Ok(v) iff the text is `+?[0-9]+` with value <= u64::MAX; never panics.
fn parse_ref(raw: &[u8]) -> Option<u64> {
    let len = raw.len();
    if len == 0 {
        return None;
    }
    let mut acc: Option<u64> = Some(0);
    let mut j = 0;
    let mut digits = 0;
    while j < len {
        let c = raw[j];
        acc = match acc {
            Some(a) if c >= b'0' && c <= b'9' => {
                digits += 1;
                match a.checked_mul(10) {
                    Some(x) => x.checked_add((c - b'0') as u64),
                    None => None,
                }
            }
            Some(_) if j == 0 && c == b'+' && len > 1 => Some(0),
            _ => None,
        };
        j += 1;
    }
    if digits == 0 {
        None
    } else {
        acc
    }
}

fn parse_instance<const N: usize>() {
    let raw: [u8; N] = kani::any();
    let mut i = 0;
    while i < N {
        kani::assume(raw[i] < 0x80);
        i += 1;
    }
    let s = unsafe { std::str::from_utf8_unchecked(&raw) };
    let got = s.parse::<u64>().ok();
    let want = parse_ref(&raw);
    kani::cover!(got.is_some(), "a number parses");
    kani::cover!(got.is_none(), "garbage is rejected");
    assert!(got == want, "str::parse::<u64> == decimal grammar");
}

#[kani::proof]
#[kani::unwind(8)]
fn c11_parse_u64_len_0_to_4() {
    parse_instance::<1>();
    parse_instance::<2>();
    parse_instance::<3>();
    parse_instance::<4>();
    assert!("".parse::<u64>().is_err());
}

#[kani::proof]
#[kani::unwind(12)]
fn c11_parse_u64_len_5_to_8() {
    parse_instance::<5>();
    parse_instance::<6>();
    parse_instance::<7>();
    parse_instance::<8>();
}

/// the overflow boundary: u64::MAX = 18446744073709551615 has 20 digits.  All 20-character strings that share its first 16 digits
/// and end in four arbitrary decimal digits (10^4 strings on both sides of the boundary); the fully symbolic 20-digit instance does
/// not finish (25 min, symbolic x10 chain), so the prefix is concrete.
#[kani::proof]
#[kani::unwind(24)]
fn c11_parse_u64_overflow_boundary() {
    let mut raw: [u8; 20] = *b"18446744073709550000";
    let tail: [u8; 4] = kani::any();
    let mut i = 0;
    while i < 4 {
        kani::assume(tail[i] >= b'0' && tail[i] <= b'9');
        raw[16 + i] = tail[i];
        i += 1;
    }
    let s = unsafe { std::str::from_utf8_unchecked(&raw) };
    let got = s.parse::<u64>().ok();
    let want = parse_ref(&raw);
    kani::cover!(got.is_some(), "a number at most u64::MAX parses");
    kani::cover!(got.is_none(), "overflow is rejected");
    assert!(got == want, "str::parse::<u64> == decimal grammar");
}

/// C05: the derived `Ord` on PeerId is the lexicographic (big-endian unsigned) order on the
/// 32 bytes - the model used by the MIR-level checks (256-bit bvult).
#[kani::proof]
#[kani::unwind(34)]
fn c05_peer_id_order_is_lexicographic() {
    let a: [u8; 32] = kani::any();
    let b: [u8; 32] = kani::any();
    let mut i = 0;
    let mut lt = false;
    let mut decided = false;
    while i < 32 {
        if !decided && a[i] != b[i] {
            lt = a[i] < b[i];
            decided = true;
        }
        i += 1;
    }
    kani::cover!(decided && lt, "a < b reachable");
    kani::cover!(!decided, "equal reachable");
    assert!((PeerId(a) < PeerId(b)) == lt);
    assert!((PeerId(a) == PeerId(b)) == !decided);
}

/// C09: the contract of quinn's VarInt that mirsym's `transport_limits_saturate` relies on, checked on the real (vendored) quinn-proto code:
/// try_from(n) = Ok(n) iff n < 2^62; MAX = 2^62 - 1; Default = 0; the saturating idiom of QuicConfig::transport_config yields min(n, 2^62-1).
#[kani::proof]
fn c09_varint_contract() {
    use quinn::VarInt;
    let n: u64 = kani::any();
    let r = VarInt::try_from(n);
    kani::cover!(r.is_ok(), "representable value reachable");
    kani::cover!(r.is_err(), "out-of-range value reachable");
    assert!(r.is_ok() == (n < (1u64 << 62)), "try_from is Ok exactly below 2^62");
    if let Ok(v) = r {
        assert!(v.into_inner() == n, "Ok carries the value itself");
    }
    assert!(VarInt::MAX.into_inner() == (1u64 << 62) - 1, "MAX = 2^62 - 1");
    assert!(VarInt::default().into_inner() == 0, "Default = 0");
    let sat = VarInt::try_from(n).unwrap_or(VarInt::MAX).into_inner();
    let want = if n < (1u64 << 62) { n } else { (1u64 << 62) - 1 };
    assert!(sat == want, "saturating conversion = min(n, 2^62-1)");
}
