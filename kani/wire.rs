// Kani harnesses placed (by the scratch overlay) as a child module of
// crates/anemo/src/network/wire.rs: the real preamble reader/writer and the real codec
// returned by `network_message_frame_codec` are driven on in-memory buffers.
use super::*;
use crate::__verif_prelude::*;
use bytes::{Bytes, BytesMut};
use tokio_util::codec::{Decoder, Encoder};

const PREAMBLE: [u8; 8] = [b'a', b'n', b'e', b'm', b'o', 0, 1, 0];

/// C07/C06: among all 2^64 8-byte strings exactly the established preamble is accepted
/// (other magic, unknown version - including a non-zero high byte - and non-zero reserved
/// byte are rejected); the reader never panics and never stays pending on a complete buffer.
#[kani::proof]
#[kani::unwind(10)]
#[kani::stub(std::backtrace::Backtrace::capture, bt_disabled)]
#[kani::stub(alloc::fmt::format, fmt_stub)]
fn c07_preamble_decode_total() {
    let buf: [u8; 8] = kani::any();
    let mut rd: &[u8] = &buf;
    let r = poll_once(read_version_frame(&mut rd)).unwrap();
    let good = buf == PREAMBLE;
    kani::cover!(good, "valid preamble reachable");
    kani::cover!(!good, "invalid preamble reachable");
    assert!(r.is_ok() == good, "accepts exactly 'anemo' 00 01 00");
    if let Ok(v) = &r {
        assert!(v.to_u16() == 1);
    }
    std::mem::forget(r);
}

/// C07: every strict prefix (0..=7 bytes) of a preamble - valid or not - is an error.
#[kani::proof]
#[kani::unwind(10)]
#[kani::stub(std::backtrace::Backtrace::capture, bt_disabled)]
#[kani::stub(alloc::fmt::format, fmt_stub)]
fn c07_preamble_prefix_rejected() {
    let buf: [u8; 8] = kani::any();
    let len: usize = kani::any();
    kani::assume(len < 8);
    let mut rd: &[u8] = &buf[..len];
    let r = poll_once(read_version_frame(&mut rd)).unwrap();
    kani::cover!(len == 7, "7-byte prefix reachable");
    kani::cover!(len == 0, "empty input reachable");
    assert!(r.is_err(), "a truncated preamble is rejected");
    std::mem::forget(r);
}

/// C07: the writer emits exactly the established 8 bytes for V1.
#[kani::proof]
#[kani::unwind(10)]
#[kani::stub(std::backtrace::Backtrace::capture, bt_disabled)]
#[kani::stub(alloc::fmt::format, fmt_stub)]
fn c07_preamble_layout() {
    let mut out: Vec<u8> = Vec::new();
    let r = poll_once(write_version_frame(&mut out, Version::V1)).unwrap();
    assert!(r.is_ok());
    assert!(out.len() == 8, "preamble is 8 bytes");
    let mut i = 0;
    while i < 8 {
        assert!(out[i] == PREAMBLE[i], "preamble bytes");
        i += 1;
    }
    std::mem::forget(r);
}

fn codec_with(max: Option<usize>) -> tokio_util::codec::LengthDelimitedCodec {
    let mut cfg = crate::Config::default();
    cfg.max_frame_size = max;
    network_message_frame_codec(&cfg)
}

/// encode an N-byte body (symbolic content) with limit `max`; returns nothing, asserts layout
fn encode_instance<const N: usize>(max: Option<usize>) {
    let body: [u8; N] = kani::any();
    let mut codec = codec_with(max);
    let mut out = BytesMut::new();
    let r = codec.encode(Bytes::copy_from_slice(&body), &mut out);
    let limit = max.unwrap_or(usize::MAX);
    kani::cover!(r.is_ok(), "accepted");
    if N > limit {
        assert!(r.is_err(), "sender refuses a frame larger than the configured maximum");
    } else {
        assert!(r.is_ok(), "sender accepts a frame up to and including the maximum");
        assert!(out.len() == 4 + N, "4-byte prefix + body");
        let n = N as u32;
        assert!(out[0] == (n >> 24) as u8 && out[1] == (n >> 16) as u8 && out[2] == (n >> 8) as u8 && out[3] == n as u8,
            "big-endian length prefix");
        let mut i = 0;
        while i < N {
            assert!(out[4 + i] == body[i], "body bytes intact");
            i += 1;
        }
    }
    std::mem::forget(r);
    std::mem::forget(out);
}

/// decode a buffer holding exactly prefix(N) + N symbolic bytes with limit `max`
fn decode_instance<const N: usize>(max: Option<usize>) {
    let body: [u8; N] = kani::any();
    let mut codec = codec_with(max);
    let mut buf = BytesMut::new();
    let n = N as u32;
    buf.extend_from_slice(&[(n >> 24) as u8, (n >> 16) as u8, (n >> 8) as u8, n as u8]);
    buf.extend_from_slice(&body);
    let r = codec.decode(&mut buf);
    let limit = max.unwrap_or(usize::MAX);
    match &r {
        Ok(Some(f)) => {
            assert!(N <= limit, "receiver refuses a frame larger than the maximum");
            assert!(f.len() == N, "frame length");
            let mut i = 0;
            while i < N {
                assert!(f[i] == body[i], "frame bytes intact");
                i += 1;
            }
        }
        Ok(None) => assert!(false, "complete frame must be produced"),
        Err(_) => assert!(N > limit, "receiver accepts a frame up to and including the maximum"),
    }
    std::mem::forget(r);
    std::mem::forget(buf);
}

macro_rules! frame_harness {
    ($enc:ident, $dec:ident, $enc_lim:ident, $dec_lim:ident, $n:expr, $unw:expr) => {
        /// C07: layout of one frame, no limit interference (limit far above N)
        #[kani::proof]
        #[kani::unwind($unw)]
        #[kani::stub(std::backtrace::Backtrace::capture, bt_disabled)]
        #[kani::stub(alloc::fmt::format, fmt_stub)]
        fn $enc() {
            encode_instance::<$n>(Some(1 << 20));
        }
        #[kani::proof]
        #[kani::unwind($unw)]
        #[kani::stub(std::backtrace::Backtrace::capture, bt_disabled)]
        #[kani::stub(alloc::fmt::format, fmt_stub)]
        fn $dec() {
            decode_instance::<$n>(Some(1 << 20));
        }
        /// C15: exact boundary with a symbolic configured maximum
        #[kani::proof]
        #[kani::unwind($unw)]
        #[kani::stub(std::backtrace::Backtrace::capture, bt_disabled)]
        #[kani::stub(alloc::fmt::format, fmt_stub)]
        fn $enc_lim() {
            let m: usize = kani::any();
            encode_instance::<$n>(Some(m));
        }
        #[kani::proof]
        #[kani::unwind($unw)]
        #[kani::stub(std::backtrace::Backtrace::capture, bt_disabled)]
        #[kani::stub(alloc::fmt::format, fmt_stub)]
        fn $dec_lim() {
            let m: usize = kani::any();
            decode_instance::<$n>(Some(m));
        }
    };
}

frame_harness!(c07_frame_encode_0, c07_frame_decode_0, c15_encode_limit_0, c15_decode_limit_0, 0, 6);
frame_harness!(c07_frame_encode_1, c07_frame_decode_1, c15_encode_limit_1, c15_decode_limit_1, 1, 6);
frame_harness!(c07_frame_encode_2, c07_frame_decode_2, c15_encode_limit_2, c15_decode_limit_2, 2, 6);
frame_harness!(c07_frame_encode_3, c07_frame_decode_3, c15_encode_limit_3, c15_decode_limit_3, 3, 6);
frame_harness!(c07_frame_encode_4, c07_frame_decode_4, c15_encode_limit_4, c15_decode_limit_4, 4, 6);
frame_harness!(c07_frame_encode_5, c07_frame_decode_5, c15_encode_limit_5, c15_decode_limit_5, 5, 7);
frame_harness!(c07_frame_encode_8, c07_frame_decode_8, c15_encode_limit_8, c15_decode_limit_8, 8, 10);
frame_harness!(c07_frame_encode_16, c07_frame_decode_16, c15_encode_limit_16, c15_decode_limit_16, 16, 18);

/// C15/C06/C07: a declared length larger than what is buffered, for every 4-byte prefix and
/// every configured maximum: error iff the declared length exceeds the maximum, otherwise the
/// decoder waits; it never yields a frame and never panics.
#[kani::proof]
#[kani::unwind(6)]
#[kani::stub(std::backtrace::Backtrace::capture, bt_disabled)]
#[kani::stub(alloc::fmt::format, fmt_stub)]
fn c15_decode_head_with_limit() {
    let m: usize = kani::any();
    let mut codec = codec_with(Some(m));
    let hdr: [u8; 4] = kani::any();
    let n = u32::from_be_bytes(hdr) as usize;
    kani::assume(n > 64);
    let mut buf = BytesMut::new();
    buf.extend_from_slice(&hdr);
    let r = codec.decode(&mut buf);
    kani::cover!(r.is_err(), "refusal reachable");
    kani::cover!(matches!(r, Ok(None)), "waiting reachable");
    match &r {
        Ok(None) => assert!(n <= m, "declared length above the maximum must be refused on arrival"),
        Ok(Some(_)) => assert!(false, "no frame can be produced from a bare prefix"),
        Err(_) => assert!(n > m, "declared length within the maximum must not be refused"),
    }
    std::mem::forget(r);
    std::mem::forget(buf);
}

/// C15: with no maximum configured no size limit is imposed (as documented): no 4-byte
/// declared length is refused on arrival.
#[kani::proof]
#[kani::unwind(6)]
#[kani::stub(std::backtrace::Backtrace::capture, bt_disabled)]
#[kani::stub(alloc::fmt::format, fmt_stub)]
fn c15_decode_head_unlimited() {
    let mut codec = codec_with(None);
    let hdr: [u8; 4] = kani::any();
    let n = u32::from_be_bytes(hdr) as usize;
    kani::assume(n > 64);
    let mut buf = BytesMut::new();
    buf.extend_from_slice(&hdr);
    let r = codec.decode(&mut buf);
    kani::cover!(n > 8 * 1024 * 1024, "above 8 MiB reachable");
    assert!(matches!(r, Ok(None)), "no maximum configured: the receiver imposes no size limit");
    std::mem::forget(r);
    std::mem::forget(buf);
}

/// C15: unlimited sender: the configured `None` yields a codec whose encode-side maximum is
/// at least what a 4-byte length field can express.
#[kani::proof]
#[kani::stub(std::backtrace::Backtrace::capture, bt_disabled)]
#[kani::stub(alloc::fmt::format, fmt_stub)]
fn c15_unlimited_codec_max() {
    let codec = codec_with(None);
    assert!(codec.max_frame_length() >= u32::MAX as usize, "no maximum configured: sender limit is only the length field");
    let m: usize = kani::any();
    let c2 = codec_with(Some(m));
    // the builder clamps the limit to what the 4-byte length field can express
    assert!(c2.max_frame_length() == std::cmp::min(m, u32::MAX as usize), "configured maximum reaches the codec unchanged (up to the length-field range)");
    std::mem::forget(codec);
    std::mem::forget(c2);
}
