#!/usr/bin/env python3-vt
"""Driver: ./check <id> [--tier quick|thorough] [--replay <path>]
exit 0 = every obligation decided and held (known findings are printed, not failed);
exit 1 + 'VIOLATION property=<id> replay=<path>' = replayed counterexample not in known_findings.json;
exit 2 = inconclusive (timeout, OOM, unparsed MIR, vacuity witness unsatisfied, non-reproducing cex)."""
import argparse, importlib, os, sys, threading
sys.path.insert(0, os.path.dirname(os.path.abspath(__file__)))
sys.setrecursionlimit(1000000)
import common


def main():
    ap = argparse.ArgumentParser()
    ap.add_argument('prop')
    ap.add_argument('--tier', default=os.environ.get('VERIF_TIER', 'quick'), choices=['quick', 'thorough'])
    ap.add_argument('--replay')
    ap.add_argument('--only', help='comma separated obligation-name substrings (debugging)')
    a = ap.parse_args()
    prop = a.prop.upper()
    try:
        mod = importlib.import_module('props.' + prop)
    except ModuleNotFoundError as e:
        if e.name != 'props.' + prop:
            raise
        print(f'no check for property {prop} (see MANIFEST.json not_applicable)')
        return 2
    if a.replay:
        return mod.replay(a.replay)
    report = common.Report(prop, a.tier)
    only = a.only.split(',') if a.only else None
    os.environ['VERIF_TIER_EFFECTIVE'] = a.tier
    mod.check(report, a.tier, only)
    report.assumptions += [
        'bounded / modelled: every result holds for all values within the bounds listed per obligation and under the listed contract models; nothing is claimed outside them',
        'mirsym (E2) counterexamples are solver assignments over the current MIR written to replays/*.json; they are not re-executed natively (Kani counterexamples of C15 are: replay/wire_native.rs)',
        'the MIR/Kani encodings are regenerated from the current /repo working tree (cache key = sha256 of all source files)']
    import e2 as _e2
    report.extra['cvc5_differential'] = dict(_e2.DIFF_STATS)
    return report.finish()


if __name__ == '__main__':
    rc = [2]
    threading.stack_size(512 * 1024 * 1024)
    t = threading.Thread(target=lambda: rc.__setitem__(0, main()))
    t.start()
    t.join()
    sys.exit(rc[0])
