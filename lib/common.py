"""Shared plumbing for the anemo /verif checks: scratch overlay of /repo, caches,
evidence files, known findings, result accounting.

Nothing here decides a property; deciding is done by Kani/CBMC (lib/kani.py) or by the
MIR symbolic executor with z3/cvc5 (lib/mirsym)."""
import contextlib, fcntl, hashlib, json, os, shutil, subprocess, sys, time

VERIF = os.path.dirname(os.path.dirname(os.path.abspath(__file__)))
REPO = os.environ.get('ANEMO_REPO', '/repo')
CACHE = os.path.join(VERIF, '.cache')
SCRATCH_ROOT = os.environ.get('VERIF_SCRATCH', '/var/tmp/anemo-verif')
EVIDENCE_DIR = os.environ.get('VERIF_EVIDENCE_DIR') or os.path.join(VERIF, 'evidence')     # the matrix tools redirect it so that runs on patched trees do not overwrite the evidence of /repo
KNOWN_FINDINGS = os.path.join(VERIF, 'known_findings.json')
REPLAY_DIR = os.environ.get('VERIF_REPLAY_DIR') or os.path.join(VERIF, 'replays')

OFFLINE_ENV = {'CARGO_NET_OFFLINE': 'true'}


def log(*a):
    print(*a, file=sys.stderr, flush=True)


def seed():
    try:
        return int(os.environ.get('VERIF_SEED', '0'))
    except ValueError:
        return 0


# ------------------------------------------------------------------ source tree identity
SRC_GLOBS = ('crates', 'Cargo.toml', 'Cargo.lock')


def tracked_files():
    out = []
    for top in SRC_GLOBS:
        p = os.path.join(REPO, top)
        if os.path.isfile(p):
            out.append(top)
            continue
        for d, dirs, files in os.walk(p):
            dirs[:] = sorted(x for x in dirs if x not in ('target', '.git'))
            for f in sorted(files):
                out.append(os.path.relpath(os.path.join(d, f), REPO))
    return out


def tree_hash():
    """sha256 over (path, content) of every source file of /repo's *working tree*.
    Used as the key of the MIR / build caches, so a cached encoding is only ever used
    for byte-identical source."""
    h = hashlib.sha256()
    for rel in tracked_files():
        h.update(rel.encode() + b'\0')
        with open(os.path.join(REPO, rel), 'rb') as f:
            h.update(hashlib.sha256(f.read()).digest())
    return h.hexdigest()


# ------------------------------------------------------------------ scratch overlay
@contextlib.contextmanager
def locked(name):
    os.makedirs(CACHE, exist_ok=True)
    path = os.path.join(CACHE, name + '.lock')
    with open(path, 'w') as f:
        fcntl.flock(f, fcntl.LOCK_EX)
        try:
            yield
        finally:
            fcntl.flock(f, fcntl.LOCK_UN)


def sync_scratch(name):
    """Copy /repo's working tree (without target/ and .git/) to a fixed scratch
    directory outside /repo and /verif.  rsync --checksum leaves unchanged files (and their
    mtimes) alone so cargo's fingerprints stay valid between runs, and gives changed files the
    current time; files that vanished from /repo (or overlay files added by an earlier run)
    are deleted."""
    dst = os.path.join(SCRATCH_ROOT, name)
    os.makedirs(dst, exist_ok=True)
    # -rlpgoD = -a without -t: a file whose *content* changed is rewritten with the current time, so cargo's mtime-based
    # fingerprints can never take an older-dated restore of a file for "unchanged" (stale build-script output / rlibs)
    subprocess.run(['rsync', '-rlpgoD', '--delete', '--checksum', '--exclude', '/target', '--exclude', '.git',
                    REPO + '/', dst + '/'], check=True)
    return dst


def remove_scratch(name):
    shutil.rmtree(os.path.join(SCRATCH_ROOT, name), ignore_errors=True)


_LIVE = set()


def _reap(*_a):
    import signal
    for pid in list(_LIVE):
        try:
            os.killpg(pid, signal.SIGKILL)
        except OSError:
            pass
    _LIVE.clear()
    if _a:
        os._exit(143)


def _install_reaper():
    import atexit, signal, threading
    atexit.register(_reap)
    if threading.current_thread() is threading.main_thread():
        try:
            signal.signal(signal.SIGTERM, _reap)
        except (ValueError, OSError):
            pass


_install_reaper()


def run(cmd, cwd=None, env=None, timeout=None, mem_kb=None, stdout=subprocess.PIPE):
    e = dict(os.environ)
    e.update(OFFLINE_ENV)
    if env:
        e.update(env)
    pre = None
    if mem_kb:
        import resource

        def pre():
            resource.setrlimit(resource.RLIMIT_AS, (mem_kb * 1024, mem_kb * 1024))
    t0 = time.time()
    # own session: on timeout the whole process group goes (cargo-kani -> kani-driver -> cbmc would otherwise outlive the check)
    p = subprocess.Popen(cmd, cwd=cwd, env=e, stdout=stdout, stderr=subprocess.STDOUT, preexec_fn=pre, text=True, errors='replace',
                         start_new_session=True)
    _LIVE.add(p.pid)
    try:
        out, _ = p.communicate(timeout=timeout)
        _LIVE.discard(p.pid)
        return p.returncode, out or '', time.time() - t0
    except subprocess.TimeoutExpired:
        import signal
        try:
            os.killpg(p.pid, signal.SIGKILL)
        except OSError:
            pass
        try:
            out, _ = p.communicate(timeout=30)
        except Exception:
            out = ''
        return -9, (out or '') + '\n[timeout]', time.time() - t0
    except BaseException:
        import signal
        try:
            os.killpg(p.pid, signal.SIGKILL)
        except OSError:
            pass
        raise


# ------------------------------------------------------------------ known findings
def load_known_findings():
    if not os.path.exists(KNOWN_FINDINGS):
        return {'findings': [], 'fixed': []}
    with open(KNOWN_FINDINGS) as f:
        return json.load(f)


def known_finding_for(prop, key):
    """A violation is suppressed only if known_findings.json lists exactly this
    (property, key); `fixed` entries suppress nothing."""
    for k in load_known_findings().get('findings', []):
        if k.get('property') == prop and k.get('key') == key:
            return k
    return None


# ------------------------------------------------------------------ result accounting
class Obligation:
    """One solver-decided obligation (a Kani harness or a mirsym query)."""

    def __init__(self, name, engine, what, functions=(), bounds=None):
        self.name, self.engine, self.what = name, engine, what
        self.functions = list(functions)
        self.bounds = bounds or {}
        self.status = 'pending'      # held | violated | inconclusive | known
        self.detail = ''
        self.queries = 0
        self.paths = 0
        self.solver_s = 0.0
        self.wall_s = 0.0
        self.sample = None
        self.key = None              # identifies a violation for known_findings.json
        self.replay = None
        self.covers = {}
        self.claim = None            # obligations with the same claim decide the same statement by different engines

    def as_json(self):
        d = {'name': self.name, 'engine': self.engine, 'what': self.what, 'status': self.status,
             'functions': self.functions, 'bounds': self.bounds, 'queries': self.queries,
             'paths': self.paths, 'solver_s': round(self.solver_s, 3), 'wall_s': round(self.wall_s, 3)}
        if self.detail:
            d['detail'] = self.detail[:2000]
        if self.sample is not None:
            d['sample'] = self.sample
        if self.covers:
            d['covers'] = self.covers
        if self.key:
            d['key'] = self.key
        if self.replay:
            d['replay'] = self.replay
        return d


class Report:
    def __init__(self, prop, tier):
        self.prop, self.tier = prop, tier
        self.obls = []
        self.t0 = time.time()
        self.assumptions = []
        self.trusted = []
        self.outside = []
        self.extra = {}

    def add(self, o):
        self.obls.append(o)
        return o

    def finish(self):
        """Write evidence, print verdict lines, return the process exit code."""
        # an engine that cannot handle a construct (inconclusive) is superseded by a twin obligation of the
        # other engine that decided the same claim on the same source
        for o in self.obls:
            if o.status in ('inconclusive', 'pending') and o.claim:
                twins = [t for t in self.obls if t is not o and t.claim == o.claim and t.status in ('held', 'violated', 'known')]
                if twins:
                    o.detail = f'superseded by {twins[0].name} ({twins[0].status}); this engine: {o.detail}'[:600]
                    o.status = 'superseded'
        viol = [o for o in self.obls if o.status == 'violated']
        known = [o for o in self.obls if o.status == 'known']
        inc = [o for o in self.obls if o.status in ('inconclusive', 'pending')]
        held = [o for o in self.obls if o.status == 'held']
        wall = time.time() - self.t0
        samples = [{'obligation': o.name, 'engine': o.engine, 'what': o.what, 'case': o.sample}
                   for o in self.obls if o.sample is not None][:12]
        if not samples:
            samples = [{'obligation': o.name, 'what': o.what} for o in self.obls[:6]]
        paths = sum(o.paths for o in self.obls)
        queries = sum(o.queries for o in self.obls)
        cov = {
            # model_checking keys: states = feasible symbolic paths / harness instances explored,
            # transitions = solver queries discharged (each decides a set of concrete cases at once)
            'states': max(1, paths),
            'transitions': max(1, queries),
            'traces_validated_against_impl': int(self.extra.get('traces_validated_against_impl', 0)),
            'samples': samples,
            'obligations': len(self.obls),
            'discharged': len(held),
            'evaluations': max(1, queries),
            'distinct_nontrivial': max(0, len(held) + len(known)),
            'rule': 'one case = one solver-decided obligation (a Kani harness instance or a mirsym query over all '
                    'feasible MIR paths); distinct by obligation name; non-trivial = its vacuity witnesses '
                    '(kani::cover / path-reachability) were satisfied and the solver returned a definite verdict',
            'exhaustive': False,
            'obligation_results': [o.as_json() for o in self.obls],
            'functions_encoded': sorted({f for o in self.obls for f in o.functions}),
            'solver_s': round(sum(o.solver_s for o in self.obls), 3),
            'outside_the_claim': self.outside,
            'trusted_base': self.trusted,
        }
        cov.update({k: v for k, v in self.extra.items() if k not in cov})
        ev = {'property_id': self.prop, 'tier': self.tier, 'seed': seed(), 'level': 'model_checking',
              'coverage': cov, 'assumptions': self.assumptions, 'wall_s': round(wall, 3),
              'violations': len(viol)}
        os.makedirs(EVIDENCE_DIR, exist_ok=True)
        tmp = os.path.join(EVIDENCE_DIR, self.prop + '.json.tmp')
        with open(tmp, 'w') as f:
            json.dump(ev, f, indent=1, default=str)
        os.replace(tmp, os.path.join(EVIDENCE_DIR, self.prop + '.json'))
        for o in self.obls:
            print(f'[{self.prop}] {o.status.upper():12s} {o.name} ({o.engine}; paths={o.paths} queries={o.queries} '
                  f'solver={o.solver_s:.1f}s wall={o.wall_s:.1f}s) {o.detail[:300] if o.status != "held" else ""}')
        for o in known:
            print(f'KNOWN-FINDING: property={self.prop} {o.key}: {o.detail[:300]}')
        for o in viol:
            print(f'VIOLATION property={self.prop} replay={o.replay}')
        if viol:
            return 1
        if inc:
            print(f'INCONCLUSIVE property={self.prop}: ' + ', '.join(o.name for o in inc))
            return 2
        print(f'[{self.prop}] HELD on everything explored: {len(held)} obligations, {len(known)} known findings, '
              f'{paths} paths, {queries} queries, {wall:.1f}s')
        return 0
