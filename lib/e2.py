"""Engine E2 glue: find functions in the MIR, build executors, run obligations, z3/cvc5 queries."""
import os, re, subprocess, sys, time, json
import z3
from common import *
import mirdump
from mirsym import mir as M
from mirsym.sym import *
from mirsym import models as MD


class NotFound(Exception):
    pass


def find_fns(prog, name_re, arg0_re=None, sig_re=None):
    out = []
    rx = re.compile(name_re)
    for fs in prog.fns.values():
        f = fs[0]
        if not f.blocks:
            continue
        if not rx.search(f.name):
            continue
        if arg0_re is not None:
            t = f.decl.get(f.args[0], '') if f.args else ''
            if not re.search(arg0_re, t):
                continue
        if sig_re is not None and not re.search(sig_re, f.header):
            continue
        out.append(f)
    return out


def find_fn(prog, name_re, arg0_re=None, sig_re=None):
    fs = find_fns(prog, name_re, arg0_re, sig_re)
    m = re.fullmatch(r'(?:\^|\(\^\|::\))(\w+)\$', name_re)
    if not fs and m:
        # a free function turned into an associated function of some type (same name, unique in the crate): the same role
        alt = {f.raw: f for f in prog.by_last.get(m.group(1), []) if f.impl_span is not None and f.blocks and f.name.endswith('<impl>::' + m.group(1))
               and prog.impl_header(f.impl_span)[0] is None}
        if arg0_re is not None:
            alt = {k: f for k, f in alt.items() if f.args and re.search(arg0_re, f.decl.get(f.args[0], ''))}
        if len(alt) == 1:
            return next(iter(alt.values()))
    if len(fs) != 1:
        raise NotFound(f'{name_re} (arg0 ~ {arg0_re}): {len(fs)} candidates: ' + '; '.join(f.name for f in fs[:6]))
    return fs[0]


def find_method(prog, type_name, method, trait=None, file_re=None):
    """definition of `impl [Trait for] Type { fn method }` located through the impl header in the source"""
    out = []
    for f in prog.by_last.get(method, []):
        if f.impl_span is None or not f.name.endswith('<impl>::' + method):
            continue
        tr, st = prog.impl_header(f.impl_span)
        if st is None or M.type_head(st) != type_name:
            continue
        if (trait is None) != (tr is None):
            continue
        if trait is not None and M.type_head(tr) != trait:
            continue
        if file_re and not re.search(file_re, f.impl_span):
            continue
        out.append(f)
    seen, res = set(), []
    for f in out:
        if f.raw not in seen and f.blocks:
            seen.add(f.raw)
            res.append(f)
    if not res and trait is None:
        # an associated function turned into a free function of the crate (same name): the same role
        free = {f.raw: f for f in prog.by_last.get(method, []) if f.impl_span is None and f.blocks and re.fullmatch(r'(?:\w+::)*' + re.escape(method), f.name)
                and (not file_re or re.search(file_re, f.body_span or ''))}
        if len(free) == 1:
            return next(iter(free.values()))
    if len(res) != 1:
        raise NotFound(f'{type_name}::{method} ({trait}): {len(res)} candidates')
    return res[0]


def find_closure(prog, parent_fn, idx_path):
    """closure / coroutine body `parent::{closure#i}::{closure#j}`"""
    raw = parent_fn.raw + ''.join('::{closure#%d}' % i for i in idx_path)
    fs = prog.fns.get(raw)
    if not fs:
        raise NotFound(raw)
    return fs[0]


def methods_of(prog, type_name, trait=None):
    """all `impl [Trait for] Type` method definitions (by impl header), name -> Fn"""
    out = {}
    for raw, fs in prog.fns.items():
        for f in fs:
            if f.impl_span is None or not f.blocks or '{closure' in f.raw or not re.search(r'<impl>::\w+$', f.name):
                continue
            tr, st = prog.impl_header(f.impl_span)
            if st is None or M.type_head(st) != type_name or (trait is None) != (tr is None):
                continue
            if trait is not None and M.type_head(tr) != trait:
                continue
            out.setdefault(f.name.rsplit('::', 1)[-1], f)
    return out


def _callees(prog, f, depth=0, seen=None):
    """short names of everything called from f and from the closures/coroutines nested in it"""
    names = set()
    todo = [f] + [g for raw, fs in prog.fns.items() if raw.startswith(f.raw + '::{closure#') for g in fs]
    for g in todo:
        for blk in g.blocks.values():
            for st, _ in blk:
                if st and st[0] == 'call' and isinstance(st[2], str):
                    names.add(M.strip_generics(st[2]))
    return names


def find_role_method(prog, type_name, preferred, must_call_re, is_async=True, ret_re=None):
    """the method of `impl Type` playing a role: the pinned name if it still exists, otherwise the unique method that
    (transitively through methods of the same impl) reaches a call matching must_call_re and is not itself called by
    another such method of the impl (the outermost one doing that job)"""
    ms = methods_of(prog, type_name)
    for n in preferred:
        if n in ms:
            return ms[n]
    pat = re.compile(must_call_re)
    calls = {n: _callees(prog, f) for n, f in ms.items()}
    edges = {n: {m for m in ms if m != n and any(re.search(r'(^|::|>::)' + re.escape(m) + r'$', c) for c in cs)} for n, cs in calls.items()}

    def reaches(n, seen=()):
        if any(pat.search(c) for c in calls[n]):
            return True
        return any(reaches(m, seen + (n,)) for m in edges[n] if m not in seen)
    cands = [n for n in ms if reaches(n)]
    if is_async:
        cands = [n for n in cands if (ms[n].raw + '::{closure#0}') in prog.fns and re.search(r'async fn body|\{async', ms[n].ret)]
    if ret_re is not None:
        def rty(n):
            fs = prog.fns.get(ms[n].raw + '::{closure#0}') if is_async else None
            return fs[0].ret if fs else ms[n].ret
        cands = [n for n in cands if re.search(ret_re, rty(n))]
    roots = [n for n in cands if not any(n in edges[m] for m in cands if m != n)]
    if len(roots) != 1:
        raise NotFound(f'{type_name}: method reaching {must_call_re}: candidates {cands}, roots {roots}')
    return ms[roots[0]]


def local_callees(prog, f, depth=2, seen=None):
    """crate-local functions (transitively, `depth` levels) called from f or the closures nested in it"""
    seen = seen if seen is not None else {}
    if depth < 0:
        return seen
    for c in _callees(prog, f):
        last = c.rsplit('::', 1)[-1]
        if last.startswith('{') or '<' in last:
            continue
        for g in prog.by_last.get(last, []):
            if g.blocks and g.raw not in seen and '{closure' not in g.raw and (g.impl_span is None or re.search(r'(^|::)' + re.escape(g.name.split('::')[0]) + r'\b', c) or True):
                # free functions must match by path suffix; methods by `Type::name`
                segs = [x for x in c.split('::') if x and not x.startswith('<')]
                if g.impl_span is None and g.name.split('::')[-len(segs):] != segs[-len(g.name.split('::')):] and g.name.split('::')[-1:] != segs[-1:]:
                    continue
                seen[g.raw] = g
                local_callees(prog, g, depth - 1, seen)
    return seen


def find_closures_calling(prog, parent_fn, callee_re, transitive=False):
    """closure bodies nested (at any depth) in `parent_fn` - and, with transitive=True, in the crate-local functions it
    calls - whose MIR contains a call matching callee_re"""
    pat = re.compile(callee_re)
    out = []
    roots = [parent_fn] + (list(local_callees(prog, parent_fn).values()) if transitive else [])
    for raw, fs in prog.fns.items():
        if not any(raw.startswith(r.raw + '::{closure#') for r in roots):
            continue
        for f in fs:
            hit = False
            for blk in f.blocks.values():
                for st, _ in blk:
                    if st and st[0] == 'call' and isinstance(st[2], str) and pat.search(M.strip_generics(st[2])):
                        hit = True
            if hit:
                out.append(f)
    return out


def executor(crate, models=(), **kw):
    prog, enums = mirdump.program(crate)
    # 'role:<pinned helper name>' = whatever function plays that helper's role in the current tree (NotFound -> inconclusive obligation)
    models = [((role_fn(prog, p[5:], crate.split('@')[0])[1] if isinstance(p, str) and p.startswith('role:') else p), f) for p, f in models]
    ms = [(re.compile(p) if isinstance(p, str) else p, f) for p, f in models] + MD.GLOBAL_MODELS
    fixed = kw.pop('fixed_bounds', False)
    if not fixed:
        # slack for helper extraction: obligations state the inline depth that the pinned code needs; every run gets two more levels
        kw['max_depth'] = kw.get('max_depth', 2) + int(os.environ.get('VERIF_EXTRA_DEPTH', '2'))
    if os.environ.get('VERIF_TIER_EFFECTIVE') == 'thorough' and not fixed:
        # thorough tier: deeper inlining and one more loop unrolling than the quick tier (plus the cvc5 differential in solve())
        kw['max_depth'] = kw.get('max_depth', 2) + int(os.environ.get('VERIF_THOROUGH_DEPTH', '2'))
        kw['unroll'] = kw.get('unroll', 2) + int(os.environ.get('VERIF_THOROUGH_UNROLL', '1'))
    kw.pop('fixed_bounds', None)
    ex = Exec(prog, enums, ms, seed=seed(), **kw)
    return ex


def coroutine_start(ex, fn, upvars=None, name='gen'):
    """argument list [Pin<&mut coroutine>, &mut Context] for a coroutine body in its start state"""
    ty = fn.decl.get(fn.args[0], '')
    inner = re.sub(r'^Pin<&mut (.*)>$', r'\1', ty)
    g = Sym(name, inner).with_ov('discr', z3.BitVecVal(0, 32))
    for i, v in enumerate(upvars or []):
        if v is not None:
            g = g.with_ov(('f', i), v)
    p = Path()
    cell = ('H', name + '.cell', inner)
    p.mem[cell] = g
    return p, [Ptr(cell, (), True, inner), Sym('cx', 'Context')]


def events(res, kind=None, name_re=None):
    out = []
    for e in res.path.events:
        if kind and e.kind != kind:
            continue
        if name_re and not re.search(name_re, e.name if isinstance(e.name, str) else str(e.name)):
            continue
        out.append(e)
    return out


DIFF_STATS = {'queries': 0, 'agree': 0, 'cvc5_unknown_or_error': 0}


class SolverDisagreement(Exception):
    pass


def solve(constraints, timeout_ms=60000, want_model=True):
    """-> ('unsat'|'sat'|'unknown', model, seconds).  In the thorough tier every obligation-level query is
    also sent to cvc5 through its SMT-LIB front end; a definite disagreement aborts the obligation (inconclusive)."""
    s = z3.Solver()
    s.set('timeout', timeout_ms)
    if seed():
        s.set('random_seed', seed())
    s.add(constraints)
    t0 = time.time()
    r = s.check()
    dt = time.time() - t0
    if os.environ.get('VERIF_TIER_EFFECTIVE') == 'thorough' and str(r) in ('sat', 'unsat') and DIFF_STATS['queries'] < 400 \
            and DIFF_STATS.get('wall_s', 0.0) < float(os.environ.get('VERIF_CVC5_BUDGET_S', '300')):
        DIFF_STATS['queries'] += 1
        t1 = time.time()
        c = cvc5_check(constraints, 10)
        DIFF_STATS['wall_s'] = DIFF_STATS.get('wall_s', 0.0) + time.time() - t1
        if c in ('sat', 'unsat'):
            if c != str(r):
                raise SolverDisagreement(f'z3 says {r}, cvc5 says {c}')
            DIFF_STATS['agree'] += 1
        else:
            DIFF_STATS['cvc5_unknown_or_error'] += 1
    return str(r), (s.model() if r == z3.sat and want_model else None), dt


def cvc5_check(constraints, timeout_s=60):
    """differential: the same query through cvc5's SMT-LIB front end -> 'unsat'|'sat'|'unknown'|'error'"""
    s = z3.Solver()
    s.add(constraints)
    smt = '(set-logic ALL)\n' + s.to_smt2()
    try:
        pr = subprocess.run(['cvc5', '--lang', 'smt2', f'--tlimit={timeout_s * 1000}', '--strings-exp'], input=smt, text=True,
                            capture_output=True, timeout=timeout_s + 10)
    except subprocess.TimeoutExpired:
        return 'unknown'
    out = pr.stdout.strip().splitlines()
    if any('(error' in l for l in out) or not out:
        return 'error'
    return out[0].strip()


def model_dict(m, limit=40):
    if m is None:
        return {}
    out = {}
    for d in m.decls()[:limit]:
        try:
            out[d.name()] = str(m[d])[:200]
        except Exception:
            pass
    return out


def path_summary(res, maxev=12):
    evs = [repr(e)[:160] for e in res.path.events if e.kind in ('call', 'map', 'panic', 'poll', 'drop', 'diverge')]
    return {'tag': res.tag, 'pc': [str(z3.simplify(c))[:160] for c in res.path.pc][:12], 'events': evs[:maxev],
            'ret': vrepr(res.ret)[:160] if res.ret is not None else None}


class Obl:
    """helper to build one mirsym obligation with timing / accounting"""

    def __init__(self, report, name, what, functions, bounds=None):
        self.o = report.add(Obligation(name, 'mirsym+z3', what, functions, bounds or {}))
        self.t0 = time.time()
        self.report = report

    def done(self, ex_list, status, detail='', sample=None, key=None, paths=0, extra_queries=0, extra_solver=0.0, independent_of=None):
        o = self.o
        o.wall_s = time.time() - self.t0
        o.queries = sum(e.queries for e in ex_list) + extra_queries
        o.solver_s = sum(e.solver_s for e in ex_list) + extra_solver
        o.paths = paths
        # independent_of: regex of unresolved generic trait calls whose outcome the reported fact does not depend on (stated by the obligation)
        unres = sorted({u for e in ex_list for u in getattr(e, 'unresolved_local', ()) if not (independent_of and re.search(independent_of, u))})
        if status == 'violated' and unres:
            status, detail = 'inconclusive', (f'not decidable here: the paths run through {", ".join(unres[:3])} - trait methods of this crate called on a generic parameter, '
                                              f'whose instantiation this executor does not substitute (would-be finding: {detail})')
            key = None
        o.status, o.detail, o.sample, o.key = status, detail, sample, key
        return o


def guarded(report, name, what, functions, bounds, body):
    """run `body(obl)`; translate executor failures into an inconclusive obligation"""
    ob = Obl(report, name, what, functions, bounds)
    try:
        body(ob)
    except (Unmodelled, NotFound, M.Unparsed, SolverDisagreement) as e:
        ob.done([], 'inconclusive', f'{type(e).__name__}: {e}')
    except RecursionError as e:
        ob.done([], 'inconclusive', 'recursion limit')
    except Exception as e:
        import traceback
        traceback.print_exc(limit=6, file=sys.stderr)
        ob.done([], 'inconclusive', f'internal error in obligation: {type(e).__name__}: {str(e)[:300]}')
    if ob.o.status == 'pending':
        ob.done([], 'inconclusive', 'obligation body did not conclude')
    return ob.o


def write_replay(prop, name, payload):
    os.makedirs(REPLAY_DIR, exist_ok=True)
    p = os.path.join(REPLAY_DIR, f'{prop}-{name}.json')
    with open(p, 'w') as f:
        json.dump(payload, f, indent=1, default=str)
    return p


# ----------------------------------------------------------------------------- source-level struct layout (field name -> MIR field index)
ROLES_FILE = os.path.join(VERIF, 'lib', 'roles.json')
_roles = None


def norm_type(t):
    t = re.sub(r'\s+', '', t)
    t = re.sub(r',(?=>)', '', t)
    return re.sub(r'\b(?:\w+::)+', '', t)


def _split_top(body):
    out, depth, cur = [], 0, ''
    for ch in body:
        if ch in '<([{':
            depth += 1
        elif ch in '>)]}':
            depth -= 1
        if ch == ',' and depth == 0:
            out.append(cur)
            cur = ''
        else:
            cur += ch
    out.append(cur)
    return [x for x in out if x.strip()]


def _parse_struct(src, name):
    src = re.sub(r'//[^\n]*', '', src)
    mt = re.search(r'\bstruct\s+' + re.escape(name) + r'\b\s*(?:<[^(;{]*>)?\s*\(', src)
    m = re.search(r'\bstruct\s+' + re.escape(name) + r'\b[^{;(]*\{', src)
    if mt and (not m or mt.start() <= m.start()):
        # tuple struct: fields are named by their position
        i = mt.end()
        d, j = 1, i
        while j < len(src) and d:
            d += (src[j] == '(') - (src[j] == ')')
            j += 1
        aliases = {a: t for a, t in re.findall(r'^(?:pub(?:\([^)]*\))?\s+)?type\s+(\w+)\s*=\s*([^;]+);', src, re.M)}
        fields = []
        for n, f in enumerate(_split_top(re.sub(r'#\s*\[[^\]]*\]', '', src[i:j - 1]))):
            ty = re.sub(r'^\s*pub(\([^)]*\))?\s+', '', f.strip())
            ty = re.sub(r'\b(\w+)\b(?!\s*(?:::|<))', lambda m_: aliases.get(m_.group(1), m_.group(1)), ty)
            fields.append((str(n), norm_type(ty)))
        return fields
    if not m:
        return None
    i = m.end()
    d, j = 1, i
    while j < len(src) and d:
        if src[j] == '{':
            d += 1
        elif src[j] == '}':
            d -= 1
        j += 1
    body = src[i:j - 1]
    body = re.sub(r'#\s*\[[^\]]*\]', '', body)
    out = []
    depth = 0
    cur = ''
    for ch in body:
        if ch in '<([{':
            depth += 1
        elif ch in '>)]}':
            depth -= 1
        if ch == ',' and depth == 0:
            out.append(cur)
            cur = ''
        else:
            cur += ch
    out.append(cur)
    aliases = {a: t for a, t in re.findall(r'^(?:pub(?:\([^)]*\))?\s+)?type\s+(\w+)\s*=\s*([^;]+);', src, re.M)}      # top-level non-generic `type X = ...;` of the same file
    fields = []
    for f in out:
        mm = re.match(r'\s*(?:pub(?:\([^)]*\))?\s+)?(\w+)\s*:\s*(.*)', f, re.S)
        if mm:
            ty = mm.group(2)
            for _ in range(4):
                ty2 = re.sub(r'\b(\w+)\b(?!\s*(?:::|<))', lambda m_: aliases.get(m_.group(1), m_.group(1)), ty)
                if ty2 == ty:
                    break
                ty = ty2
            fields.append((mm.group(1), norm_type(ty)))
    return fields


class Fields(list):
    """field names of a struct in declaration (= MIR) order.  `index(name)` also resolves the *role* a name had
    at the pinned commit (lib/roles.json: struct -> name -> type): when a private field has been renamed, the one
    field of the current struct that has the role's type is taken, so renaming/reordering fields does not change
    what an obligation binds or reads."""

    def __init__(self, pairs, struct, relpath):
        super().__init__(n for n, _ in pairs)
        self.types = [t for _, t in pairs]
        self.struct, self.relpath = struct, relpath

    def _role(self, name):
        global _roles
        if _roles is None:
            try:
                _roles = json.load(open(ROLES_FILE))
            except OSError:
                _roles = {}
        ent = _roles.get(f'{self.relpath}::{self.struct}') or {}
        ty = ent.get(name)
        if ty is None:
            return None
        taken = set(ent) & set(self)            # fields that kept their pinned name keep their role
        hits = [i for i, t in enumerate(self.types) if t == ty and list.__getitem__(self, i) not in taken]
        return hits[0] if len(hits) == 1 else None

    def index(self, name, *a):
        if list.__contains__(self, name):
            return list.index(self, name)
        i = self._role(name)
        if i is None:
            raise NotFound(f'field {name} of {self.struct} ({self.relpath}): not present and no unique field of its pinned type')
        return i

    def __contains__(self, name):
        return list.__contains__(self, name) or self._role(name) is not None

    def by_type(self, pattern):
        hits = [i for i, t in enumerate(self.types) if re.search(pattern, t)]
        if len(hits) != 1:
            raise NotFound(f'field of type /{pattern}/ in {self.struct}: {len(hits)} candidates')
        return hits[0]


def struct_fields(relpath, name):
    cands = [relpath] + sorted(os.path.relpath(f, REPO) for f in
                               __import__('glob').glob(os.path.join(REPO, os.path.dirname(relpath), '**', '*.rs'), recursive=True))
    for rp in cands:
        try:
            src = open(os.path.join(REPO, rp), errors='replace').read()
        except OSError:
            continue
        import fnroles
        tren = fnroles.type_renames(REPO)
        if tren:
            src = fnroles.apply_type_renames(src, tren)
        pairs = _parse_struct(src, name)
        if pairs is not None:
            fs_ = Fields(pairs, name, relpath)
            fs_.found_in = rp           # the file that declares the struct today (it may have moved within the directory)
            return fs_
    raise NotFound(f'struct {name} in {relpath}')


def role_path(relpath, struct, role):
    """[(struct, field index), ..] leading to the field that plays `role` (a field name of the pinned `struct`): the field itself,
    or - after several fields were bundled into a nested struct of the same module - the field of that nested struct with
    the role's pinned type (same name preferred)"""
    fs = struct_fields(relpath, struct)
    global _roles
    if _roles is None:
        try:
            _roles = json.load(open(ROLES_FILE))
        except OSError:
            _roles = {}
    ty = (_roles.get(f'{relpath}::{struct}') or {}).get(role)
    if role in fs:
        i = fs.index(role)
        cur = fs.types[i]
        head = re.sub(r'<.*$', '', cur)
        if ty is not None and cur != ty and re.fullmatch(r'\w+', head) and head != struct:
            # the field kept its name but its value was wrapped in a struct of the module (newtype around the pinned type)
            try:
                nested = struct_fields(relpath, head)
                cands = [j for j, t in enumerate(nested.types) if t == ty]
                if len(cands) == 1:
                    return [(struct, i), (head, cands[0])]
            except NotFound:
                pass
        return [(struct, i)]
    if ty is None:
        raise NotFound(f'role {role} of {struct}: not a pinned field')
    for i, fty in enumerate(fs.types):
        head = re.sub(r'<.*$', '', fty)
        if not re.fullmatch(r'\w+', head) or head == struct:
            continue
        try:
            nested = struct_fields(relpath, head)
        except NotFound:
            continue
        cands = [j for j, t in enumerate(nested.types) if t == ty]
        named = [j for j in cands if list.__getitem__(nested, j) == role]
        pick = named[0] if named else (cands[0] if len(cands) == 1 else None)
        if pick is not None:
            return [(struct, i), (head, pick)]
    raise NotFound(f'field {role} of {struct} ({relpath}): not present, no unique field of its pinned type, not in a nested struct')


def struct_sym_deep(name, ty, relpath, struct, values):
    """like struct_sym, but a role may live inside a nested struct (role_path)"""
    nested = {}
    top = {}
    for role, v in values.items():
        path = role_path(relpath, struct, role)
        if len(path) == 1:
            top[path[0][1]] = v
        else:
            (_, i), (head, j) = path
            nested.setdefault((i, head), {})[j] = v
    s = Sym(name, ty)
    for i, v in top.items():
        s = s.with_ov(('f', i), v)
    for (i, head), sub in nested.items():
        inner = Sym(f'{name}.{i}', head)
        for j, v in sub.items():
            inner = inner.with_ov(('f', j), v)
        s = s.with_ov(('f', i), inner)
    return s


def read_role(ex, v, relpath, struct, role):
    for _, i in role_path(relpath, struct, role):
        v = ex.project(v, ('field', i, ''))
    return v


def struct_agg(relpath, name, bindings, prefix=None):
    """Agg of struct `name` in its current declaration order; each field takes the value of the first binding whose regex
    matches the field's (normalised) type, other fields are fresh symbols.  bindings: [(type_regex, value)]"""
    fs = struct_fields(relpath, name)
    vals, used = [], set()
    for fname, ty in zip(fs, fs.types):
        v = None
        for i, (pat, val) in enumerate(bindings):
            if i not in used and re.search(pat, ty):
                v = val
                used.add(i)
                break
        vals.append(v if v is not None else Sym(f'{prefix or name}.{fname}', ty))
    if len(used) != len(bindings):
        raise NotFound(f'struct {name}: no field for {[b[0] for i, b in enumerate(bindings) if i not in used]} among {fs.types}')
    return Agg(name, None, tuple(vals))


def struct_sym(name, ty, fields, values):
    """Sym of struct type `ty` whose named fields are bound to the given values"""
    s = Sym(name, ty)
    for fname, v in values.items():
        if fname not in fields:
            raise NotFound(f'field {fname} of {ty}')
        s = s.with_ov(('f', fields.index(fname)), v)
    return s


def z3vars(e, out=None, seen=None):
    """the uninterpreted constants of a z3 term"""
    out = [] if out is None else out
    seen = set() if seen is None else seen
    if not isinstance(e, z3.ExprRef) or e.get_id() in seen:
        return out
    seen.add(e.get_id())
    if z3.is_const(e) and e.decl().kind() == z3.Z3_OP_UNINTERPRETED:
        out.append(e)
    for c in e.children():
        z3vars(c, out, seen)
    return out


def upvar_base(ex, fn, i=0, name='gen'):
    """value-name prefix of upvar i of a coroutine/closure body started with coroutine_start: `gen.i.*` when the upvar is a reference
    (`&self`), `gen.i` when the value itself was moved in (`self`)"""
    t = (ex.upvar_types(fn).get(i) or '').strip()
    return f'{name}.{i}.*' if t.startswith('&') else f'{name}.{i}'


def bind_args(fn, relpath, fixed, bindings):
    """argument list for `fn`: `fixed` values first (self ...), then every further parameter takes the binding whose regex matches
    its type; a parameter whose type is a struct of the module bundling several of the bindings (a `DialRequest { address, peer_id,
    reply }` introduced for what used to be three parameters) is built field by field.  bindings: [(type_regex, value)]"""
    args = list(fixed)
    used = set()
    for a in fn.args[len(fixed):]:
        t = norm_type(fn.decl.get(a, ''))
        hit = [i for i, (pat, _) in enumerate(bindings) if i not in used and re.search(pat, t)]
        if hit:
            used.add(hit[0])
            args.append(bindings[hit[0]][1])
            continue
        head = re.match(r'&?(?:mut)?\s*(\w+)', t)
        try:
            fs = struct_fields(relpath, head.group(1)) if head else None
        except NotFound:
            fs = None
        if fs is None:
            raise NotFound(f'{fn.name}: parameter {a}: {t} matches none of {[b[0] for b in bindings]}')
        vals = []
        for fname, fty in zip(fs, fs.types):
            h = [i for i, (pat, _) in enumerate(bindings) if i not in used and re.search(pat, norm_type(fty))]
            if h:
                used.add(h[0])
                vals.append(bindings[h[0]][1])
            else:
                vals.append(Sym(f'{head.group(1)}.{fname}', fty))
        args.append(Agg(head.group(1), None, tuple(vals)))
    if len(used) != len(bindings):
        raise NotFound(f'{fn.name}: no parameter for {[b[0] for i, b in enumerate(bindings) if i not in used]}')
    return args


def flatten_args(vals, keep=()):
    """call arguments with plain struct aggregates (parameter bundles) replaced by their fields, in order (structs named in `keep` stay whole)"""
    out = []
    for v in vals:
        if isinstance(v, Agg) and v.variant is None and v.kind not in ('tuple', 'array') and v.name not in keep:
            out.extend(flatten_args(v.fields, keep))
        else:
            out.append(v)
    return out


def role_fn(prog, name, crate='anemo', scope_hint=None, required=True):
    """(Fn, call-site regex) of the function playing the pinned helper `name`'s role (see fnroles.locate); NotFound when the tree has none -
    an obligation whose oracle is phrased over that helper then is inconclusive, not violated"""
    import fnroles
    f = fnroles.locate(prog, crate, name, scope_hint)
    if f is None:
        if required:
            raise NotFound(f'no function plays the role of the pinned helper `{name}` (not under that name, not with its signature elsewhere in the crate)')
        return None, r'(^|::)' + re.escape(name) + '$'
    return f, fnroles.call_re(prog, f)



def require_methods(prog, *items):
    """the oracle of the calling obligation is phrased over these crate-private methods ((type, method) pairs): when the tree has no
    such method (the structure was dissolved / replaced by another interface) the obligation cannot be decided -> NotFound -> inconclusive"""
    for ty, meth in items:
        if meth not in methods_of(prog, ty):
            try:
                find_method(prog, ty, meth)
            except NotFound:
                raise NotFound(f'{ty}::{meth} does not exist in this tree: the obligation is phrased over it')


def peel(v):
    """the value inside single-field private newtypes (`ConnectionStableId(usize)` and the like): what an oracle compares is the wrapped value"""
    for _ in range(4):
        if isinstance(v, Agg) and v.variant is None and v.kind not in ('tuple', 'array') and len(v.fields) == 1:
            v = v.fields[0]
        else:
            break
    return v


def callers_closure(ex, target):
    """(set of raw names of crate functions from which `target` is reachable through crate-local calls, entry points among them = those no other
    crate function calls).  A closure / async block body counts as called by the function that contains it."""
    prog = ex.prog
    edges = {}          # callee raw -> set(caller raw)
    for raw, fs in prog.fns.items():
        for f in fs:
            if not f.blocks:
                continue
            m = re.match(r'^(.*)::\{closure#\d+\}$', raw)
            if m:
                edges.setdefault(raw, set()).add(m.group(1))
            for blk in f.blocks.values():
                for st, _ in blk:
                    if st and st[0] == 'call' and isinstance(st[2], str):
                        g = ex.resolve(st[2])
                        if g is not None and g.blocks:
                            edges.setdefault(g.raw, set()).add(raw)
    reach, todo = {target.raw}, [target.raw]
    while todo:
        x = todo.pop()
        for c in edges.get(x, ()):
            if c not in reach:
                reach.add(c)
                todo.append(c)
    entries = {r for r in reach if not (edges.get(r, set()) - {r})}
    return reach, entries


def snapshot(ex, p, v, depth=0):
    """value with every pointer (transitively, through aggregates) replaced by what it points to NOW: call arguments that refer to locals of the
    caller are unreadable once those locals are dead, so models that want to inspect them later take a snapshot at the call"""
    if depth > 6:
        return v
    if isinstance(v, Ptr):
        try:
            return snapshot(ex, p, ex.read_loc(p, None, v.key, v.projs), depth + 1)
        except Exception:
            return v
    if isinstance(v, Agg):
        return Agg(v.name, v.variant, tuple(snapshot(ex, p, f, depth + 1) for f in v.fields), v.kind, v.fnames)
    if isinstance(v, Sym) and isinstance(v.get_ov('items'), Agg):
        return v.with_ov('items', snapshot(ex, p, v.get_ov('items'), depth + 1))
    return v
