"""Recognise renamed crate-private functions by their signature and give them back the name they had at the pinned commit.

`lib/fnroles.json` (written by tools/gen_roles.py from the MIR of the pinned tree) records, per crate and scope
(inherent impl of a type / free functions of a source file), every function's signature fingerprint.  When a pinned name
is missing from a scope of the current tree and exactly one function of that scope that has no pinned name carries the
same fingerprint, the function was renamed: the MIR text is rewritten so that the function (its definition, its nested
closures/constants, every call and every type that mentions it) bears the pinned name again.  Oracles and harnesses can
then keep referring to `do_handle`, `read_version_frame`, `remove_with_stable_id` ... whatever they are called today.
Nothing but names changes; ambiguous cases are left alone (the obligation then reports NotFound = inconclusive)."""
import json, os, re
from mirsym import mir as M

FILE = os.path.join(os.path.dirname(os.path.abspath(__file__)), 'fnroles.json')


def _norm(t):
    t = re.sub(r"'\w+\s*", '', t or '')
    t = re.sub(r'\s+', '', t)
    return re.sub(r'\b(?:\w+::)+', '', t)


def scope_of(prog, f):
    if '{closure' in f.raw or '{impl#' in f.raw:
        return None
    if f.impl_span is not None:
        tr, st = prog.impl_header(f.impl_span)
        if st is None or tr is not None:
            return None                 # trait impls: method names are fixed by the trait
        if not re.search(r'<impl>::\w+$', f.name):
            return None
        return 'impl:' + (M.type_head(st) or '?') + '@' + f.impl_span.split(':')[0]
    if not re.fullmatch(r'[\w:]+', f.name) or not f.body_span:
        return None
    return 'file:' + f.body_span.split(':')[0]


def fingerprint(prog, f):
    last = f.name.rsplit('::', 1)[-1]
    ret = f.ret
    clo = prog.fns.get(f.raw + '::{closure#0}')
    if clo and ('async fn body' in (f.ret or '') or 'async block' in (f.ret or '')):
        ret = 'async->' + clo[0].ret
    args = [_norm(f.decl.get(a, '')) for a in f.args]
    s = '(' + ','.join(args) + ')->' + _norm(ret)
    return re.sub(r'\b' + re.escape(last) + r'\b', '@', s)


def table_of(prog):
    out = {}
    for fs in prog.fns.values():
        for f in fs:
            if not f.blocks:
                continue
            sc = scope_of(prog, f)
            if sc is None:
                continue
            out.setdefault(sc, {}).setdefault(f.name.rsplit('::', 1)[-1], fingerprint(prog, f))
    return out


def load_table():
    try:
        return json.load(open(FILE))
    except OSError:
        return {}


def renames(prog, crate):
    """[(scope, current name, pinned name, Fn)] for functions recognised as renamed"""
    pinned = load_table().get(crate) or {}
    cur = table_of(prog)
    out = []
    for sc, names in pinned.items():
        have = cur.get(sc, {})
        missing = [n for n in names if n not in have]
        extra = [n for n in have if n not in names]
        if not missing or not extra:
            continue
        for n in missing:
            cands = [e for e in extra if have[e] == names[n]]
            rivals = [m for m in missing if names[m] == names[n]]
            if len(cands) == 1 and len(rivals) == 1:
                f = next(g for fs in prog.fns.values() for g in fs if g.blocks and scope_of(prog, g) == sc and g.name.rsplit('::', 1)[-1] == cands[0])
                out.append((sc, cands[0], n, f))
    return out


_TY_ARGS = r'(?:::<(?:[^<>]|<(?:[^<>]|<[^<>]*>)*>)*>|<(?:[^<>]|<(?:[^<>]|<[^<>]*>)*>)*>)?'


def _skip_angle(text, i):
    """text[i] == '<': index just after the matching '>' ('->' and '=>' do not close)"""
    d = 0
    n = len(text)
    while i < n:
        c = text[i]
        if c == '<':
            d += 1
        elif c == '>' and text[i - 1] not in '-=':
            d -= 1
            if d == 0:
                return i + 1
        elif c == '\n':
            return -1
        i += 1
    return -1


def _rename_method_uses(text, ty, old, new):
    """`Ty::old`, `Ty::<args>::old`, `Ty<args>::old` -> ...::new (generic arguments may nest arbitrarily)"""
    out, pos = [], 0
    for m in re.finditer(r'\b' + re.escape(ty) + r'(?![\w])', text):
        i = m.end()
        if i < pos:
            continue
        j = i
        if text.startswith('::<', j):
            j = _skip_angle(text, j + 2)
        elif text.startswith('<', j):
            j = _skip_angle(text, j)
        if j < 0:
            continue
        if text.startswith('::' + old, j) and not re.match(r'\w', text[j + 2 + len(old):j + 3 + len(old)] or ' '):
            out.append(text[pos:j + 2])
            out.append(new)
            pos = j + 2 + len(old)
    out.append(text[pos:])
    return ''.join(out)


def rewrite(text, ren, prog):
    """apply the renames to the MIR text (names only)"""
    for sc, old, new, f in ren:
        o = re.escape(old)
        if sc.startswith('impl:'):
            tyname = sc[5:].split('@')[0]
            text = text.replace(f'<impl at {f.impl_span}>::{old}', f'<impl at {f.impl_span}>::{new}') if False else \
                re.sub(r'(<impl at ' + re.escape(f.impl_span) + r'>::)' + o + r'(?![\w])', r'\g<1>' + new, text)
            text = _rename_method_uses(text, tyname, old, new)
        else:
            path = sc[5:]
            mod = os.path.basename(os.path.dirname(path)) if path.endswith('/mod.rs') or path.endswith('/lib.rs') else os.path.basename(path)[:-3]
            m = re.escape(mod)
            # as the first segment of a path, or right after its module
            text = re.sub(r'(?<![\w:])' + o + r'(?![\w])(?=\(|::|<)', new, text)
            text = re.sub(r'(\b' + m + r'::)' + o + r'(?![\w])', r'\g<1>' + new, text)
    return text


def _fn_in(prog, sc, name):
    for fs in prog.fns.values():
        for g in fs:
            if g.blocks and g.name.rsplit('::', 1)[-1] == name and scope_of(prog, g) == sc:
                return g
    return None


def locate(prog, crate, name, scope_hint=None):
    """the function that plays the role the pinned `name` played: that very name in its pinned scope, else - the helper was moved to another
    module / turned into an associated function and renamed on the way - the only new function of the crate with the pinned signature.
    None when there is no such function."""
    pinned = load_table().get(crate) or {}
    homes = [(sc, names[name]) for sc, names in pinned.items() if name in names and (scope_hint is None or scope_hint in sc)]
    if len(homes) != 1:
        return None
    sc, fp = homes[0]
    f = _fn_in(prog, sc, name)
    if f is not None:
        return f
    cands, loose = [], []
    for fs in prog.fns.values():
        for g in fs:
            if not g.blocks:
                continue
            gsc = scope_of(prog, g)
            if gsc is None:
                continue
            last = g.name.rsplit('::', 1)[-1]
            if last in (pinned.get(gsc) or {}) and not (last == name and gsc != sc):
                continue                # a function that existed at the pinned commit keeps its own role
            gfp = fingerprint(prog, g)
            if gfp == fp:
                cands.append(g)
            elif _loose(gfp) == _loose(fp):
                loose.append(g)
    uniq = {g.raw: g for g in cands}
    if not uniq:
        # same parameters, same outer shape of the result (Result<_, E> / Option<_> / async): the payload got a named type
        uniq = {g.raw: g for g in loose}
    return next(iter(uniq.values())) if len(uniq) == 1 else None


def _loose(fp):
    args, _, ret = fp.rpartition(')->')
    m = re.match(r'((?:async->)?(?:Poll<)?(?:Result|Option)?)<?', ret)
    tail = re.search(r',(\w+)>+$', ret)
    return args + ')->' + (m.group(1) if m else '') + ('/' + tail.group(1) if tail and 'Result' in ret else '')


def call_re(prog, f):
    """regex matching the callee text of calls to `f`"""
    last = re.escape(f.name.rsplit('::', 1)[-1])
    if f.impl_span is not None:
        tr, st = prog.impl_header(f.impl_span)
        head = M.type_head(st) if st else None
        if head:
            return r'(^|::)' + re.escape(head) + r'(::<.*>)?::' + last + '$'
    return r'(^|::)' + last + '$'


# ----------------------------------------------------------------------------- renamed crate-private struct types
_type_ren = {}


def type_renames(repo):
    """{current name: pinned name} of structs that were renamed (and possibly moved): a struct recorded in lib/roles.json no longer
    exists under its pinned name anywhere in its crate, and exactly one struct of the crate that has no pinned name declares the
    same field types (as a multiset, the struct's own name abstracted).  The analysis then reads that struct under its pinned name."""
    if repo in _type_ren:
        return _type_ren[repo]
    import glob
    import e2
    out = {}
    try:
        pinned = json.load(open(e2.ROLES_FILE))
    except OSError:
        pinned = {}
    by_crate = {}
    for k, fields in pinned.items():
        rel, name = k.split('::', 1)
        m = re.match(r'(crates/[^/]+)/', rel)
        if m:
            by_crate.setdefault(m.group(1), {})[name] = fields
    for crate, structs in by_crate.items():
        srcs = {}
        for f in glob.glob(os.path.join(repo, crate, 'src', '**', '*.rs'), recursive=True):
            try:
                srcs[f] = re.sub(r'//[^\n]*', '', open(f, errors='replace').read())
            except OSError:
                pass
        have = {}
        for f, src in srcs.items():
            for n in re.findall(r'\bstruct\s+(\w+)', src):
                have.setdefault(n, f)
        missing = [n for n in structs if n not in have]
        extra = [n for n in have if n not in structs]
        if not missing or not extra:
            continue

        def sig(name, types):
            return sorted(re.sub(r'\b' + re.escape(name) + r'\b', '@', t) for t in types)
        cur = {}
        for n in extra:
            pairs = e2._parse_struct(srcs[have[n]], n)
            if pairs:
                cur[n] = sig(n, [t for _, t in pairs])
        for n in missing:
            want = sig(n, list(structs[n].values()))
            if not want:
                continue
            cands = [c for c, sg in cur.items() if sg == want]
            rivals = [m_ for m_ in missing if sig(m_, list(structs[m_].values())) == want]
            if len(cands) == 1 and len(rivals) == 1:
                out[cands[0]] = n
    _type_ren[repo] = out
    return out


def apply_type_renames(text, ren):
    for cur, pinned in ren.items():
        text = re.sub(r'\b' + re.escape(cur) + r'\b', pinned, text)
    return text
