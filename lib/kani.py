"""Engine E1: Kani/CBMC harnesses over the compiled code of a scratch overlay of /repo.

The overlay adds `#[cfg(kani)] #[path=..] mod __verif_<site>;` lines to the *scratch copy*
only; harness sources live in /verif/kani.  Each harness is one obligation: CBMC (CaDiCaL)
decides it for every value of its kani::any() inputs within the harness's unwind bound;
unwinding assertions stay on, kani::cover! witnesses guard against vacuity."""
import concurrent.futures, os, re, shutil, subprocess, time
from common import *

KANI_TARGET = os.environ.get('VERIF_KANI_TARGET') or os.path.join(CACHE, 'kani-target')

# site name -> (crate dir, source file the module line is appended to, harness source in /verif/kani)
SITES = {
    'cm': ('crates/anemo', 'src/network/connection_manager.rs', 'cm.rs', 'network::connection_manager::__verif_cm'),
    'wire': ('crates/anemo', 'src/network/wire.rs', 'wire.rs', 'network::wire::__verif_wire'),
    'root': ('crates/anemo', 'src/lib.rs', 'root.rs', '__verif_root'),
    'backoff': ('crates/anemo', 'src/network/connection_manager.rs', 'backoff.rs', 'network::connection_manager::__verif_backoff'),
}
# what a site's harnesses are about: when the default file no longer declares it, the module is attached to the one file of the crate that does
SITE_SUBJECT = {
    'cm': r'fn\s+\w+\s*\(\s*\w+\s*:\s*&PeerId\s*,\s*\w+\s*:\s*&PeerId\s*,\s*\w+\s*:\s*ConnectionOrigin\s*,\s*\w+\s*:\s*ConnectionOrigin\s*,?\s*\)\s*->\s*bool',
    'backoff': r'\bstruct\s+DialBackoffState\b',
}
_site_now = {}


def resolve_site(scratch, s):
    """(source file relative to the crate dir, module path of the harness module) for site s in this tree"""
    import glob
    cdir, src, hfile, mod = SITES[s]
    subj = SITE_SUBJECT.get(s)
    try:
        import fnroles
        tren = {pinned: cur for cur, pinned in fnroles.type_renames(REPO).items()}
    except Exception:
        tren = {}
    if subj and 'DialBackoffState' in subj and 'DialBackoffState' in tren:
        subj = subj.replace('DialBackoffState', tren['DialBackoffState'])
    base = os.path.join(scratch, cdir)
    if not subj or re.search(subj, re.sub(r'//[^\n]*', '', open(os.path.join(base, src), errors='replace').read())):
        return src, mod
    hits = []
    for f in glob.glob(os.path.join(base, 'src', '**', '*.rs'), recursive=True):
        if os.path.basename(f).startswith('__verif_'):
            continue
        if re.search(subj, re.sub(r'//[^\n]*', '', open(f, errors='replace').read())):
            hits.append(os.path.relpath(f, base))
    if len(hits) != 1:
        return src, mod
    rel = hits[0][len('src/'):-3].split(os.sep)
    if rel[-1] in ('mod', 'lib'):
        rel = rel[:-1]
    return hits[0], '::'.join(rel + [f'__verif_{s}'])


# private items the harnesses name, with the signature by which each is recognised after a rename (pinned name first)
ROLE_FNS = {
    'cm': [('simultaneous_dial_tie_breaking', r'fn\s+(\w+)\s*\(\s*\w+\s*:\s*&PeerId\s*,\s*\w+\s*:\s*&PeerId\s*,\s*\w+\s*:\s*ConnectionOrigin\s*,\s*\w+\s*:\s*ConnectionOrigin\s*,?\s*\)\s*->\s*bool')],
    'backoff': [('update', r'fn\s+(\w+)\s*\(\s*&mut self\s*,\s*\w+\s*:\s*(?:std::time::)?Instant\s*,\s*\w+\s*:\s*(?:std::time::)?Duration\s*,\s*\w+\s*:\s*(?:std::time::)?Duration\s*,?\s*\)'),
           ('new', r'fn\s+(\w+)\s*\(\s*\w+\s*:\s*(?:std::time::)?Instant\s*,\s*\w+\s*:\s*(?:std::time::)?Duration\s*,\s*\w+\s*:\s*(?:std::time::)?Duration\s*,?\s*\)\s*->\s*Self')],
    'wire': [('read_version_frame', r'async fn\s+(\w+)\s*<\s*\w+\s*:\s*AsyncRead \+ Unpin\s*>\s*\(\s*\w+\s*:\s*&mut \w+\s*,?\s*\)\s*->\s*Result<Version>'),
             ('write_version_frame', r'async fn\s+(\w+)\s*<\s*\w+\s*:\s*AsyncWrite \+ Unpin\s*>\s*\(\s*\w+\s*:\s*&mut \w+\s*,\s*\w+\s*:\s*Version\s*,?\s*\)\s*->\s*Result<\(\)>'),
             ('network_message_frame_codec', r'fn\s+(\w+)\s*\(\s*\w+\s*:\s*&Config\s*\)\s*->\s*LengthDelimitedCodec')],
}
ROLE_FIELDS = {'backoff': [('DialBackoffState', 'backoff', r'Instant$'), ('DialBackoffState', 'attempts', r'^usize$')]}


def _codec_builder_call(crate_src):
    """Rust expression building the crate's frame codec from `cfg: Config` / `max: Option<usize>` when the helper is no longer
    `network_message_frame_codec(&Config)` in wire.rs: the one crate function returning a LengthDelimitedCodec from a `&Config` or an
    `Option<usize>` (moved and/or renamed), addressed by its module path"""
    import glob
    hits = []
    for f in glob.glob(os.path.join(crate_src, '**', '*.rs'), recursive=True):
        if os.path.basename(f).startswith('__verif_'):
            continue
        plain = re.sub(r'//[^\n]*', '', open(f, errors='replace').read())
        for m in re.finditer(r'^([ \t]*)(pub(?:\([^)]*\))?\s+)?fn\s+(\w+)\s*\(\s*\w+\s*:\s*(Option<usize>|&\s*(?:crate::)?Config)\s*,?\s*\)\s*->\s*(?:[\w:]+::)?LengthDelimitedCodec', plain, re.M):
            if m.group(1):          # indented: a method / nested item, not a free function of the module
                continue
            rel = os.path.relpath(f, crate_src)[:-3].split(os.sep)
            if rel[-1] in ('mod', 'lib'):
                rel = rel[:-1]
            hits.append(('crate::' + '::'.join(rel + [m.group(3)]), m.group(4)))
    if len(hits) != 1:
        return None
    path, ty = hits[0]
    return f'{path}(max)' if ty.startswith('Option') else f'{path}(&cfg)'


def adapt_harness(site, text, src, crate_src=None):
    """rename, in the harness text, private functions/fields of the pinned commit to what the current source calls them
    (recognised by signature / field type).  Only exact identifier occurrences are replaced; nothing else changes."""
    plain = re.sub(r'//[^\n]*', '', src)
    notes = []
    try:
        import fnroles
        for cur, pinned in fnroles.type_renames(REPO).items():
            if re.search(r'\b' + re.escape(pinned) + r'\b', text):
                text = re.sub(r'\b' + re.escape(pinned) + r'\b', cur, text)
                notes.append(f'type {pinned} -> {cur}')
    except Exception:
        pass
    if site == 'wire' and crate_src and not re.search(ROLE_FNS['wire'][2][1], plain):
        expr = _codec_builder_call(crate_src)
        if expr and 'network_message_frame_codec(&cfg)' in text:
            text = text.replace('network_message_frame_codec(&cfg)', expr)
            notes.append(f'network_message_frame_codec(&cfg) -> {expr}')
    if site == 'cm':
        m = re.search(r'^([ \t]*)(?:pub(?:\([^)]*\))?\s+)?' + ROLE_FNS['cm'][0][1], plain, re.M)
        if m and not m.group(1):
            # the tie break is a free function of the module now, not an associated function of the peer table
            text = re.sub(r'\b\w+::simultaneous_dial_tie_breaking\(', m.group(2) + '(', text)
            notes.append(f'associated fn -> free fn {m.group(2)}')
    if site == 'backoff':
        # `attempts: usize` wrapped in a private tuple newtype of the module: go through `.0` / the constructor
        m = re.search(r'\bstruct\s+DialBackoffState\s*\{(.*?)\n\}', plain, re.S)
        fm = re.search(r'\battempts\s*:\s*(\w+)\s*,', m.group(1)) if m else None
        if fm and fm.group(1) != 'usize' and re.search(r'\bstruct\s+' + fm.group(1) + r'\s*\(\s*(?:pub(?:\([^)]*\))?\s+)?usize\s*\)\s*;', plain):
            nt = fm.group(1)
            text = re.sub(r'(DialBackoffState\s*\{[^{}]*?)\battempts(\s*[,}])', lambda mm: mm.group(1) + f'attempts: {nt}(attempts)' + mm.group(2), text)
            text = re.sub(r'(?<=\.)attempts\b(?!\s*\()', 'attempts.0', text)
            notes.append(f'attempts: usize -> {nt}(usize)')
    for pinned, sig in ROLE_FNS.get(site, []):
        if re.search(r'\bfn\s+' + re.escape(pinned) + r'\b', plain):
            continue
        names = sorted(set(re.findall(sig, plain)))
        if len(names) == 1:
            text = re.sub(r'(?<![\w])' + re.escape(pinned) + r'\s*\(', names[0] + '(', text) if pinned in ('update', 'new') else re.sub(r'\b' + re.escape(pinned) + r'\b', names[0], text)
            notes.append(f'{pinned} -> {names[0]}')
    for struct, fld, ty in ROLE_FIELDS.get(site, []):
        m = re.search(r'\bstruct\s+' + struct + r'\s*\{(.*?)\n\}', plain, re.S)
        if not m:
            continue
        fields = re.findall(r'(\w+)\s*:\s*([^,\n]+)', m.group(1))
        if any(n == fld for n, _ in fields):
            continue
        cands = [n for n, t in fields if re.search(ty, t.strip().rstrip(','))]
        if len(cands) == 1:
            text = re.sub(r'(?<=\.)' + fld + r'\b', cands[0], text)                                     # field access
            text = re.sub(r'(' + struct + r'\s*\{(?:[^{}]*?,)?\s*)' + fld + r'(\s*:)', lambda mm: mm.group(1) + cands[0] + mm.group(2), text)   # `S { fld: v }`
            text = re.sub(r'(' + struct + r'\s*\{(?:[^{}]*?,)?\s*)' + fld + r'(\s*[,}])', lambda mm: mm.group(1) + f'{cands[0]}: {fld}' + mm.group(2), text)   # shorthand `S { fld }`
            notes.append(f'{struct}.{fld} -> {cands[0]}')
    return text, notes


def overlay(scratch, sites):
    """add-only edit of the scratch copy: harness modules + prelude"""
    crate = os.path.join(scratch, 'crates/anemo')
    shutil.copy(os.path.join(VERIF, 'kani/prelude.rs'), os.path.join(crate, 'src/__verif_prelude.rs'))
    with open(os.path.join(crate, 'src/lib.rs'), 'a') as f:
        f.write('\n#[cfg(kani)] #[path = "__verif_prelude.rs"] pub(crate) mod __verif_prelude;\n')
    for s in sites:
        cdir, _src, hfile, _mod = SITES[s]
        src, modpath = resolve_site(scratch, s)
        _site_now[s] = modpath
        if src != _src:
            log(f'[kani] site {s}: its subject moved, harness module attached to {src}')
        srcpath = os.path.join(scratch, cdir, src)
        d = os.path.dirname(srcpath)
        text, notes = adapt_harness(s, open(os.path.join(VERIF, 'kani', hfile)).read(), open(srcpath, errors='replace').read(), os.path.join(scratch, cdir, 'src'))
        with open(os.path.join(d, f'__verif_{s}.rs'), 'w') as f:
            f.write(text)
        if notes:
            log(f'[kani] harness {hfile} adapted to renamed private items: ' + ', '.join(notes))
        with open(srcpath, 'a') as f:
            f.write(f'\n#[cfg(kani)] #[path = "__verif_{s}.rs"] mod __verif_{s};\n')


def parse_kani_output(out):
    """-> dict(status, failed_checks, covers, unwind_failed, solver_s, detail)"""
    r = {'status': 'inconclusive', 'failed': [], 'covers': {}, 'solver_s': 0.0, 'detail': ''}
    m = re.search(r'Runtime decision procedure: ([0-9.]+)s', out)
    if m:
        r['solver_s'] = float(m.group(1))
    m = re.search(r'Verification Time: ([0-9.]+)s', out)
    if m:
        r['verif_s'] = float(m.group(1))
    # per-check results (regular output format)
    for m in re.finditer(r'Check \d+: (\S+)\n\s+- Status: (\w+)\n\s+- Description: "(.*?)"\n\s+- Location: (.*)', out):
        name, st, desc, loc = m.groups()
        if '.cover.' in name:
            r['covers'][desc] = st
        elif st == 'FAILURE':
            r['failed'].append({'check': name, 'desc': desc, 'loc': loc.strip()})
        elif st not in ('SUCCESS', 'UNREACHABLE', 'SATISFIED', 'UNSATISFIABLE'):
            r['failed'].append({'check': name, 'desc': desc, 'loc': loc.strip(), 'status': st})
    if 'VERIFICATION:- SUCCESSFUL' in out:
        r['status'] = 'held'
    elif 'VERIFICATION:- FAILED' in out:
        real = [f for f in r['failed'] if f.get('status') is None]
        unwind = [f for f in real if 'unwinding assertion' in f['desc']]
        other = [f for f in real if 'unwinding assertion' not in f['desc']]
        if 'Status: ERROR' in out or not real:
            r['status'] = 'inconclusive'
            r['detail'] = 'CBMC reported an error / out of memory (no failed check)'
        elif other:
            r['status'] = 'violated'
            r['detail'] = '; '.join(f"{f['desc']} @ {f['loc']}" for f in other[:4])
        else:
            r['status'] = 'inconclusive'
            r['detail'] = 'unwinding assertion failed: bound too small for this source (' + unwind[0]['loc'] + ')'
    else:
        tail = out.strip().splitlines()[-15:]
        r['detail'] = 'no verdict: ' + ' | '.join(tail)[-1500:]
    bad_covers = [d for d, st in r['covers'].items() if st not in ('SATISFIED',)]
    if r['status'] == 'held' and bad_covers:
        r['status'] = 'inconclusive'
        r['detail'] = 'vacuity witness not satisfied: ' + '; '.join(bad_covers)
    return r


class KaniJob:
    def __init__(self, site, harness, what, functions, bounds, timeout_s=900, mem_gb=12, expect_key=None,
                 stubbing=True, claim=None):
        self.claim = claim
        self.site, self.harness, self.what, self.functions, self.bounds = site, harness, what, functions, bounds
        self.full = SITES[site][3] + '::' + harness
        self.timeout_s, self.mem_gb = timeout_s, mem_gb
        self.stubbing = stubbing


def build_and_run(prop, sites, jobs, report, replay_fn=None, parallel=8):
    """Overlay, compile once (first harness run holds the cargo lock), run harnesses in
    parallel, convert results to obligations on `report`."""
    if os.environ.get('VERIF_DEV_NO_KANI'):
        return None          # development aid only (never set by the registered commands)
    name = f'kani-{prop}'
    # one scratch copy per property: serialised, unless this process was given a scratch root of its own (parallel development runs)
    # One lock per Kani target directory, not per property: cargo names the build products of a workspace member after its path *relative to the workspace
    # root*, so the scratch copies of two properties (kani-C06, kani-C07) compile "the same unit" into the same files of the shared target directory;
    # two checks started at the same time would overwrite each other's harness binaries between build and CBMC runs.  (Parallel development runs bring
    # their own scratch root and target directory, hence their own lock.)
    lockname = 'kani-target' + ('-' + re.sub(r'\W+', '_', os.environ['VERIF_SCRATCH']) if os.environ.get('VERIF_SCRATCH') else '')
    with locked(lockname):
        scratch = sync_scratch(name)
        overlay(scratch, sites)
        crate = os.path.join(scratch, 'crates/anemo')
        os.makedirs(KANI_TARGET, exist_ok=True)
        env = {'RUSTFLAGS': '', 'CARGO_TARGET_DIR': ''}

        for job in jobs:
            job.full = _site_now.get(job.site, SITES[job.site][3]) + '::' + job.harness

        def one(job):
            cmd = ['cargo', 'kani', '--target-dir', KANI_TARGET, '--harness', job.full, '--exact']
            if job.stubbing:
                cmd += ['-Z', 'stubbing']
            rc, out, wall = run(cmd, cwd=crate, timeout=job.timeout_s, mem_kb=None)
            return job, rc, out, wall

        results = []
        # first job alone (compiles the crate), the rest in parallel
        if jobs:
            results.append(one(jobs[0]))
            with concurrent.futures.ThreadPoolExecutor(max_workers=parallel) as ex:
                results += list(ex.map(one, jobs[1:]))
        for job, rc, out, wall in results:
            o = report.add(Obligation(job.harness, 'kani', job.what, job.functions, job.bounds))
            o.wall_s = wall
            o.claim = job.claim
            o.queries = 1
            o.paths = 1
            if rc == -9:
                o.status, o.detail = 'inconclusive', f'timeout after {job.timeout_s}s'
                continue
            r = parse_kani_output(out)
            o.solver_s = r['solver_s']
            o.covers = r['covers']
            o.status, o.detail = r['status'], r['detail']
            if r['status'] == 'inconclusive' and ('error: ' in out or 'error[' in out):
                errs = [l for l in out.splitlines() if l.startswith('error')]
                o.detail = (o.detail + ' | compile: ' + ' | '.join(errs[:5]))[:1500]
            o.sample = {'harness': job.harness, 'inputs': job.bounds.get('inputs', 'kani::any()'),
                        'covers': r['covers']}
            o._raw = out
            if r['status'] == 'violated':
                if replay_fn:
                    replay_fn(o, job, scratch, out)
                else:
                    # harness-level counterexample without native replay: keep the CBMC report
                    os.makedirs(REPLAY_DIR, exist_ok=True)
                    p = os.path.join(REPLAY_DIR, f'{prop}-{job.harness}.kani.txt')
                    with open(p, 'w') as f:
                        f.write(out)
                    o.replay = p
        return scratch


# ----------------------------------------------------------------------------- native replay (cfg(test) overlay)
REPLAY_SITES = {
    # site: (crate dir, package, source file the test module is appended to, test file under /verif/replay, module path of that file)
    'wire': ('crates/anemo', 'anemo', 'src/network/wire.rs', 'wire_native.rs', 'network::wire'),
    'cm': ('crates/anemo', 'anemo', 'src/network/connection_manager.rs', 'cm_native.rs', 'network::connection_manager'),
    'auth': ('crates/anemo-tower', 'anemo-tower', 'src/auth/mod.rs', 'auth_native.rs', 'auth'),
    'timeout': ('crates/anemo', 'anemo', 'src/middleware/timeout/mod.rs', 'timeout_native.rs', 'middleware::timeout'),
}


def native_replay(prop, site, test_names, env=None, timeout=1500):
    """run native #[test]s from /verif/replay against a scratch copy of /repo's working tree (dev profile).
    -> {test: 'pass'|'fail'|'error'}, log.  A solver counterexample is reported as a violation only if the test that
    re-runs it on the real build FAILS (the real code really breaks the specification on that input)."""
    name = f'replay-{prop}'
    with locked(name):
        scratch = sync_scratch(name)
        cdir, pkg, src, f, modpath = REPLAY_SITES[site]
        srcpath = os.path.join(scratch, cdir, src)
        text, notes = adapt_harness(site, open(os.path.join(VERIF, 'replay', f)).read(), open(srcpath, errors='replace').read())
        with open(os.path.join(os.path.dirname(srcpath), f'__verif_replay_{site}.rs'), 'w') as fh:
            fh.write(text)
        with open(srcpath, 'a') as fh:
            fh.write(f'\n#[cfg(test)] #[path = "__verif_replay_{site}.rs"] mod __verif_replay_{site};\n')
        tdir = os.path.join(CACHE, 'native-target')
        res, logs = {}, ''
        for t in test_names:
            rc, out, wall = run(['cargo', 'test', '--offline', '-p', pkg, '--lib', t], cwd=scratch,
                               env=dict(env or {}, CARGO_TARGET_DIR=tdir), timeout=timeout)
            logs += out[-3000:]
            if f'test {modpath}::__verif_replay_{site}::{t} ... ok' in out:
                res[t] = 'pass'
            elif f'test {modpath}::__verif_replay_{site}::{t} ... FAILED' in out:
                res[t] = 'fail'
            else:
                res[t] = 'error'
        return res, logs


def confirm_natively(o, prop, site, test, env, what):
    """o: a violated mirsym obligation with a solver counterexample; re-run it on the real build.
    fail = reproduced (stays violated); pass = not reproduced -> inconclusive; error -> stays violated, stated unconfirmed"""
    if os.environ.get('VERIF_DEV_NO_NATIVE'):
        return
    res, logs = native_replay(prop, site, [test], env)
    verdict = res.get(test, 'error')
    if isinstance(o.sample, dict):
        o.sample['native_replay'] = {'test': test, 'env': env, 'result': {'fail': 'reproduced on the real build', 'pass': 'NOT reproduced', 'error': 'test could not be run'}[verdict]}
    if verdict == 'pass':
        o.status = 'inconclusive'
        o.detail = f'solver counterexample ({what}) did not reproduce on the real build (native test {test} passes): encoding or oracle is wrong - ' + o.detail
    elif verdict == 'fail':
        o.detail = f'[reproduced natively: {test}] ' + o.detail
        try:
            d = json.load(open(o.replay))
            d['native_replay'] = {'test': test, 'env': env, 'result': 'FAILED on the real build (reproduced)'}
            json.dump(d, open(o.replay, 'w'), indent=1, default=str)
        except Exception:
            pass
    else:
        o.detail = f'[native replay could not run: {logs[-300:].strip()}] ' + o.detail
