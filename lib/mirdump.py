"""MIR dumps of /repo's current working tree (content-addressed cache) and Program loading."""
import os, pickle, re, shutil, sys
from common import *
from mirsym import mir as M, enums as E

# cargo keys the units of workspace members by their path *relative to the workspace root*: scratch copies under different roots would share
# build-script output and rlibs in one target directory (and mtime-based freshness then takes another tree's output for current).  The registered
# commands use one scratch root; parallel development runs that set VERIF_SCRATCH get a target directory of their own.
MIR_TARGET = os.environ.get('VERIF_MIR_TARGET') or (os.path.join(os.environ['VERIF_SCRATCH'], 'mir-target') if os.environ.get('VERIF_SCRATCH') else os.path.join(CACHE, 'mir-target'))
CRATES = {'anemo': 'crates/anemo', 'anemo-tower': 'crates/anemo-tower', 'anemo-build': 'crates/anemo-build', 'examples': 'crates/examples'}
_loaded = {}


def mir_dir():
    return os.path.join(CACHE, 'mir', tree_hash()[:24])


def mir_for(crate):
    """path of the MIR text of `crate` for the *current* /repo working tree.  The cache key is
    the sha256 of the source tree, so a cached dump is only reused for byte-identical source;
    any edit to /repo regenerates it (about 20 s for anemo).  `<crate>@dbg` = the same crate compiled with
    debug assertions (the profile the test suite and Kani use): `debug_assert!`s are part of that MIR."""
    d = mir_dir()
    dbg = crate.endswith('@dbg')
    out = os.path.join(d, crate.replace('@', '.') + '.mir')
    crate_key = crate
    crate = crate[:-4] if dbg else crate
    if os.path.exists(out) and os.path.getsize(out) > 1000:
        return out
    with locked('mir'):
        if os.path.exists(out) and os.path.getsize(out) > 1000:
            return out
        os.makedirs(d, exist_ok=True)
        scratch = sync_scratch('mir')
        cdir = os.path.join(scratch, CRATES[crate])
        # make sure rustc really runs (an up-to-date crate prints nothing)
        os.utime(os.path.join(cdir, 'src/lib.rs'))
        cmd = ['cargo', '+nightly', 'rustc', '--offline', '--lib', '--', '-Zunpretty=mir', '-Zmir-include-spans',
               '-C', 'debug-assertions=' + ('on' if dbg else 'off'), '-C', 'overflow-checks=on']
        import subprocess
        e = dict(os.environ, CARGO_NET_OFFLINE='true', CARGO_TARGET_DIR=MIR_TARGET)
        t0 = time.time()
        pr = subprocess.run(cmd, cwd=cdir, env=e, stdout=subprocess.PIPE, stderr=subprocess.PIPE, text=True, errors='replace')
        if pr.returncode != 0 or len(pr.stdout) < 1000:
            raise RuntimeError(f'MIR dump of {crate} failed (rc={pr.returncode}): ' + pr.stderr[-1500:])
        with open(out + '.tmp', 'w') as f:
            f.write(pr.stdout)
        os.replace(out + '.tmp', out)
        log(f'[mir] dumped {crate_key}: {len(pr.stdout.splitlines())} lines in {time.time() - t0:.0f}s -> {out}')
        # prune old dumps (keep the 6 newest trees)
        root = os.path.join(CACHE, 'mir')
        ds = sorted((os.path.getmtime(os.path.join(root, x)), x) for x in os.listdir(root))
        for _, x in ds[:-24]:
            shutil.rmtree(os.path.join(root, x), ignore_errors=True)
    return out


def program(crate):
    """parsed Program of `crate` + EnumDB, for the current tree"""
    if crate in _loaded:
        return _loaded[crate]
    path = mir_for(crate)
    pk = path + '.pickle'
    prog = None
    import fnroles
    deps = [path, M.__file__, fnroles.__file__] + ([fnroles.FILE] if os.path.exists(fnroles.FILE) else [])
    if os.path.exists(pk) and all(os.path.getmtime(pk) >= os.path.getmtime(d) for d in deps):
        try:
            with open(pk, 'rb') as f:
                prog = pickle.load(f)
        except Exception:
            prog = None
    if prog is None:
        base = crate[:-4] if crate.endswith('@dbg') else crate
        prog = M.load(path, REPO, base)
        prog.src_root = REPO
        tren = fnroles.type_renames(REPO) if not os.environ.get('VERIF_NO_FNROLES') else {}
        if tren and any(re.search(r'\b' + re.escape(c) + r'\b', open(path).read()) for c in tren):
            # crate-private structs recognised (by their field types) as renamed: analyse them under their pinned names
            tcanon = path + '.tcanon'
            with open(path) as f:
                text = f.read()
            with open(tcanon + '.tmp', 'w') as f:
                f.write(fnroles.apply_type_renames(text, tren))
            os.replace(tcanon + '.tmp', tcanon)
            path = tcanon
            prog = M.load(path, REPO, base)
            prog.type_ren = dict(tren)
            log(f'[mir] {crate}: renamed private structs recognised by their fields: ' + ', '.join(f'{c} (= pinned {p_})' for c, p_ in tren.items()))
        prog.src_root = REPO
        ren = fnroles.renames(prog, base) if not os.environ.get('VERIF_NO_FNROLES') else []
        if ren:
            # crate-private functions recognised (by signature) as renamed: analyse them under their pinned names
            canon = path + '.canon'
            with open(path) as f:
                text = f.read()
            with open(canon + '.tmp', 'w') as f:
                f.write(fnroles.rewrite(text, ren, prog))
            os.replace(canon + '.tmp', canon)
            prog = M.load(canon, REPO, base)
            prog.type_ren = dict(tren)
            prog.renamed = [(sc, old, new) for sc, old, new, _ in ren]
            log(f'[mir] {crate}: renamed private functions recognised by signature: ' + ', '.join(f'{old} (= pinned {new})' for _, old, new, _ in ren))
        try:
            with open(pk + '.tmp', 'wb') as f:
                pickle.dump(prog, f)
            os.replace(pk + '.tmp', pk)
        except Exception:
            pass
    prog.src_root = REPO
    enums = E.EnumDB(REPO)
    _loaded[crate] = (prog, enums)
    return prog, enums


def mir_sha(crate):
    import hashlib
    with open(mir_for(crate), 'rb') as f:
        return hashlib.sha256(f.read()).hexdigest()[:16]
