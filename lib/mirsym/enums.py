"""Enum variant -> discriminant index tables.

Crate-local enums are parsed from the scratch copy of the source on every run; std enums from a
fixed table; third-party enums lazily from the vendored registry sources named in Cargo.lock."""
import glob, os, re

STD = {
    'Option': ['None', 'Some'],
    'Result': ['Ok', 'Err'],
    'Poll': ['Ready', 'Pending'],
    'ControlFlow': ['Continue', 'Break'],
    'Entry': ['Occupied', 'Vacant'],
    'Cow': ['Borrowed', 'Owned'],
    'IpAddr': ['V4', 'V6'],
    'SocketAddr': ['V4', 'V6'],
    'Bound': ['Included', 'Excluded', 'Unbounded'],
}
STD_EXPLICIT = {'Ordering': {'Less': -1, 'Equal': 0, 'Greater': 1}}

_enum_re = re.compile(r'\benum\s+(\w+)\s*(?:<[^{]*>)?\s*(?:where[^{]*)?\{', re.S)


def _strip_comments(src):
    src = re.sub(r'//[^\n]*', '', src)
    src = re.sub(r'/\*.*?\*/', '', src, flags=re.S)
    return src


def parse_enums(src):
    """-> {name: {variant: index}} for every enum in a source text"""
    out = {}
    src = _strip_comments(src)
    for m in _enum_re.finditer(src):
        name = m.group(1)
        i = m.end()
        depth, j = 1, i
        while j < len(src) and depth:
            if src[j] == '{':
                depth += 1
            elif src[j] == '}':
                depth -= 1
            j += 1
        body = src[i:j - 1]
        # split variants at top-level commas
        parts, d, cur = [], 0, []
        for ch in body:
            if ch in '({[<':
                d += 1
            elif ch in ')}]>':
                d -= 1
            if ch == ',' and d == 0:
                parts.append(''.join(cur))
                cur = []
            else:
                cur.append(ch)
        parts.append(''.join(cur))
        idx, table = 0, {}
        for part in parts:
            t = re.sub(r'#\s*\[[^\]]*\]', '', part).strip()
            if not t:
                continue
            mm = re.match(r'^(\w+)', t)
            if not mm:
                continue
            vn = mm.group(1)
            me = re.search(r'=\s*(-?\d+)\s*$', t)
            if me and '(' not in t and '{' not in t:
                idx = int(me.group(1))
            table[vn] = idx
            idx += 1
        if table and name not in out:
            out[name] = table
    return out


class EnumDB:
    def __init__(self, repo_root, registry=os.path.expanduser('~/.cargo/registry/src')):
        self.tables = {}
        for k, vs in STD.items():
            self.tables[k] = {v: i for i, v in enumerate(vs)}
        self.tables.update(STD_EXPLICIT)
        self.local = {}
        for f in glob.glob(os.path.join(repo_root, 'crates/*/src/**/*.rs'), recursive=True):
            try:
                with open(f, errors='replace') as fh:
                    for n, t in parse_enums(fh.read()).items():
                        self.local.setdefault(n, t)
            except OSError:
                pass
        # pin_project `#[project = Proj] enum E {..}`: the projection enum has E's variants
        for f in glob.glob(os.path.join(repo_root, 'crates/*/src/**/*.rs'), recursive=True):
            try:
                src = _strip_comments(open(f, errors='replace').read())
            except OSError:
                continue
            for m in re.finditer(r'#\[project(?:_ref|_replace)?\s*=\s*(\w+)\]\s*(?:#\[[^\]]*\]\s*)*(?:pub(?:\([^)]*\))?\s+)?enum\s+(\w+)', src):
                if m.group(2) in self.local:
                    self.local.setdefault(m.group(1), self.local[m.group(2)])
        self.registry = registry
        self.lock = self._lock(os.path.join(repo_root, 'Cargo.lock'))
        self._ext = {}

    def _lock(self, path):
        out = {}
        try:
            txt = open(path).read()
        except OSError:
            return out
        for m in re.finditer(r'name = "([^"]+)"\nversion = "([^"]+)"', txt):
            out.setdefault(m.group(1), []).append(m.group(2))
        return out

    def _search_crate(self, crate, enum):
        key = (crate, enum)
        if key in self._ext:
            return self._ext[key]
        res = None
        for c in (crate, crate.replace('_', '-')):
            for ver in self.lock.get(c, []):
                for d in glob.glob(os.path.join(self.registry, '*', f'{c}-{ver}')):
                    for f in glob.glob(os.path.join(d, 'src/**/*.rs'), recursive=True):
                        try:
                            src = open(f, errors='replace').read()
                        except OSError:
                            continue
                        if re.search(r'\benum\s+' + re.escape(enum) + r'\b', src):
                            t = parse_enums(src).get(enum)
                            if t:
                                res = t
                                break
                    if res:
                        break
                if res:
                    break
            if res:
                break
        self._ext[key] = res
        return res

    REEXPORT = {'quinn': ['quinn-proto', 'quinn'], 'rustls': ['rustls', 'rustls-pki-types'], 'webpki': ['rustls-webpki'],
                'tokio': ['tokio'], 'matchit': ['matchit'], 'governor': ['governor'], 'tower': ['tower'],
                'pki_types': ['rustls-pki-types']}

    def table(self, enum, crate_hint=None):
        if enum in self.local:
            return self.local[enum]
        if enum in self.tables:
            return self.tables[enum]
        hints = []
        if crate_hint:
            hints += self.REEXPORT.get(crate_hint, [crate_hint])
        for h in hints:
            t = self._search_crate(h, enum)
            if t:
                self.tables[enum] = t
                return t
        return None

    def index(self, enum, variant, crate_hint=None):
        if variant.startswith('variant#'):
            return int(variant.split('#')[1])
        t = self.table(enum, crate_hint)
        if t and variant in t:
            return t[variant]
        # last resort: search every locked crate that mentions the enum (cached)
        key = ('*', enum)
        if key not in self._ext:
            found = None
            for c in ('quinn-proto', 'rustls', 'rustls-pki-types', 'rustls-webpki', 'tokio', 'matchit', 'governor', 'tower', 'bincode', 'serde_json'):
                t2 = self._search_crate(c, enum)
                if t2 and variant in t2:
                    found = t2
                    break
            self._ext[key] = found
        t = self._ext[key]
        if t and variant in t:
            return t[variant]
        return None

    def find_variant(self, variant):
        """(Enum, Variant) when exactly one known (crate-local or std) enum has a variant of that name"""
        hits = [en for en, t in list(self.local.items()) + list(self.tables.items()) if variant in t]
        hits = sorted(set(hits))
        return (hits[0], variant) if len(hits) == 1 else None

    def lookup_path(self, path):
        """'a::b::Enum::Variant' -> (Enum, Variant) if Enum is a known enum with that variant"""
        segs = [x for x in path.split('::') if x]
        if len(segs) < 2:
            return None
        en, vn = segs[-2], segs[-1]
        if not (en[:1].isupper() and vn[:1].isupper()):
            return None
        hint = segs[0] if len(segs) >= 3 and segs[0][:1].islower() else None
        t = self.table(en, hint)
        if t and vn in t:
            return (en, vn)
        return None

    def variants(self, enum, crate_hint=None):
        return self.table(enum, crate_hint) or {}
