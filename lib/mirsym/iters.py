"""Abstract (lazy) iterators over collections of unknown size - opt-in contract models.

An iterator value is  Agg('AIter', (source, Str(mode), Agg(stages), yielded))  where
  source  : the collection (a Sym / pointer to a Sym: Vec, HashMap, BTreeMap, HashSet ..., or the Sym returned by an earlier
            `collect()`, which remembers the pipeline it was collected from), so provenance (`derives_from`) is kept,
  stages  : ('map', clo) | ('filter', clo) | ('filter_map', clo) | ('deref',) | ('take', n) | ('skip', n) | ('enumerate',)
  yielded : how many items `next()` has produced so far (concrete).

Semantics (std contracts): the pipeline denotes a finite sequence of unknown length; one *generic element* stands for every
element.  `next()` forks None | Some(generic element pushed through the stages) and constrains the path with the symbolic
element count (`aiter_count`: |source|, shrunk by filters, min'ed by take).  `collect()`, `fold()`, `for_each()` execute the
stage closures for ONE generic element (events `next Some` .. `collect-item`/closure events), so per-element obligations are
decided for an arbitrary element; that every element is visited exactly once, in order, is the std contract of these
adaptors.  A `for` loop is `into_iter` + `next` in a MIR loop and is unrolled by the executor as usual."""
import re, z3
from .sym import *
from .models import (R, NONE, some, generic_arg, map_has_initial, conc, as_array)

MAP_RE = re.compile(r'\b(HashMap|BTreeMap|IndexMap|DashMap)<')
SET_RE = re.compile(r'\b(HashSet|BTreeSet)<')
SEQ_RE = re.compile(r'\b(Vec|VecDeque|Box<\[|\[)')


def is_aiter(v):
    return isinstance(v, Agg) and v.name == 'AIter'


def mk(src, mode, stages=(), yielded=0, trav=0):
    return Agg('AIter', None, (src, Str(mode), Agg('stages', None, tuple(stages), 'tuple'), z3.BitVecVal(yielded, 64), z3.BitVecVal(trav, 64)), 'struct')


def parts(it):
    return it.fields[0], it.fields[1].s, list(it.fields[2].fields), conc(it.fields[3]) or 0


def trav_of(it):
    return conc(it.fields[4]) or 0


def _coll(ex, p, src):
    c = src
    for _ in range(3):
        if isinstance(c, Ptr):
            c = ex.deref(p, c)
    return c


def _get(it, ex, p):
    v = ex.deref(p, it) if isinstance(it, Ptr) else it
    return v if is_aiter(v) else None


def stage(kind, *a):
    return Agg('stage', kind, tuple(a), 'ctor')


# ----------------------------------------------------------------------------- element count of a pipeline
def src_len(c):
    if isinstance(c, Sym) and (MAP_RE.search(c.ty) or SET_RE.search(c.ty)):
        return z3.BitVec(f'len<{c.name}>', 64)
    return z3.BitVec(f'len({vname(c)})', 64)


def aiter_count(ex, p, it):
    """(count expression, side constraints, [filter-count symbols]) of the sequence the iterator denotes from its start"""
    src, mode, stages, _ = parts(it)
    c = _coll(ex, p, src)
    cons, fsyms = [], []
    inner = c.get_ov('collected') if isinstance(c, Sym) else None
    if inner is not None:
        n, cons, fsyms = aiter_count(ex, p, inner)
    else:
        n = src_len(c)
    for st in stages:
        k = st.variant
        if k in ('filter', 'filter_map'):
            f = z3.BitVec(f'count({k}:{vname(st.fields[0])})', 64)
            cons.append(z3.ULE(f, n))
            fsyms.append(f)
            n = f
        elif k == 'zip':
            m, c2, f2 = aiter_count(ex, p, st.fields[0])
            cons += c2
            fsyms += f2
            n = z3.If(z3.ULE(n, m), n, m)
        elif k == 'take':
            m = st.fields[0]
            n = z3.If(z3.ULE(n, m), n, m)
        elif k == 'skip':
            m = st.fields[0]
            n = z3.If(z3.UGE(n, m), n - m, z3.BitVecVal(0, 64))
    return n, cons, fsyms


# ----------------------------------------------------------------------------- one generic element
def _ref(p, v):
    # the cell is named after the value it holds, so names derived from a reference to a generic element stay traceable
    nm = vname(v) if not isinstance(v, Agg) else None
    cell = ('H', f'ref({nm})' if nm and len(nm) < 80 else f'elem{p.seq("elem")}', '')
    p.mem[cell] = v
    return Ptr(cell, (), False)


def gen_elem(ex, p, it, call, k, k_skip):
    """push one generic element of the source through the stages: k(path, item, source element) | k_skip(path) when a filter drops it"""
    src, mode, stages, _ = parts(it)
    c = _coll(ex, p, src)
    inner = c.get_ov('collected') if isinstance(c, Sym) else None
    byref = mode in ('iter', 'iter_mut', 'values', 'values_mut', 'keys') or (mode == 'into_iter' and isinstance(src, Ptr))

    def with_src(q, e0):
        def run(q2, e, i):
            if i >= len(stages):
                return k(q2, e, e0)
            st = stages[i]
            kind = st.variant
            if kind == 'deref':
                v = e
                if isinstance(v, Ptr):
                    v = ex.deref(q2, v)
                elif isinstance(v, Agg) and v.kind == 'tuple':
                    v = Agg('()', None, tuple(ex.deref(q2, x) if isinstance(x, Ptr) else x for x in v.fields), 'tuple')
                return run(q2, v, i + 1)
            if kind == 'map':
                return ex.call_closure(q2, st.fields[0], [e], call, lambda q3, r: run(q3, r, i + 1))
            if kind == 'zip':
                # pairs the k-th elements of two sequences: two independent generic elements
                return gen_elem(ex, q2, st.fields[0], call, lambda q3, item2, _e: run(q3, Agg('()', None, (e, item2), 'tuple'), i + 1), k_skip)
            if kind == 'enumerate':
                return run(q2, Agg('()', None, (ex.fresh(f'index#{q2.seq("enum")}', 'usize'), e), 'tuple'), i + 1)
            if kind == 'filter' and getattr(ex, 'opaque_filters', False):
                # the predicate is analysed by its own obligation: here the element is one that passed it
                q2.events.append(Event('filter-pass', vname(st.fields[0]), (e,), None, call.span, call.depth))
                return run(q2, e, i + 1)
            if kind == 'filter':
                def after(q3, b):
                    c_ = b if isinstance(b, z3.ExprRef) and z3.is_bool(b) else (b != z3.BitVecVal(0, b.size()) if isinstance(b, z3.ExprRef) else ex.to_bv(b, 8) != 0)
                    q4 = q3.clone()
                    if ex.feasible(q3.pc, c_):
                        if not z3.is_true(z3.simplify(c_)):
                            q3.pc.append(c_)
                        run(q3, e, i + 1)
                    if ex.feasible(q4.pc, z3.Not(c_)):
                        if not z3.is_false(z3.simplify(c_)):
                            q4.pc.append(z3.Not(c_))
                        k_skip(q4)
                return ex.call_closure(q2, st.fields[0], [_ref(q2, e)], call, after)
            if kind == 'filter_map':
                def after(q3, o):
                    from .models import split_enum, OPTION, opt_payload_ty
                    split_enum(ex, q3, o, 'Option', OPTION, lambda q4, name, pay: run(q4, pay[0], i + 1) if name == 'Some' else k_skip(q4), opt_payload_ty(o))
                return ex.call_closure(q2, st.fields[0], [e], call, after)
            if kind == 'try':
                # collecting into Result<C, E> / Option<C>: the collection holds the Ok/Some payloads
                from .models import split_enum, RESULT, OPTION, res_payload_ty, opt_payload_ty
                if isinstance(e, Agg) and e.name == 'Option' or (isinstance(e, Sym) and re.search(r'\bOption<', e.ty or '')):
                    return split_enum(ex, q2, e, 'Option', OPTION, lambda q4, name, pay: run(q4, pay[0], i + 1) if name == 'Some' else k_skip(q4), opt_payload_ty(e))
                return split_enum(ex, q2, e, 'Result', RESULT, lambda q4, name, pay: run(q4, pay[0], i + 1) if name == 'Ok' else k_skip(q4), res_payload_ty(e))
            return run(q2, e, i + 1)       # take / skip: counts only
        run(q, e0, 0)
    if inner is not None:
        # elements of a collected pipeline: produced by that pipeline
        def got(q, item, _e0):
            with_src(q, _ref(q, item) if byref else item)
        return gen_elem(ex, p, inner, call, got, k_skip)
    t = trav_of(it)
    n = p.seq(f'iter:{vname(c)}:{t}')
    tag = f'{t}.{n}' if t > 1 else str(n)
    ty = c.ty if isinstance(c, Sym) else ''
    if isinstance(c, Sym) and MAP_RE.search(ty):
        K, V = generic_arg(ty, 0) or '', generic_arg(ty, 1) or ''
        key = ex.fresh(f'{c.name}.key#{tag}', K)
        val = ex.fresh(f'{c.name}[{vname(key)}]', V)
        if c.get_ov('map') is None:
            p.pc.append(map_has_initial(c, key))
        for m_ in range(1, n):        # a map yields every key once: generic elements of one traversal are pairwise distinct
            from .models import _keq
            p.pc.append(z3.Not(_keq(ex, key, ex.fresh(f'{c.name}.key#' + (f'{t}.{m_}' if t > 1 else str(m_)), K))))
        if mode in ('values', 'values_mut', 'into_values'):
            e0 = _ref(p, val) if byref else val
        elif mode in ('keys', 'into_keys'):
            e0 = _ref(p, key) if byref else key
        else:
            e0 = Agg('()', None, (_ref(p, key), _ref(p, val)) if byref else (key, val), 'tuple')
    else:
        T = generic_arg(ty, 0) or ''
        el = ex.fresh(f'{vname(c)}[#{tag}]', T)
        e0 = _ref(p, el) if byref else el
    p.events.append(Event('elem', vname(c), (e0,), None, call.span, call.depth))
    with_src(p, e0)


# ----------------------------------------------------------------------------- producers
def m_into_iter(ex, p, call, k):
    a = call.args[0]
    v = _get(a, ex, p)
    if v is not None:
        return k(p, v)
    c = _coll(ex, p, a)
    if isinstance(c, Sym) and isinstance(c.get_ov('items'), Agg):
        return NotImplemented            # a vector whose elements are known on this path: the finite model
    if isinstance(c, Sym) and (c.get_ov('collected') is not None or MAP_RE.search(c.ty) or SET_RE.search(c.ty) or SEQ_RE.search(c.ty)):
        return k(p, mk(a, 'into_iter', trav=p.seq(f'trav:{vname(c)}')))
    return NotImplemented


def m_coll_iter(ex, p, call, k):
    meth = call.short.rsplit('::', 1)[-1]
    a = call.args[0]
    c = _coll(ex, p, a)
    if as_array(ex, p, a) is not None if isinstance(a, Ptr) else False:
        return NotImplemented            # arrays of known content: the finite SliceIter model
    if not isinstance(c, Sym) or isinstance(c.get_ov('items'), Agg):
        return NotImplemented
    return k(p, mk(a, meth, trav=p.seq(f'trav:{vname(c)}')))


# ----------------------------------------------------------------------------- adaptors
def m_adaptor(ex, p, call, k):
    it = _get(call.args[0], ex, p)
    if it is None:
        return NotImplemented
    meth = call.short.rsplit('::', 1)[-1]
    src, mode, stages, y = parts(it)
    if meth in ('cloned', 'copied'):
        st = stage('deref')
    elif meth in ('map', 'filter', 'filter_map'):
        st = stage(meth, call.args[1])
    elif meth == 'zip':
        other = _get(call.args[1], ex, p)
        if other is None:
            o2 = call.args[1]
            c2 = _coll(ex, p, o2)
            if isinstance(c2, Sym) and (c2.get_ov('collected') is not None or MAP_RE.search(c2.ty) or SET_RE.search(c2.ty) or SEQ_RE.search(c2.ty)):
                other = mk(o2, 'into_iter', trav=p.seq(f'trav:{vname(c2)}'))
        if other is None:
            return NotImplemented
        st = stage('zip', other)
    elif meth in ('flat_map', 'inspect'):
        # flat_map: the closure runs once per element; what it returns is flattened (its elements are not modelled further)
        st = stage('map', call.args[1])
    elif meth in ('take', 'skip'):
        st = stage(meth, call.args[1])
    elif meth == 'enumerate':
        st = stage('enumerate')
    elif meth in ('by_ref', 'peekable', 'fuse', 'into_iter'):
        return k(p, call.args[0] if meth == 'by_ref' else it)
    else:
        return NotImplemented
    k(p, mk(src, mode, stages + [st], y, trav_of(it)))


# ----------------------------------------------------------------------------- consumers
def m_next(ex, p, call, k):
    ptr = call.args[0]
    it = _get(ptr, ex, p)
    if it is None:
        return NotImplemented
    src, mode, stages, y = parts(it)
    n, cons, _ = aiter_count(ex, p, it)
    done = p.clone()
    # None: the sequence has exactly `y` elements
    c_none = z3.And(cons + [n == z3.BitVecVal(y, 64)])
    if ex.feasible(done.pc, c_none):
        done.pc.append(c_none)
        done.events.append(Event('next', 'None', (it,), None, call.span, call.depth))
        k(done, NONE)
    c_some = z3.And(cons + [z3.UGT(n, z3.BitVecVal(y, 64))])
    if not ex.feasible(p.pc, c_some):
        return
    p.pc.append(c_some)
    if isinstance(ptr, Ptr):
        ex.store(p, ptr, mk(src, mode, stages, y + 1, trav_of(it)))
    p.events.append(Event('next', 'begin', (it,), None, call.span, call.depth))

    def got(q, item, e0):
        q.events.append(Event('next', 'Some', (item, e0, it), None, call.span, call.depth))
        k(q, some(item))

    def skipped(q):
        # the generic element was dropped by a filter: it does not count; the next element is another generic one
        if q.seq('iter-skip') > 1:
            return ex.end_path(q, 'loop-bound', 'iterator filter')
        gen_elem(ex, q, it, call, got, lambda q2: ex.end_path(q2, 'loop-bound', 'iterator filter'))
    gen_elem(ex, p, it, call, got, skipped)


def m_collect(ex, p, call, k):
    it = _get(call.args[0], ex, p)
    if it is None:
        return NotImplemented
    name = f'collect#{p.seq("collect")}'
    wrap = re.match(r'^(?:std::|core::)?(?:result::|option::)?(Result|Option)<', (call.retty or '').strip())
    if wrap:
        # FromIterator for Result<C, E> / Option<C>: Err/None if some element is, else the collection of the payloads
        src, mode, stages, y = parts(it)
        it2 = mk(src, mode, stages + [stage('try')], y, trav_of(it))
        inner_ty = generic_arg(call.retty, 0) or ''
        coll = Sym(name, inner_ty).with_ov('collected', it2)
        bad = p.clone()
        bad.events.append(Event('collect', 'short-circuit', (it,), None, call.span, call.depth))
        if wrap.group(1) == 'Result':
            from .models import err, ok
            k(bad, err(ex.fresh(f'{name}@Err.0', generic_arg(call.retty, 1) or '')))
            good = ok(coll)
        else:
            k(bad, NONE)
            good = some(coll)
        empty = p.clone()
        empty.events.append(Event('collect', 'empty', (coll, it2), None, call.span, call.depth))
        k(empty, good)

        def got2(q, item, e0):
            q.events.append(Event('collect-item', name, (item, e0, coll), None, call.span, call.depth))
            k(q, good)
        p.events.append(Event('next', 'Some', (None, None, it2), None, call.span, call.depth))
        return gen_elem(ex, p, it2, call, got2, lambda q: None)
    res = Sym(name, call.retty).with_ov('collected', it)
    empty = p.clone()
    empty.events.append(Event('collect', 'empty', (res, it), None, call.span, call.depth))
    k(empty, res)

    def got(q, item, e0):
        q.events.append(Event('collect-item', name, (item, e0, res), None, call.span, call.depth))
        k(q, res)
    p.events.append(Event('next', 'Some', (None, None, it), None, call.span, call.depth))
    gen_elem(ex, p, it, call, got, lambda q: k(q, res))


def m_fold(ex, p, call, k):
    it = _get(call.args[0], ex, p)
    if it is None:
        return NotImplemented
    init, f = call.args[1], call.args[2]
    empty = p.clone()
    empty.events.append(Event('next', 'None', (it,), None, call.span, call.depth))
    k(empty, init)

    def got(q, item, e0):
        q.events.append(Event('next', 'Some', (item, e0, it), None, call.span, call.depth))

        def after(q2, r):
            q2.events.append(Event('next', 'None', (it,), None, call.span, call.depth))
            k(q2, r)
        ex.call_closure(q, f, [init, item], call, after)
    gen_elem(ex, p, it, call, got, lambda q: k(q, init))


def m_for_each(ex, p, call, k):
    it = _get(call.args[0], ex, p)
    if it is None:
        return NotImplemented
    empty = p.clone()
    empty.events.append(Event('next', 'None', (it,), None, call.span, call.depth))
    k(empty, UNIT)

    def got(q, item, e0):
        q.events.append(Event('next', 'Some', (item, e0, it), None, call.span, call.depth))

        def after(q2, r):
            q2.events.append(Event('next', 'None', (it,), None, call.span, call.depth))
            k(q2, UNIT)
        ex.call_closure(q, call.args[1], [item], call, after)
    gen_elem(ex, p, it, call, got, lambda q: k(q, UNIT))


def m_search(ex, p, call, k):
    """find / any / all / position over an abstract iterator: `hit` = some (generic) element decides the search - the
    predicate is executed on it and its verdict assumed; `none` = no element does (nothing is assumed about the elements)"""
    it = _get(call.args[0], ex, p)
    if it is None:
        return NotImplemented
    meth = call.short.rsplit('::', 1)[-1]
    clo = call.args[1]
    nf = p.clone()
    nf.events.append(Event('search', meth, (it, None, None, Str('none')), None, call.span, call.depth))
    k(nf, {'find': NONE, 'position': NONE, 'any': z3.BoolVal(False), 'all': z3.BoolVal(True)}[meth])

    def got(q, item, e0):
        arg = _ref(q, item) if meth == 'find' else item

        def after(q2, b):
            c_ = b if isinstance(b, z3.ExprRef) and z3.is_bool(b) else (b != z3.BitVecVal(0, b.size()) if isinstance(b, z3.ExprRef) else ex.to_bv(b, 8) != 0)
            hit = z3.Not(c_) if meth == 'all' else c_
            if not ex.feasible(q2.pc, hit):
                return
            if not z3.is_true(z3.simplify(hit)):
                q2.pc.append(hit)
            q2.events.append(Event('search', meth, (it, item, c_, Str('hit'), e0), None, call.span, call.depth))
            k(q2, {'find': some(item), 'position': some(ex.fresh(f'position#{q2.seq("pos")}', 'usize')), 'any': z3.BoolVal(True), 'all': z3.BoolVal(False)}[meth])
        ex.call_closure(q, clo, [arg], call, after)
    gen_elem(ex, p, it, call, got, lambda q: None)


def m_count(ex, p, call, k):
    it = _get(call.args[0], ex, p)
    if it is None:
        return NotImplemented
    n, cons, _ = aiter_count(ex, p, it)
    p.pc.extend(cons)
    k(p, n)


def m_len_collected(ex, p, call, k):
    c = _coll(ex, p, call.args[0])
    inner = c.get_ov('collected') if isinstance(c, Sym) else None
    if inner is None:
        return NotImplemented
    n, cons, _ = aiter_count(ex, p, inner)
    p.pc.extend(cons)
    if call.short.endswith('is_empty'):
        return k(p, n == 0)
    k(p, n)


ITER_MODELS = [
    (R(r' as IntoIterator>::into_iter$'), m_into_iter),
    (R(r'(HashMap|BTreeMap|HashSet|BTreeSet|Vec|VecDeque)::(iter|iter_mut|values|values_mut|keys|into_values|into_keys|drain)$|(^|::)slice::(<impl[^>]*>::)?(iter|iter_mut)$'), m_coll_iter),
    (R(r' as Iterator>::(map|filter|filter_map|flat_map|inspect|cloned|copied|take|skip|zip|enumerate|by_ref|peekable|fuse)$'), m_adaptor),
    (R(r' as Iterator>::next$'), m_next),
    (R(r' as Iterator>::collect$'), m_collect),
    (R(r' as Iterator>::fold$'), m_fold),
    (R(r' as Iterator>::for_each$'), m_for_each),
    (R(r' as Iterator>::count$'), m_count),
    (R(r' as Iterator>::(find|any|all|position)$'), m_search),
    (R(r'(Vec|VecDeque|HashMap|BTreeMap|HashSet|BTreeSet)::(len|is_empty)$|(^|::)slice::(<impl[^>]*>::)?(len|is_empty)$'), m_len_collected),
]
