"""Parser for rustc's textual MIR (`-Zunpretty=mir -Zmir-include-spans`, rustc 1.97 nightly).

Fails closed: a statement it does not recognise is stored as ('unparsed', text) and raises
Unparsed only if a path actually executes it."""
import os, re, ast as pyast


class Unparsed(Exception):
    pass


# ----------------------------------------------------------------------------- helpers
def split_top(s, sep=','):
    """split at top-level separators; brackets () [] {} <> nest; `->`/`=>` are not brackets"""
    out, depth, cur, i, n = [], 0, [], 0, len(s)
    instr = None
    while i < n:
        c = s[i]
        if instr:
            cur.append(c)
            if c == '\\':
                i += 1
                if i < n:
                    cur.append(s[i])
            elif c == instr:
                instr = None
            i += 1
            continue
        if c == '"':
            instr = c
            cur.append(c)
            i += 1
            continue
        if c in '([{':
            depth += 1
        elif c in ')]}':
            depth -= 1
        elif c == '<' and not (i > 0 and s[i - 1] == '-'):
            # generic bracket unless it is a comparison (not present in MIR text operands)
            depth += 1
        elif c == '>' and not (i > 0 and s[i - 1] in '-='):
            depth -= 1
        if c == sep and depth == 0:
            out.append(''.join(cur).strip())
            cur = []
        else:
            cur.append(c)
        i += 1
    last = ''.join(cur).strip()
    if last:
        out.append(last)
    return out


def match_paren_back(s):
    """s ends with ')': index of the matching '('"""
    d = 0
    j = len(s) - 1
    instr = False
    while j >= 0:
        c = s[j]
        if c == '"' and (j == 0 or s[j - 1] != '\\'):
            instr = not instr
        elif not instr:
            if c == ')':
                d += 1
            elif c == '(':
                d -= 1
                if d == 0:
                    return j
        j -= 1
    return -1


def _strip_all(name):
    out, depth, i = [], 0, 0
    while i < len(name):
        c = name[i]
        if c == '<' and not (i > 0 and name[i - 1] == '-'):
            depth += 1
        elif c == '>' and not (i > 0 and name[i - 1] in '-='):
            depth -= 1
        elif depth == 0:
            out.append(c)
        i += 1
    return re.sub(r'::(::)+', '::', ''.join(out)).rstrip(':')


def strip_generics(name):
    """remove generic argument lists; a leading qualified self `<A as B>::m` is kept as
    `<A' as B'>::m` with A', B' stripped"""
    name = name.strip()
    if name.startswith('<'):
        d = 0
        for i, c in enumerate(name):
            if c == '<' and not (i > 0 and name[i - 1] == '-'):
                d += 1
            elif c == '>' and not (i > 0 and name[i - 1] in '-='):
                d -= 1
                if d == 0:
                    break
        inner, rest = name[1:i], name[i + 1:]
        # top-level ' as '
        d, pos = 0, None
        for j, c in enumerate(inner):
            if c in '<([':
                if not (c == '<' and j > 0 and inner[j - 1] == '-'):
                    d += 1
            elif c in '>)]':
                if not (c == '>' and j > 0 and inner[j - 1] in '-='):
                    d -= 1
            elif d == 0 and inner[j:j + 4] == ' as ':
                pos = j
        if pos is not None:
            return '<' + _strip_all(inner[:pos]) + ' as ' + _strip_all(inner[pos + 4:]).split('::')[-1] + '>' + _strip_all(rest)
        return '<' + _strip_all(inner) + '>' + _strip_all(rest)
    return _strip_all(name)


# ----------------------------------------------------------------------------- places / operands
def parse_place(s):
    s = s.strip()
    m = re.fullmatch(r'_\d+', s)
    if m:
        return (s, ())
    # index / constant index / subslice suffix
    if s.endswith(']'):
        d = 0
        for j in range(len(s) - 1, -1, -1):
            if s[j] == ']':
                d += 1
            elif s[j] == '[':
                d -= 1
                if d == 0:
                    break
        base, idx = s[:j], s[j + 1:-1]
        b, p = parse_place(base)
        if re.fullmatch(r'_\d+', idx):
            return (b, p + (('index', idx),))
        m = re.fullmatch(r'(-?\d+) of (\d+)', idx)
        if m:
            return (b, p + (('cindex', int(m.group(1)), int(m.group(2))),))
        return (b, p + (('subslice', idx),))
    if not (s[0] == '(' and s[-1] == ')'):
        raise Unparsed('place: ' + s)
    inner = s[1:-1].strip()
    if inner.startswith('*'):
        b, p = parse_place(inner[1:])
        return (b, p + (('deref',),))
    # (P as Variant) | (P as variant#3)
    m = re.match(r'^(.*) as ([\w#]+)$', inner)
    if m and _balanced(m.group(1)):
        try:
            b, p = parse_place(m.group(1))
            return (b, p + (('down', m.group(2)),))
        except Unparsed:
            pass
    # (P.N: T)
    depth = 0
    for k, c in enumerate(inner):
        if c in '([{':
            depth += 1
        elif c in ')]}':
            depth -= 1
        elif c == '.' and depth == 0:
            m = re.match(r'\.(\d+): (.*)$', inner[k:], re.S)
            if m:
                b, p = parse_place(inner[:k])
                return (b, p + (('field', int(m.group(1)), m.group(2).strip()),))
    raise Unparsed('place: ' + s)


def _balanced(s):
    d = 0
    for c in s:
        if c in '([':
            d += 1
        elif c in ')]':
            d -= 1
        if d < 0:
            return False
    return d == 0


def parse_operand(s):
    s = s.strip()
    s = re.sub(r'^no_retag ', '', s)
    if s.startswith('copy '):
        return ('copy', parse_place(s[5:]))
    if s.startswith('move '):
        return ('move', parse_place(s[5:]))
    if s.startswith('const '):
        return ('const', s[6:].strip())
    if s.startswith(('_', '(')):
        return ('copy', parse_place(s))
    return ('const', s)          # function items etc.


BINOPS = {'Add', 'Sub', 'Mul', 'Div', 'Rem', 'BitXor', 'BitAnd', 'BitOr', 'Shl', 'Shr', 'Eq', 'Lt', 'Le', 'Ne', 'Ge',
          'Gt', 'Cmp', 'Offset', 'AddWithOverflow', 'SubWithOverflow', 'MulWithOverflow', 'AddUnchecked',
          'SubUnchecked', 'MulUnchecked', 'ShlUnchecked', 'ShrUnchecked'}
UNOPS = {'Not', 'Neg', 'PtrMetadata'}


def parse_rvalue(s):
    s = s.strip()
    m = re.fullmatch(r'discriminant\((.*)\)', s)
    if m:
        return ('discr', parse_place(m.group(1)))
    m = re.match(r'^(\w+)\((.*)\)$', s, re.S)
    if m and m.group(1) in BINOPS:
        a, b = split_top(m.group(2))
        return ('bin', m.group(1), parse_operand(a), parse_operand(b))
    if m and m.group(1) in UNOPS:
        return ('un', m.group(1), parse_operand(m.group(2)))
    if m and m.group(1) == 'Len':
        return ('len', parse_place(m.group(2)))
    if s.startswith('deref_copy '):
        return ('use', ('copy', parse_place(s[len('deref_copy '):])))
    if s.startswith('&raw const ') or s.startswith('&raw mut '):
        mut = s.startswith('&raw mut ')
        rest = s.split(' ', 2)[2]
        if rest.startswith('(fake) '):          # `&raw const (fake) (*_4)`: a fake borrow for match guards, same place
            rest = rest[len('(fake) '):]
        return ('ref', mut, parse_place(rest))
    if s.startswith('&fake shallow '):
        return ('ref', False, parse_place(s[len('&fake shallow '):]))
    if s.startswith('&mut '):
        return ('ref', True, parse_place(s[5:]))
    if s.startswith('&') and not s.startswith('&&'):
        return ('ref', False, parse_place(s[1:]))
    # cast: <operand> as <ty> (<kind>)
    m = re.match(r'^((?:copy|move|const) .*) as (.*) \(([A-Za-z]\w*(?:\(.*\))?)\)$', s, re.S)
    if m:
        return ('cast', parse_operand(m.group(1)), m.group(2).strip(), m.group(3))
    if s.startswith(('copy ', 'move ', 'const ', 'no_retag ')):
        return ('use', parse_operand(s))
    # tuple / array / repeat
    if s.startswith('[') and s.endswith(']'):
        inner = s[1:-1]
        parts = split_top(inner, ';')
        if len(parts) == 2 and ',' not in split_top(inner)[0:1][0][len(parts[0]):]:
            if len(split_top(inner)) == 1:
                return ('repeat', parse_operand(parts[0]), parts[1].strip())
        return ('agg', 'array', '[]', None, [parse_operand(x) for x in split_top(inner)])
    if s.startswith('(') and s.endswith(')') and match_paren_back(s) == 0:
        inner = s[1:-1]
        ops = split_top(inner)
        try:
            return ('agg', 'tuple', '()', None, [parse_operand(x) for x in ops])
        except Unparsed:
            pass
    if s == '()':
        return ('agg', 'tuple', '()', None, [])
    # closure / coroutine aggregate:  {closure@..} { cap: op, .. } | {closure@...}  | {async block@..} {..}
    if s.startswith('{'):
        d = 0
        for j, c in enumerate(s):
            if c == '{':
                d += 1
            elif c == '}':
                d -= 1
                if d == 0:
                    break
        head, rest = s[:j + 1], s[j + 1:].strip()
        ops = []
        names = []
        if rest.startswith('{') and rest.endswith('}'):
            for x in split_top(rest[1:-1]):
                if ': ' in x:
                    nm, op = x.split(': ', 1)
                    names.append(nm.strip())
                    ops.append(parse_operand(op))
        return ('agg', 'closure', head, names, ops)
    # struct: Name { f: op, .. }
    m = re.match(r'^([^{(]*?(?:<.*>)?(?:::\w+)*) \{ (.*) \}$', s, re.S)
    if m:
        names, ops = [], []
        for x in split_top(m.group(2)):
            nm, op = x.split(': ', 1)
            names.append(nm.strip())
            ops.append(parse_operand(op))
        return ('agg', 'struct', m.group(1).strip(), names, ops)
    if s.endswith(' { }'):
        return ('agg', 'struct', s[:-4].strip(), [], [])
    # tuple-struct / enum variant:  Path::Variant(op, ..)
    if s.endswith(')'):
        j = match_paren_back(s)
        if j > 0:
            head, inner = s[:j], s[j + 1:-1]
            return ('agg', 'ctor', head.strip(), None, [parse_operand(x) for x in split_top(inner)] if inner.strip() else [])
    # unit variant / unit struct
    if re.fullmatch(r'[\w:<>&\', \[\];()*+=\-#@{}./]+', s):
        return ('agg', 'ctor', s, None, [])
    raise Unparsed('rvalue: ' + s)


# ----------------------------------------------------------------------------- functions
class Fn:
    __slots__ = ('raw', 'name', 'impl_span', 'args', 'ret', 'decl', 'blocks', 'spans', 'key', 'file', 'header', 'cleanup', 'body_span', 'statics')

    def __init__(self, raw, header):
        self.raw, self.header = raw, header
        self.args, self.decl, self.blocks, self.cleanup = [], {}, {}, set()
        self.impl_span = None
        self.key = None
        self.body_span = None      # span of the return place = span of the fn / closure body
        self.statics = []          # (static name, type of the reference) the body refers to


_STMT_SKIP = re.compile(r'^(StorageLive|StorageDead|nop|PlaceMention|FakeRead|AscribeUserType|Retag|Coverage|ConstEvalCounter|'
                        r'BackwardIncompatibleDropHint|Deinit)\b')


def parse_stmt(t):
    if _STMT_SKIP.match(t):
        return ('nop',)
    if t == 'return;':
        return ('return',)
    if t == 'unreachable;':
        return ('unreachable',)
    if t.startswith('resume') or t.startswith('terminate') or t.startswith('abort'):
        return ('resume',)
    if t == 'coroutine_drop;':
        return ('return',)
    m = re.fullmatch(r'goto -> (bb\d+);', t)
    if m:
        return ('goto', m.group(1))
    m = re.fullmatch(r'(?:falseEdge|falseUnwind) -> \[real: (bb\d+),.*\];', t)
    if m:
        return ('goto', m.group(1))
    m = re.fullmatch(r'switchInt\((.*)\) -> \[(.*)\];', t, re.S)
    if m:
        arms = []
        for arm in split_top(m.group(2)):
            k, tgt = [x.strip() for x in arm.rsplit(':', 1)]
            arms.append((None if k == 'otherwise' else int(k), tgt))
        return ('switch', parse_operand(m.group(1)), arms)
    m = re.fullmatch(r'drop\((.*)\) -> \[return: (bb\d+), unwind.*\];', t, re.S)
    if m:
        return ('drop', parse_place(m.group(1)), m.group(2))
    m = re.fullmatch(r'assert\((!?)(.*?), (".*)\) -> \[success: (bb\d+), unwind.*\];', t, re.S)
    if m:
        return ('assert', parse_operand(m.group(2)), m.group(1) != '!', m.group(3), m.group(4))
    m = re.fullmatch(r'discriminant\((.*)\) = (\d+);', t)
    if m:
        return ('setdiscr', parse_place(m.group(1)), int(m.group(2)))
    m = re.fullmatch(r'assume\((.*)\);', t)
    if m:
        return ('assume', parse_operand(m.group(1)))
    # call:  dest = callee(args) -> [return: bbN, unwind ...];   |   dest = callee(args) -> unwind continue;
    k = _assign_pos(t)
    if k < 0:
        raise Unparsed('stmt: ' + t)
    lhs, rest = t[:k], t[k + 3:]
    m = re.fullmatch(r'(.+\)) -> (\[return: (bb\d+), unwind.*\]|unwind .*|bb\d+);', rest, re.S)
    if m:
        dest = lhs
        rhs, _, ret = m.groups()
        j = match_paren_back(rhs)
        callee, inner = rhs[:j].strip(), rhs[j + 1:-1]
        args = [parse_operand(a) for a in split_top(inner)] if inner.strip() else []
        if callee.startswith(('move ', 'copy ')):
            callee = ('indirect', parse_operand(callee))
        return ('call', parse_place(dest), callee, args, ret)
    if rest.endswith(';'):
        return ('assign', parse_place(lhs), parse_rvalue(rest[:-1]))
    raise Unparsed('stmt: ' + t)


def _assign_pos(t):
    """index of the top-level ' = ' of an assignment (types inside the place may contain ' = ')"""
    d = 0
    for i, c in enumerate(t):
        if c in '([{':
            d += 1
        elif c in ')]}':
            d -= 1
        elif c == '<' and not (i > 0 and t[i - 1] == '-'):
            d += 1
        elif c == '>' and not (i > 0 and t[i - 1] in '-='):
            d -= 1
        elif c == ' ' and d == 0 and t[i:i + 3] == ' = ':
            return i
    return -1


class Program:
    def __init__(self):
        self.fns = {}         # raw def name -> [Fn] (duplicates: ctor shims)
        self.by_last = {}     # last path segment -> [Fn]
        self.src_root = None
        self.crate = None
        self._impl_cache = {}
        self._src = {}
        self.consts = {}      # tail name -> constant text (simple consts only)
        self.allocs = {}      # alloc id -> static name
        self.const_fns = {}   # name (impl spans removed) -> Fn for consts/statics/promoteds with a MIR body

    # ---- source access (for impl headers)
    def src_lines(self, rel):
        if rel not in self._src:
            p = os.path.join(self.src_root, rel)
            try:
                with open(p, errors='replace') as f:
                    self._src[rel] = f.read().split('\n')
            except OSError:
                self._src[rel] = []
        return self._src[rel]

    def impl_header(self, span):
        """span 'file:l1:c1: l2:c2' -> (trait or None, self type text)"""
        if span in self._impl_cache:
            return self._impl_cache[span]
        m = re.fullmatch(r'(.*?):(\d+):(\d+): (\d+):(\d+)', span)
        res = (None, None)
        if m:
            f, l1, c1, l2, c2 = m.group(1), *map(int, m.groups()[1:])
            lines = self.src_lines(f)
            if lines and l1 <= len(lines):
                if l1 == l2:
                    text = lines[l1 - 1][c1 - 1:c2 - 1]
                else:
                    text = lines[l1 - 1][c1 - 1:] + ' ' + ' '.join(lines[l1:l2 - 1]) + ' ' + lines[l2 - 1][:c2 - 1]
                text = ' '.join(text.split())
                for cur_, pinned_ in (getattr(self, 'type_ren', None) or {}).items():
                    text = re.sub(r'\b' + re.escape(cur_) + r'\b', pinned_, text)
                mm = re.match(r'^(?:unsafe )?impl\b\s*(<.*)?$', text)
                if text.startswith('impl'):
                    body = text[4:].strip()
                    if body.startswith('<'):
                        d = 0
                        for j, c in enumerate(body):
                            if c == '<':
                                d += 1
                            elif c == '>' and body[j - 1] != '-':
                                d -= 1
                                if d == 0:
                                    break
                        body = body[j + 1:].strip()
                    body = re.split(r'\s+where\s+', body, maxsplit=1)[0].strip()
                    parts = re.split(r'\s+for\s+', body, maxsplit=1)
                    if len(parts) == 2:
                        res = (parts[0].strip(), parts[1].strip())
                    else:
                        res = (None, body.strip())
                else:
                    # derive: the span is the trait name inside `#[derive(..)]`; the self type is the item that follows
                    st = '?derive'
                    for ln in lines[l2 - 1:l2 + 40]:
                        mi = re.search(r'\b(?:struct|enum|union)\s+(\w+)', re.sub(r'//.*', '', ln))
                        if mi and not re.match(r'\s*#', ln):
                            st = mi.group(1)
                            break
                    res = (text.strip(), st)
        self._impl_cache[span] = res
        return res


def type_head(t):
    """last path segment of a type without generics / refs: 'inbound::Timeout<S>' -> 'Timeout'"""
    if t is None:
        return None
    t = t.strip()
    t = re.sub(r'^(&\s*(\'\w+\s+)?(mut\s+)?)+', '', t)
    t = strip_generics(t)
    t = t.strip()
    return t.split('::')[-1].strip()


def load(path, src_root, crate):
    prog = Program()
    prog.src_root, prog.crate = src_root, crate
    with open(path, errors='replace') as f:
        lines = f.read().split('\n')
    i, n = 0, len(lines)
    span_re = re.compile(r'\s*// (?:scope \d+ at |in scope \d+ at |at )?(.*)$')
    while i < n:
        l = lines[i]
        ma = re.match(r'^(alloc\d+) \(static: ([^,)]+)', l)
        if ma:
            prog.allocs[ma.group(1)] = ma.group(2).strip()
        lc = re.sub(r'<impl at .*?:\d+:\d+: \d+:\d+>::', '', l.split(' // ')[0].rstrip()) if l.startswith('const ') else ''
        mc = re.match(r'^const (.*?): ([^=]*) = const (.*);$', lc)
        if mc:
            prog.consts[mc.group(1)] = mc.group(3).strip()
        elif (lc and lc.endswith('= {')) or (l.startswith('static ') and l.split(' // ')[0].rstrip().endswith('= {')):
            if not lc:
                lc = re.sub(r'<impl at .*?:\d+:\d+: \d+:\d+>::', '', l.split(' // ')[0].rstrip())
                lc = 'const ' + re.sub(r'^static (mut )?', '', lc)
            nm = lc[6:].split(': ')[0]
            jj = i + 1
            while jj < n and lines[jj] != '}':
                jj += 1
            cf = _parse_fn('fn ' + nm + '() -> ' + lc[6:].split(': ', 1)[1][:-4].strip() + ' {', lines[i + 1:jj])
            if cf is not None:
                prog.const_fns[nm] = cf
            j = i + 1
            val = None
            cnt = 0
            while j < n and lines[j] != '}':
                mm = re.match(r'^\s+_0 = const (.*?);', lines[j])
                if mm:
                    val = mm.group(1)
                    cnt += 1
                j += 1
            if val is not None and cnt == 1:
                prog.consts[nm] = val.split(' // ')[0].strip()
            i = j
        if l.startswith('fn ') and l.rstrip().endswith('{'):
            header = l
            j = i + 1
            while j < n and lines[j] != '}':
                j += 1
            body = lines[i + 1:j]
            fn = _parse_fn(header, body)
            if fn is not None:
                # statics the body refers to: `const {allocN: &T}` operands, named by the `allocN (static: NAME, ..)` lines printed after the body
                refs = {}
                for bl in body:
                    for mm in re.finditer(r'const \{(alloc\d+): (&[^}]*)\}', bl.split(' // ')[0]):
                        refs[mm.group(1)] = mm.group(2).strip()
                names = {}
                jj = j + 1
                while jj < n and not re.match(r'^(fn |static |const |promoted)', lines[jj]):
                    mm = re.match(r'^(alloc\d+) \(static: ([^,)]+)', lines[jj])
                    if mm:
                        names[mm.group(1)] = mm.group(2).strip()
                    jj += 1
                fn.statics = [(names[a], t) for a, t in refs.items() if a in names]
                prog.fns.setdefault(fn.raw, []).append(fn)
                prog.by_last.setdefault(fn.name.split('::')[-1] if not fn.name.endswith('}') else fn.name, []).append(fn)
            i = j
        i += 1
    return prog


_hdr_re = re.compile(r'^fn (.*?)\((.*)\) -> (.*) \{$')


def _parse_fn(header, body):
    hc = header.split(' // ')[0].rstrip() if ' // ' in header else header
    # name ends at the first '(' that starts the argument list: '(_1: ' or '()'
    k = hc.find('(_1: ')
    if k < 0:
        k = hc.find('() -> ')
        if k < 0:
            return None
    raw = hc[3:k]
    rest = hc[k:]
    j = rest.rfind(') -> ')
    # find matching close paren of arg list
    d = 0
    for idx, c in enumerate(rest):
        if c == '(':
            d += 1
        elif c == ')':
            d -= 1
            if d == 0:
                break
    argtxt, ret = rest[1:idx], rest[idx + 1:].strip()
    ret = re.sub(r'^-> ', '', ret)
    ret = re.sub(r' \{$', '', ret)
    fn = Fn(raw, hc)
    fn.ret = ret.strip()
    for a in split_top(argtxt):
        m = re.match(r'(_\d+): (.*)', a.strip(), re.S)
        if m:
            fn.args.append(m.group(1))
            fn.decl[m.group(1)] = m.group(2).strip()
    fn.decl['_0'] = fn.ret
    m = re.search(r'<impl at (.*?:\d+:\d+: \d+:\d+)>', raw)
    fn.impl_span = m.group(1) if m else None
    fn.name = re.sub(r'<impl at .*?:\d+:\d+: \d+:\d+>', '<impl>', raw)
    fn.file = m.group(1).split(':')[0] if m else None
    cur = None
    for l in body:
        s = l
        span = None
        if ' // ' in s:
            s, c = s.split(' // ', 1)
            mm = re.search(r'at (\S+:\d+:\d+: \d+:\d+)', c)
            span = mm.group(1) if mm else None
        s = s.rstrip()
        if not s.strip():
            continue
        m = re.match(r'\s+let (?:mut )?(_\d+): (.*);$', s)
        if m and cur is None:
            fn.decl[m.group(1)] = m.group(2).strip()
            if m.group(1) == '_0':
                fn.body_span = span
            continue
        m = re.match(r'\s+(bb\d+)( \(cleanup\))?: \{$', s)
        if m:
            cur = m.group(1)
            fn.blocks[cur] = []
            if m.group(2):
                fn.cleanup.add(cur)
            continue
        if cur is None:
            continue
        t = s.strip()
        if t == '}':
            cur = None
            continue
        try:
            st = parse_stmt(t)
        except (Unparsed, ValueError, IndexError) as e:
            st = ('unparsed', t)
        fn.blocks[cur].append((st, span))
    return fn
