"""Contract models for library calls (the trusted base of engine E2, DESIGN.md 1.4).

Each model is `m(ex, p, call, k)`; it calls `k(path, value)` once per outcome (it may fork the
path) or returns NotImplemented to decline."""
import re, z3
from .sym import *
from . import mir as M


def R(pat):
    return re.compile(pat)


def generic_arg(ty, n=0):
    """n-th top-level generic argument of a type text"""
    if not ty:
        return ''
    i = ty.find('<')
    if i < 0 or not ty.rstrip().endswith('>'):
        return ''
    inner = ty[i + 1:ty.rstrip().rfind('>')]
    parts = M.split_top(inner)
    parts = [x for x in parts if not x.startswith("'")]
    return parts[n] if n < len(parts) else ''


# ----------------------------------------------------------------------------- enum splitting
def split_enum(ex, p, v, enum, variants, k, payload_ty=None):
    """variants: list of (name, index, arity).  Calls k(path, name, payload list) per feasible variant."""
    v = ex.deref(p, v) if isinstance(v, Ptr) else v
    if isinstance(v, Agg):
        if v.variant is None:
            raise Unmodelled(f'{enum} expected, got {v!r}')
        return k(p, v.variant, list(v.fields))
    if isinstance(v, Sym):
        d = ex.discriminant(v, 'isize')
        live = []
        for name, idx, arity in variants:
            cond = d == z3.BitVecVal(idx, d.size())
            if ex.feasible(p.pc, cond):
                live.append((name, idx, arity, cond))
        for i, (name, idx, arity, cond) in enumerate(live):
            q = p if i == len(live) - 1 else p.clone()
            if not z3.is_true(z3.simplify(cond)):
                q.pc.append(cond)
            pay = []
            for j in range(arity):
                t = (payload_ty or {}).get(name, [''] * arity)[j] if payload_ty else ''
                pay.append(ex.project(VarView(v, name), ('field', j, t)))
            k(q, name, pay)
        return
    raise Unmodelled(f'{enum} value expected, got {vrepr(v)}')


OPTION = [('None', 0, 0), ('Some', 1, 1)]
RESULT = [('Ok', 0, 1), ('Err', 1, 1)]
POLL = [('Ready', 0, 1), ('Pending', 1, 0)]


def opt_payload_ty(v, call_ty=None):
    t = v.ty if isinstance(v, Sym) else ''
    return {'Some': [generic_arg(t, 0)]}


def res_payload_ty(v):
    t = v.ty if isinstance(v, Sym) else ''
    return {'Ok': [generic_arg(t, 0)], 'Err': [generic_arg(t, 1)]}


def some(x):
    return Agg('Option', 'Some', (x,))


NONE = Agg('Option', 'None', ())


def ok(x):
    return Agg('Result', 'Ok', (x,))


def err(x):
    return Agg('Result', 'Err', (x,))


# ----------------------------------------------------------------------------- simple models
def m_identity(ex, p, call, k):
    k(p, call.args[0])


def m_clone(ex, p, call, k):
    v = call.args[0]
    v = ex.deref(p, v) if isinstance(v, Ptr) else v
    k(p, v)


def m_false(ex, p, call, k):
    k(p, z3.BoolVal(False))


def m_unit(ex, p, call, k):
    k(p, UNIT)


def m_try_branch(ex, p, call, k):
    v = call.args[0]
    is_opt = 'Option' in call.short.split(' as ')[0]
    if is_opt:
        def kk(q, name, pay):
            if name == 'Some':
                k(q, Agg('ControlFlow', 'Continue', (pay[0],)))
            else:
                k(q, Agg('ControlFlow', 'Break', (NONE,)))
        return split_enum(ex, p, v, 'Option', OPTION, kk, opt_payload_ty(v))

    def kk(q, name, pay):
        if name == 'Ok':
            k(q, Agg('ControlFlow', 'Continue', (pay[0],)))
        else:
            k(q, Agg('ControlFlow', 'Break', (err(pay[0]),)))
    split_enum(ex, p, v, 'Result', RESULT, kk, res_payload_ty(v))


def _local_from_impl(ex, target_ty, payload):
    """the crate's own `impl From<E1> for E2` that `?` applies when it turns an Err(E1) into the Err(E2) of the enclosing function
    (E2 = target_ty, E1 = type of the payload), if there is exactly one candidate"""
    e2_ = M.type_head(target_ty or '')
    if not e2_:
        return None
    e1 = payload.name if isinstance(payload, Agg) else (M.type_head(payload.ty) if isinstance(payload, Sym) and payload.ty else None)
    if not e1 or e1 == e2_:
        return None
    cands = {}
    for f in ex.prog.by_last.get('from', []):
        if f.impl_span is None or not f.blocks or '{closure' in f.raw:
            continue
        tr, st = ex.prog.impl_header(f.impl_span)
        if not tr or not tr.startswith('From<') or M.type_head(st) != e2_:
            continue
        if M.type_head(generic_arg(tr, 0)) == e1:
            cands[f.raw] = f
    return next(iter(cands.values())) if len(cands) == 1 else None


def m_from_residual(ex, p, call, k):
    v = call.args[0]
    if isinstance(v, Agg) and v.name == 'Option':
        return k(p, NONE)
    if isinstance(v, Agg) and v.variant == 'Err':
        p.events.append(Event('convert-err', call.short, (v.fields[0],), None, call.span, call.depth))
        conv = _local_from_impl(ex, generic_arg(call.retty or '', 1), v.fields[0]) if 'Result' in (call.retty or '') else None
        if conv is not None and call.depth < ex.max_depth + 2:
            return ex.run_fn(conv, [v.fields[0]], p, call.depth + 1, lambda q, r: k(q, err(r)))
        return k(p, err(v.fields[0]))
    if isinstance(v, Sym):
        return k(p, err(ex.project(VarView(v, 'Err'), ('field', 0, ''))))
    raise Unmodelled(f'from_residual of {vrepr(v)}')


def m_opt_is(ex, p, call, k):
    want = call.short.rsplit('::', 1)[-1]
    v = call.args[0]
    v = ex.deref(p, v) if isinstance(v, Ptr) else v
    table = {'is_some': ('Some', 1), 'is_none': ('None', 0), 'is_ok': ('Ok', 0), 'is_err': ('Err', 1)}
    name, idx = table[want]
    if isinstance(v, Agg):
        return k(p, z3.BoolVal(v.variant == name))
    d = ex.discriminant(v, 'isize')
    k(p, d == z3.BitVecVal(idx, d.size()))


def m_unwrap(ex, p, call, k):
    v = call.args[0]
    enum = 'Result' if 'Result' in call.short else 'Option'

    def kk(q, name, pay):
        if name in ('Some', 'Ok'):
            k(q, pay[0])
        else:
            q.events.append(Event('panic', call.short, (), None, call.span, call.depth))
            ex.end_path(q, 'panic', call.short)
    if enum == 'Option':
        split_enum(ex, p, v, enum, OPTION, kk, opt_payload_ty(v))
    else:
        split_enum(ex, p, v, enum, RESULT, kk, res_payload_ty(v))


def m_unwrap_or(ex, p, call, k):
    v, dflt = call.args[0], call.args[1]

    def kk(q, name, pay):
        k(q, pay[0] if name in ('Some', 'Ok') else dflt)
    if 'Result' in call.short:
        split_enum(ex, p, v, 'Result', RESULT, kk, res_payload_ty(v))
    else:
        split_enum(ex, p, v, 'Option', OPTION, kk, opt_payload_ty(v))


def m_unwrap_or_default(ex, p, call, k):
    """Option/Result::unwrap_or_default: the payload, or `<T as Default>::default()` (dispatched like a call of the program, so that a model or a
    local impl of it applies; integers default to 0)"""
    v = call.args[0]
    ty = (call.retty or '').strip()

    def kk(q, name, pay):
        if name in ('Some', 'Ok'):
            return k(q, pay[0])
        m = re.fullmatch(r'(u|i)(8|16|32|64|128|size)', ty)
        if m:
            return k(q, z3.BitVecVal(0, 64 if m.group(2) == 'size' else int(m.group(2))))
        if ty == 'bool':
            return k(q, z3.BoolVal(False))
        from mirsym.sym import Call
        c = Call(f'<{ty} as Default>::default', [], ty, call.span, call.fn, call.depth, call.frame)
        ex.dispatch(q, c, k)
    if 'Result' in call.short:
        split_enum(ex, p, v, 'Result', RESULT, kk, res_payload_ty(v))
    else:
        split_enum(ex, p, v, 'Option', OPTION, kk, opt_payload_ty(v))


def _closure_apply(ex, p, clo, args, call, k):
    ex.call_closure(p, clo, args, call, k)


def m_bool_then(ex, p, call, k):
    """bool::then(f) / bool::then_some(v): Some(..) iff the receiver is true"""
    b = call.args[0]
    if not (isinstance(b, z3.ExprRef) and z3.is_bool(b)):
        if isinstance(b, z3.ExprRef) and z3.is_bv(b):
            b = b != 0
        else:
            return NotImplemented
    lazy = call.short.rsplit('::', 1)[-1] == 'then'
    for cond, taken in ((b, True), (z3.Not(b), False)):
        if not ex.feasible(p.pc, cond):
            continue
        q = p.clone()
        q.pc.append(cond)
        if not taken:
            k(q, NONE)
        elif lazy:
            ex.call_closure(q, call.args[1], [], call, lambda q2, r: k(q2, some(r)))
        else:
            k(q, some(call.args[1]))


def m_fn_call(ex, p, call, k):
    """<F as FnOnce/FnMut/Fn<Args>>::call_once/call_mut/call(f, (args..)): a callable received as a generic parameter is invoked"""
    clo = call.args[0]
    for _ in range(3):
        if isinstance(clo, Ptr):
            clo = ex.read_loc(p, None, clo.key, clo.projs)
    tup = call.args[1] if len(call.args) > 1 else None
    if isinstance(tup, Agg) and tup.kind == 'tuple':
        args = list(tup.fields)
    elif tup is None:
        args = []
    else:
        return NotImplemented
    if ex.closure_fn(clo) is None and not (isinstance(clo, Const) and '{closure' not in clo.text):
        return NotImplemented
    ex.call_closure(p, clo, args, call, k)


def m_opt_map(ex, p, call, k):
    """Option::map / Result::map / map_err / and_then / unwrap_or_else / ok_or_else / map_or.. with closures"""
    meth = call.short.rsplit('::', 1)[-1]
    v, f = call.args[0], call.args[1]
    is_res = call.short.startswith('Result') or '::Result' in call.short or 'result::Result' in call.short

    def on(q, name, pay):
        good = name in ('Some', 'Ok')
        if meth == 'map':
            if good:
                return _closure_apply(ex, q, f, pay, call, lambda r, x: k(r, Agg('Result' if is_res else 'Option', name, (x,))))
            return k(q, err(pay[0]) if is_res else NONE)
        if meth == 'map_err':
            if good:
                return k(q, ok(pay[0]))
            return _closure_apply(ex, q, f, pay, call, lambda r, x: k(r, err(x)))
        if meth == 'and_then':
            if good:
                return _closure_apply(ex, q, f, pay, call, k)
            return k(q, err(pay[0]) if is_res else NONE)
        if meth == 'unwrap_or_else':
            if good:
                return k(q, pay[0])
            return _closure_apply(ex, q, f, pay if is_res else [], call, k)
        if meth == 'ok_or_else':
            if good:
                return k(q, ok(pay[0]))
            return _closure_apply(ex, q, f, [], call, lambda r, x: k(r, err(x)))
        if meth == 'or_else':
            if good:
                return k(q, Agg('Result' if is_res else 'Option', name, (pay[0],)))
            return _closure_apply(ex, q, f, pay if is_res else [], call, k)
        if meth == 'filter':
            if not good:
                return k(q, NONE)
            cell = ('H', f'filt{q.seq("filt")}', '')
            q.mem[cell] = pay[0]

            def after(r, b):
                if ex.feasible(r.pc, b):
                    r1 = r.clone()
                    r1.pc.append(b)
                    k(r1, some(pay[0]))
                if ex.feasible(r.pc, z3.Not(b)):
                    r.pc.append(z3.Not(b))
                    k(r, NONE)
            return _closure_apply(ex, q, f, [Ptr(cell)], call, after)
        if meth in ('is_some_and', 'is_ok_and'):
            if good:
                return _closure_apply(ex, q, f, pay, call, k)
            return k(q, z3.BoolVal(False))
        if meth == 'is_none_or':
            if good:
                return _closure_apply(ex, q, f, pay, call, k)
            return k(q, z3.BoolVal(True))
        if meth == 'is_err_and':
            if good:
                return k(q, z3.BoolVal(False))
            return _closure_apply(ex, q, f, pay, call, k)
        raise Unmodelled(meth)
    if is_res:
        split_enum(ex, p, v, 'Result', RESULT, on, res_payload_ty(v))
    else:
        split_enum(ex, p, v, 'Option', OPTION, on, opt_payload_ty(v))


def m_map_or(ex, p, call, k):
    """Option/Result::map_or(default, f) / map_or_else(default_fn, f)"""
    meth = call.short.rsplit('::', 1)[-1]
    v, d, f = call.args[0], call.args[1], call.args[2]
    is_res = 'Result' in call.short

    def on(q, name, pay):
        if name in ('Some', 'Ok'):
            return _closure_apply(ex, q, f, pay, call, k)
        if meth == 'map_or':
            return k(q, d)
        return _closure_apply(ex, q, d, pay if is_res else [], call, k)
    if is_res:
        split_enum(ex, p, v, 'Result', RESULT, on, res_payload_ty(v))
    else:
        split_enum(ex, p, v, 'Option', OPTION, on, opt_payload_ty(v))


def m_opt_or(ex, p, call, k):
    """Option::or(a, b) / Option::and(a, b) / Result::or / Result::and (eager variants)"""
    meth = call.short.rsplit('::', 1)[-1]
    a, b = call.args[0], call.args[1]
    is_res = 'Result' in call.short

    def on(q, name, pay):
        good = name in ('Some', 'Ok')
        if meth == 'or':
            return k(q, (Agg('Result' if is_res else 'Option', name, (pay[0],)) if good else b))
        return k(q, b if good else (err(pay[0]) if is_res else NONE))
    if is_res:
        split_enum(ex, p, a, 'Result', RESULT, on, res_payload_ty(a))
    else:
        split_enum(ex, p, a, 'Option', OPTION, on, opt_payload_ty(a))


def m_ok_or(ex, p, call, k):
    v, e = call.args[0], call.args[1]
    split_enum(ex, p, v, 'Option', OPTION, lambda q, n, pay: k(q, ok(pay[0]) if n == 'Some' else err(e)), opt_payload_ty(v))


def m_res_ok(ex, p, call, k):
    v = call.args[0]
    split_enum(ex, p, v, 'Result', RESULT, lambda q, n, pay: k(q, some(pay[0]) if n == 'Ok' else NONE), res_payload_ty(v))


def m_res_err(ex, p, call, k):
    v = call.args[0]
    split_enum(ex, p, v, 'Result', RESULT, lambda q, n, pay: k(q, some(pay[0]) if n == 'Err' else NONE), res_payload_ty(v))


def m_opt_asref(ex, p, call, k):
    v = call.args[0]
    inner = ex.deref(p, v) if isinstance(v, Ptr) else v

    def on(q, name, pay):
        if name == 'None':
            return k(q, NONE)
        cell = ('H', f'asref{q.seq("asref")}', '')
        q.mem[cell] = pay[0]
        k(q, some(Ptr(cell, (), 'mut' in call.short)))
    split_enum(ex, p, inner, 'Option', OPTION, on, opt_payload_ty(inner))


def m_opt_cloned(ex, p, call, k):
    v = call.args[0]
    split_enum(ex, p, v, 'Option', OPTION, lambda q, n, pay: k(q, some(ex.deref(q, pay[0])) if n == 'Some' else NONE), opt_payload_ty(v))


def scalar(ex, p, v):
    v = ex.deref(p, v)
    return v


def m_cmp(ex, p, call, k):
    """PartialEq/PartialOrd on scalars (and references to scalars)"""
    meth = call.short.rsplit('::', 1)[-1]
    if isinstance(call.callee, str):
        f_ = ex.resolve(call.callee)
        if f_ is not None and f_.blocks and not ex.is_derived(f_):
            return NotImplemented        # a hand-written PartialEq/PartialOrd impl of the crate: execute it
        if f_ is None and meth in ('lt', 'le', 'gt', 'ge'):
            # provided methods of PartialOrd: defined by the type's own partial_cmp when that is hand-written
            pc_name = re.sub(r'::' + meth + r'$', '::partial_cmp', call.callee)
            g_ = ex.resolve(pc_name)
            if g_ is not None and g_.blocks and not ex.is_derived(g_):
                def after(q, o):
                    # o: Option<Ordering>; Ordering = Less(-1) | Equal(0) | Greater(1)
                    ordv = o.fields[0] if isinstance(o, Agg) and o.variant == 'Some' else None
                    if ordv is None:
                        return ex.opaque_call(q, call, k)
                    if isinstance(ordv, Agg) and ordv.variant in ('Less', 'Equal', 'Greater'):
                        d = {'Less': -1, 'Equal': 0, 'Greater': 1}[ordv.variant]
                        return k(q, z3.BoolVal({'lt': d < 0, 'le': d <= 0, 'gt': d > 0, 'ge': d >= 0}[meth]))
                    dv = ex.discriminant(ordv, 'i8') if isinstance(ordv, Sym) else ordv
                    if isinstance(dv, z3.ExprRef) and z3.is_bv(dv):
                        z = z3.BitVecVal(0, dv.size())
                        return k(q, {'lt': dv < z, 'le': dv <= z, 'gt': dv > z, 'ge': dv >= z}[meth])
                    return ex.opaque_call(q, call, k)
                return ex.run_fn(g_, call.args, p, call.depth + 1, after)
    a, b = scalar(ex, p, call.args[0]), scalar(ex, p, call.args[1])
    if isinstance(a, Str) and isinstance(b, Str) and meth in ('eq', 'ne'):
        return k(p, z3.BoolVal((a.s == b.s) == (meth == 'eq')))
    if not (isinstance(a, z3.ExprRef) and isinstance(b, z3.ExprRef)) and meth in ('eq', 'ne') and re.search(r'<(\w+::)*Option as PartialEq>', call.short):
        # Option<scalar> == Option<scalar>: same variant and, for Some, equal payloads
        def as_opt(v):
            if isinstance(v, Agg) and v.name == 'Option':
                return (z3.BoolVal(v.variant == 'Some'), ex.deref(p, v.fields[0]) if v.variant == 'Some' and isinstance(v.fields[0], Ptr) else (v.fields[0] if v.variant == 'Some' else None))
            if isinstance(v, Sym):
                d = ex.discriminant(v, 'isize')
                return (d == z3.BitVecVal(1, d.size()), ex.project(VarView(v, 'Some'), ('field', 0, generic_arg(v.ty, 0) or '')))
            return None
        oa, ob = as_opt(a), as_opt(b)
        if oa is not None and ob is not None:
            pa, pb = oa[1], ob[1]
            both = z3.And(oa[0], ob[0])
            if pa is None or pb is None:
                e = oa[0] == ob[0]
            elif isinstance(pa, z3.ExprRef) and isinstance(pb, z3.ExprRef) and pa.sort() == pb.sort():
                e = z3.And(oa[0] == ob[0], z3.Implies(both, pa == pb))
            else:
                e = None
            if e is not None:
                return k(p, e if meth == 'eq' else z3.Not(e))
    if not (isinstance(a, z3.ExprRef) and isinstance(b, z3.ExprRef)):
        if meth in ('eq', 'ne') and (not isinstance(call.callee, str) or ex.resolve(call.callee) is None):
            # equality of two opaque values (no crate-local impl to execute): an uninterpreted predicate named after the
            # (fully dereferenced) operands
            def nm(v):
                for _ in range(4):
                    if isinstance(v, Ptr):
                        try:
                            v = ex.read_loc(p, None, v.key, v.projs)
                        except Unmodelled:
                            break
                return vname(v)
            na, nb = sorted((nm(call.args[0]), nm(call.args[1])))
            c = z3.Bool(f'eq({na},{nb})')
            p.events.append(Event('call', call.short, call.args, c, call.span, call.depth))
            return k(p, c if meth == 'eq' else z3.Not(c))
        return NotImplemented
    if z3.is_bv(a) and z3.is_bv(b) and a.size() == b.size():
        signed = False
        tbl = {'eq': a == b, 'ne': a != b, 'lt': z3.ULT(a, b), 'le': z3.ULE(a, b), 'gt': z3.UGT(a, b), 'ge': z3.UGE(a, b)}
    elif a.sort() == b.sort() and (z3.is_int(a) or z3.is_string(a) or z3.is_bool(a)):
        if z3.is_int(a):
            tbl = {'eq': a == b, 'ne': a != b, 'lt': a < b, 'le': a <= b, 'gt': a > b, 'ge': a >= b}
        else:
            tbl = {'eq': a == b, 'ne': a != b}
    else:
        return NotImplemented
    if meth not in tbl:
        return NotImplemented
    k(p, tbl[meth])


def m_minmax(ex, p, call, k):
    meth = call.short.rsplit('::', 1)[-1]
    a, b = scalar(ex, p, call.args[0]), scalar(ex, p, call.args[1])
    if not (isinstance(a, z3.ExprRef) and isinstance(b, z3.ExprRef)):
        return NotImplemented
    if z3.is_bv(a):
        le = z3.ULE(a, b)
    else:
        le = a <= b
    # std: min(a,b) returns a when equal; max(a,b) returns b when equal
    k(p, z3.If(le, a, b) if meth == 'min' else z3.If(le, b, a))


def m_clamp(ex, p, call, k):
    """Ord::clamp(x, lo, hi) on unsigned machine integers (std panics when lo > hi)"""
    a, lo, hi = (scalar(ex, p, v) for v in call.args[:3])
    if not (isinstance(a, z3.ExprRef) and z3.is_bv(a)):
        return NotImplemented
    # a bound given as a named constant of another crate (`Semaphore::MAX_PERMITS`): its value is not in the MIR - an unconstrained constant
    named = any(isinstance(v, Const) for v in (lo, hi))
    lo, hi = (z3.BitVec('const:' + v.text.strip(), a.size()) if isinstance(v, Const) else v for v in (lo, hi))
    if not all(isinstance(v, z3.ExprRef) and z3.is_bv(v) for v in (lo, hi)) or not (a.size() == lo.size() == hi.size()):
        return NotImplemented
    if call.argops and is_signed(ex.operand_type(call.frame, call.argops[0])):
        return NotImplemented
    bad = z3.UGT(lo, hi)
    if not named and ex.feasible(p.pc, bad):     # (a named constant as a bound is assumed to make a valid range)
        q = p.clone()
        q.pc.append(bad)
        q.events.append(Event('panic', call.short, (), None, call.span, call.depth))
        ex.end_path(q, 'panic', call.short)
    p.pc.append(z3.Not(bad))
    k(p, z3.If(z3.ULT(a, lo), lo, z3.If(z3.UGT(a, hi), hi, a)))


def m_str_boundary_op(ex, p, call, k):
    """String::truncate(n) / String::split_off(n) / str::split_at(n) / String::insert(_str)(n, ..) / String::remove(n) / drain/replace_range: std panics when the byte offset is inside the string
    but not on a char boundary (and, except for truncate, when it is past the end).  The content of the string is unknown to the executor, so
    unless the offset is provably 0 the panic branch is feasible: it is forked, with the condition recorded."""
    meth = call.short.rsplit('::', 1)[-1]
    n = scalar(ex, p, call.args[1]) if len(call.args) > 1 else None
    if not (isinstance(n, z3.ExprRef) and z3.is_bv(n)):
        return NotImplemented
    if not ex.feasible(p.pc, n != 0):
        return NotImplemented
    s = call.args[0]
    sv = ex.deref(p, s) if isinstance(s, Ptr) else s
    nb = z3.Bool(f'char_boundary({vname(sv)},{n})')
    q = p.clone()
    q.pc += [n != 0, z3.Not(nb)]
    q.events.append(Event('panic', call.short, (sv, n), None, call.span, call.depth, 'not a char boundary'))
    ex.end_path(q, 'panic', call.short + ': byte offset is not a char boundary')
    p.pc.append(z3.Or(n == 0, nb))
    ex.opaque_call(p, call, k)


def m_int_method(ex, p, call, k):
    meth = call.short.rsplit('::', 1)[-1]
    a = scalar(ex, p, call.args[0])
    if not (isinstance(a, z3.ExprRef) and z3.is_bv(a)):
        return NotImplemented
    signed = is_signed(ex.operand_type(call.frame, call.argops[0])) if call.argops else False
    if len(call.args) > 1:
        b = scalar(ex, p, call.args[1])
        if not (isinstance(b, z3.ExprRef) and z3.is_bv(b)) or b.size() != a.size():
            return NotImplemented
    if meth == 'saturating_sub' and not signed:
        return k(p, z3.If(z3.UGE(a, b), a - b, z3.BitVecVal(0, a.size())))
    if meth == 'saturating_add' and not signed:
        return k(p, z3.If(z3.BVAddNoOverflow(a, b, False), a + b, z3.BitVecVal(-1, a.size())))
    if meth == 'wrapping_add':
        return k(p, a + b)
    if meth == 'wrapping_sub':
        return k(p, a - b)
    if meth == 'checked_add' and not signed:
        c = z3.BVAddNoOverflow(a, b, False)
        q = p.clone()
        if ex.feasible(p.pc, c):
            p.pc.append(c)
            k(p, some(a + b))
        if ex.feasible(q.pc, z3.Not(c)):
            q.pc.append(z3.Not(c))
            k(q, NONE)
        return
    return NotImplemented


def m_deref(ex, p, call, k):
    """<T as Deref>::deref for smart pointers / guards we do not inline: a stable cell per pointer"""
    v = call.args[0]
    inner = ex.read_loc(p, None, v.key, v.projs) if isinstance(v, Ptr) else v
    if isinstance(inner, Ptr):
        return k(p, inner)
    if isinstance(inner, Sym) and isinstance(inner.get_ov('items'), Agg) and 'deref_mut' not in call.short:
        cell = ('H', inner.name + f'.items{len(inner.get_ov("items").fields)}', '')
        p.mem[cell] = inner.get_ov('items')
        return k(p, Ptr(cell, (), False))
    pt, _ = pointee(call.retty)
    nm = vname(inner)
    k(p, Ptr(('H', nm + '.deref', pt or ''), (), 'deref_mut' in call.short, pt or ''))


def m_mem_replace(ex, p, call, k):
    ptr, new = call.args[0], call.args[1]
    old = ex.deref(p, ptr)
    ex.store(p, ptr, new)
    k(p, old)


def m_mem_swap(ex, p, call, k):
    a, b = call.args[0], call.args[1]
    if not (isinstance(a, Ptr) and isinstance(b, Ptr)):
        return NotImplemented
    va, vb = ex.deref(p, a), ex.deref(p, b)
    ex.store(p, a, vb)
    ex.store(p, b, va)
    k(p, UNIT)


def m_mem_take(ex, p, call, k):
    ptr = call.args[0]
    old = ex.deref(p, ptr)
    ex.store(p, ptr, Sym(f'default({vname(old)})', getattr(old, 'ty', '')))
    k(p, old)


def m_opt_take(ex, p, call, k):
    ptr = call.args[0]
    old = ex.deref(p, ptr)
    ex.store(p, ptr, NONE)
    k(p, old)


def m_drop_fn(ex, p, call, k):
    p.events.append(Event('drop', 'mem::drop', (call.args[0],), None, call.span, call.depth))
    k(p, UNIT)


# ----------------------------------------------------------------------------- futures
def poll_ready_ty(retty):
    return generic_arg(retty, 0)


def m_read_exact(ex, p, call, k):
    """AsyncReadExt::read_exact(reader, buf): the future remembers the buffer; its completion fills it (m_poll)"""
    n = p.seq('read_exact')
    k(p, Sym(f'read_exact#{n}', 'ReadExact').with_ov('rx_buf', call.args[1]).with_ov('rx_reader', call.args[0]))


def _poll_read_exact(ex, p, call, k, fut):
    """Ready(Ok(n)) with every byte of the buffer replaced by a fresh symbolic byte | Ready(Err) | Pending"""
    buf = fut.get_ov('rx_buf')
    tgt = buf
    while isinstance(tgt, Ptr) and isinstance(ex.read_loc(p, None, tgt.key, tgt.projs), Ptr):
        tgt = ex.read_loc(p, None, tgt.key, tgt.projs)
    cur = as_array(ex, p, tgt) if isinstance(tgt, Ptr) else None
    if cur is None:
        return False
    n = len(cur.fields)
    q, r = p.clone(), p.clone()
    ex.store(p, tgt, Agg('[]', None, [z3.BitVec(f'{fut.name}.b{i}', 8) for i in range(n)], 'array'))
    p.events.append(Event('poll', call.short, (fut,), Agg('Poll', 'Ready', (ok(z3.BitVecVal(n, 64)),)), call.span, call.depth))
    k(p, Agg('Poll', 'Ready', (ok(z3.BitVecVal(n, 64)),)))
    e = ex.fresh(f'poll({fut.name})@Err.0', 'std::io::Error')
    q.events.append(Event('poll', call.short, (fut,), Agg('Poll', 'Ready', (err(e),)), call.span, call.depth))
    k(q, Agg('Poll', 'Ready', (err(e),)))
    if getattr(ex, 'explore_pending', True):
        r.events.append(Event('poll', call.short, (fut,), Agg('Poll', 'Pending', ()), call.span, call.depth))
        k(r, Agg('Poll', 'Pending', ()))
    return True


def m_poll_opaque(ex, p, call, k):
    """like m_poll, but a hand-written `impl Future` of the crate is not entered: its outcome is a symbolic Poll<T>"""
    return m_poll(ex, p, call, k, enter_local_impls=False)


def m_poll(ex, p, call, k, enter_local_impls=True):
    """<F as Future>::poll: crate-local coroutines are executed; any other future is a fresh
    symbolic Poll<T> (the schedule is a symbolic variable): Ready(value) | Pending."""
    pin = call.args[0]
    fut = ex.deref(p, pin) if isinstance(pin, Ptr) else pin
    if isinstance(fut, Agg) and fut.fields and isinstance(fut.fields[0], Ptr):
        pin = fut.fields[0]
        fut = ex.deref(p, pin)
    if isinstance(fut, Sym) and fut.get_ov('rx_buf') is not None and _poll_read_exact(ex, p, call, k, fut):
        return
    if enter_local_impls and isinstance(call.callee, str) and call.depth < ex.max_depth and getattr(ex, 'inline_coroutines', True):
        g = ex.resolve(call.callee)
        if g is not None and g.blocks and '{closure' not in g.raw:
            return NotImplemented        # a hand-written `impl Future for T` of this crate: execute its poll
    f = ex.closure_fn(fut) if isinstance(fut, Sym) else None
    if f is not None and call.depth < ex.max_depth and getattr(ex, 'inline_coroutines', True):
        p.events.append(Event('enter', 'poll:' + f.name, (fut,), None, call.span, call.depth))

        def after(q, ret):
            q.events.append(Event('leave', 'poll:' + f.name, (), ret, call.span, call.depth))
            k(q, ret)
        return ex.run_fn(f, [pin, call.args[1]], p, call.depth + 1, after)
    tname = f'poll({vname(fut)})'
    n = p.seq(tname)
    ty = poll_ready_ty(call.retty)
    q = p.clone()
    val = ex.fresh(f'{tname}#{n}', ty)
    p.events.append(Event('poll', call.short, (fut,), Agg('Poll', 'Ready', (val,)), call.span, call.depth))
    k(p, Agg('Poll', 'Ready', (val,)))
    if getattr(ex, 'explore_pending', True):
        q.events.append(Event('poll', call.short, (fut,), Agg('Poll', 'Pending', ()), call.span, call.depth))
        k(q, Agg('Poll', 'Pending', ()))


# ----------------------------------------------------------------------------- hash maps (fork-based finite map model)
def _map_get(ex, p, mapv, key, k_found, k_absent):
    """iterate overrides newest first, then the initial contents"""
    ovs = mapv.get_ov('map') or ()
    _map_walk(ex, p, mapv, list(reversed(ovs)), key, k_found, k_absent)


def _keq(ex, a, b):
    if isinstance(a, Str) and isinstance(b, Str):
        return z3.BoolVal(a.s == b.s)
    if isinstance(a, z3.ExprRef) and isinstance(b, z3.ExprRef) and a.sort() == b.sort():
        return a == b
    if vname(a) == vname(b):
        return z3.BoolVal(True)
    return z3.Bool(f'keyeq({vname(a)},{vname(b)})')


def _map_walk(ex, p, mapv, ovs, key, k_found, k_absent):
    if not ovs:
        has = map_has_initial(mapv, key)
        vt = generic_arg(mapv.ty, 1)
        if ex.feasible(p.pc, has):
            q = p.clone()
            q.pc.append(has)
            k_found(q, ex.fresh(f'{mapv.name}[{vname(key)}]', vt))
        if ex.feasible(p.pc, z3.Not(has)):
            p.pc.append(z3.Not(has))
            k_absent(p)
        return
    (k0, v0), rest = ovs[0], ovs[1:]
    eq = _keq(ex, key, k0)
    if ex.feasible(p.pc, eq):
        q = p.clone()
        if not z3.is_true(z3.simplify(eq)):
            q.pc.append(eq)
        if v0 is None:
            k_absent(q)
        else:
            k_found(q, v0)
    if ex.feasible(p.pc, z3.Not(eq)):
        p.pc.append(z3.Not(eq))
        _map_walk(ex, p, mapv, rest, key, k_found, k_absent)


def m_map_new(ex, p, call, k):
    """HashMap/BTreeMap/HashSet::new() / with_capacity(): a fresh, empty finite map"""
    short = call.short.split('::')[-2] if '::' in call.short else 'Map'
    k(p, Sym(f'new()#{p.seq("new()")}', call.retty or short).with_ov('empty', True))


def map_has_initial(mapv, key):
    if isinstance(mapv, Sym) and mapv.get_ov('empty'):
        return z3.BoolVal(False)
    if isinstance(key, z3.ExprRef):
        f = z3.Function(f'has<{mapv.name}>', key.sort(), z3.BoolSort())
        return f(key)
    return z3.Bool(f'has<{mapv.name}>({vname(key)})')


def map_present_expr(ex, mapv, key):
    """presence as one boolean expression (no forking)"""
    e = map_has_initial(mapv, key)
    for k0, v0 in (mapv.get_ov('map') or ()):
        e = z3.If(_keq(ex, key, k0), z3.BoolVal(v0 is not None), e)
    return e


def _map_of(ex, p, ptr):
    m = ex.deref(p, ptr)
    if not isinstance(m, Sym):
        raise Unmodelled(f'map expected, got {vrepr(m)}')
    return m


def _map_set(ex, p, ptr, mapv, key, val, call, op):
    new = mapv.with_ov('map', (mapv.get_ov('map') or ()) + ((key, val),))
    ex.store(p, ptr, new)
    p.events.append(Event('map', op, (Str(mapv.name), key) + ((val,) if val is not None else ()), None, call.span, call.depth))


def m_map_entry(ex, p, call, k):
    ptr, key = call.args[0], ex.deref(p, call.args[1]) if isinstance(call.args[1], Ptr) else call.args[1]
    mapv = _map_of(ex, p, ptr)
    _map_get(ex, p, mapv, key,
             lambda q, val: k(q, Agg('Entry', 'Occupied', (Agg('OccupiedEntry', None, (ptr, key, val)),))),
             lambda q: k(q, Agg('Entry', 'Vacant', (Agg('VacantEntry', None, (ptr, key)),))))


def _entry(ex, p, v):
    e = ex.deref(p, v) if isinstance(v, Ptr) else v
    if not isinstance(e, Agg):
        raise Unmodelled(f'entry expected: {vrepr(e)}')
    return e


def m_occ_get(ex, p, call, k):
    e = _entry(ex, p, call.args[0])
    cell = ('H', f'entry-val{p.seq("entryval")}', '')
    p.mem[cell] = e.fields[2]
    mut = 'mut' in call.short.rsplit('::', 1)[-1]
    if mut:
        # writes through the returned `&mut V` replace the stored value: remembered so that effect lists can show them
        try:
            mname = _map_of(ex, p, e.fields[0]).name
        except Exception:
            mname = '?'
        p.events.append(Event('entry-cell', mname, (e.fields[1], Ptr(cell, (), True), e.fields[2]), None, call.span, call.depth))
    k(p, Ptr(cell, (), mut))


def m_entry_key(ex, p, call, k):
    """OccupiedEntry::key / VacantEntry::key / Entry::key (&K), VacantEntry::into_key (K): the key the entry was looked up under"""
    e = _entry(ex, p, call.args[0])
    if e.name == 'Entry':
        e = e.fields[0]
    key = e.fields[1]
    if call.short.endswith('into_key'):
        return k(p, key)
    cell = ('H', f'entry-key{p.seq("entrykey")}', '')
    p.mem[cell] = key
    k(p, Ptr(cell, (), False))


def m_occ_insert(ex, p, call, k):
    e = _entry(ex, p, call.args[0])
    ptr, key, old = e.fields
    mapv = _map_of(ex, p, ptr)
    _map_set(ex, p, ptr, mapv, key, call.args[1], call, 'insert')
    if isinstance(call.args[0], Ptr):
        ex.store(p, call.args[0], Agg('OccupiedEntry', None, (ptr, key, call.args[1])))
    k(p, old)


def m_occ_remove_entry(ex, p, call, k):
    e = _entry(ex, p, call.args[0])
    ptr, key, old = e.fields
    mapv = _map_of(ex, p, ptr)
    _map_set(ex, p, ptr, mapv, key, None, call, 'remove')
    if call.short.endswith('remove_entry'):
        k(p, Agg('()', None, (key, old), 'tuple'))
    else:
        k(p, old)


def m_vac_insert(ex, p, call, k):
    e = _entry(ex, p, call.args[0])
    ptr, key = e.fields[0], e.fields[1]
    mapv = _map_of(ex, p, ptr)
    _map_set(ex, p, ptr, mapv, key, call.args[1], call, 'insert')
    cell = ('H', f'entry-val{p.seq("entryval")}', '')
    p.mem[cell] = call.args[1]
    p.events.append(Event('entry-cell', mapv.name, (key, Ptr(cell, (), True)), None, call.span, call.depth))
    k(p, Ptr(cell, (), True))


def m_prim_default(ex, p, call, k):
    """<u8|..|bool as Default>::default() = 0 / false"""
    m = re.match(r'^<(\w+) as Default>::default$', call.short)
    t = m.group(1) if m else ''
    if t == 'bool':
        return k(p, z3.BoolVal(False))
    w = int_width(t)
    if w:
        return k(p, z3.BitVecVal(0, w))
    return NotImplemented


def m_int_try_from(ex, p, call, k):
    """<uN as TryFrom<uM>>::try_from / <uM as TryInto<uN>>::try_into between unsigned machine integers"""
    a = call.args[0]
    tgt = (generic_arg(call.retty, 0) or '').strip()
    w = int_width(tgt)
    if not (isinstance(a, z3.ExprRef) and z3.is_bv(a)) or w is None or is_signed(tgt):
        return NotImplemented
    m = re.match(r'<(\w+) as Try(From|Into)>', call.short)
    src = m.group(1) if m and m.group(2) == 'Into' else None
    if src is not None and is_signed(src):
        return NotImplemented
    if m and m.group(2) == 'From' and 'TryFrom<i' in (call.callee if isinstance(call.callee, str) else ''):
        return NotImplemented
    sw = a.size()
    if w >= sw:
        val = z3.ZeroExt(w - sw, a) if w > sw else a
        return k(p, ok(val))
    fits = z3.ULE(a, z3.BitVecVal((1 << w) - 1, sw))
    r = Sym(f'tryinto{p.seq("tryinto")}', call.retty).with_ov('discr', z3.If(fits, z3.BitVecVal(0, 64), z3.BitVecVal(1, 64))).with_ov(('v', 'Ok', 0), z3.Extract(w - 1, 0, a))
    k(p, r)


def m_entry_and_modify(ex, p, call, k):
    """Entry::and_modify(f): f(&mut value) on an occupied entry (updated in place), vacant entries unchanged"""
    e = _entry(ex, p, call.args[0])
    if e.name != 'Entry':
        return NotImplemented
    if e.variant == 'Vacant':
        return k(p, e)
    occ = e.fields[0]
    ptr, key, val = occ.fields
    cell = ('H', f'entry-val{p.seq("entryval")}', '')
    p.mem[cell] = val

    def after(q, _ret):
        k(q, Agg('Entry', 'Occupied', (Agg('OccupiedEntry', None, (ptr, key, q.mem.get(cell, val))),)))
    ex.call_closure(p, call.args[1], [Ptr(cell, (), True)], call, after)


def m_entry_or_insert(ex, p, call, k):
    """Entry::or_insert(v) / or_insert_with(f) / or_default(): &mut to the (possibly just inserted) value"""
    e = _entry(ex, p, call.args[0])
    if e.name != 'Entry':
        return NotImplemented
    meth = call.short.rsplit('::', 1)[-1]
    if e.variant == 'Occupied':
        cell = ('H', f'entry-val{p.seq("entryval")}', '')
        p.mem[cell] = e.fields[0].fields[2]
        return k(p, Ptr(cell, (), True))
    ptr, key = e.fields[0].fields[0], e.fields[0].fields[1]

    def put(q, val):
        mv = _map_of(ex, q, ptr)
        _map_set(ex, q, ptr, mv, key, val, call, 'insert')
        cell = ('H', f'entry-val{q.seq("entryval")}', '')
        q.mem[cell] = val
        # the returned `&mut V` aliases the stored value: later writes through it are the entry's final value
        q.events.append(Event('entry-cell', mv.name, (key, Ptr(cell, (), True)), None, call.span, call.depth))
        k(q, Ptr(cell, (), True))
    if meth == 'or_insert':
        return put(p, call.args[1])
    if meth == 'or_insert_with':
        return ex.call_closure(p, call.args[1], [], call, put)
    return put(p, ex.fresh(f'default()#{p.seq("default")}', generic_arg(_map_of(ex, p, ptr).ty, 1) or ''))


def m_map_insert(ex, p, call, k):
    ptr, key, val = call.args
    mapv = _map_of(ex, p, ptr)

    def found(q, old):
        _map_set(ex, q, ptr, _map_of(ex, q, ptr), key, val, call, 'insert')
        k(q, some(old))

    def absent(q):
        _map_set(ex, q, ptr, _map_of(ex, q, ptr), key, val, call, 'insert')
        k(q, NONE)
    _map_get(ex, p, mapv, key, found, absent)


def m_map_remove(ex, p, call, k):
    ptr = call.args[0]
    key = ex.deref(p, call.args[1])
    mapv = _map_of(ex, p, ptr)

    def found(q, old):
        _map_set(ex, q, ptr, _map_of(ex, q, ptr), key, None, call, 'remove')
        k(q, some(old))
    _map_get(ex, p, mapv, key, found, lambda q: k(q, NONE))


def m_map_get(ex, p, call, k):
    ptr = call.args[0]
    key = ex.deref(p, call.args[1])
    mapv = _map_of(ex, p, ptr)

    def found(q, val):
        cell = ('H', f'map-val{q.seq("mapval")}', '')
        q.mem[cell] = val
        k(q, some(Ptr(cell, (), 'get_mut' in call.short)))
    _map_get(ex, p, mapv, key, found, lambda q: k(q, NONE))


def m_map_contains(ex, p, call, k):
    ptr = call.args[0]
    key = ex.deref(p, call.args[1])
    mapv = _map_of(ex, p, ptr)
    k(p, map_present_expr(ex, mapv, key))


def m_map_len(ex, p, call, k):
    mapv = _map_of(ex, p, call.args[0])
    k(p, z3.BitVec(f'len<{mapv.name}>', 64))


def m_map_is_empty(ex, p, call, k):
    mapv = _map_of(ex, p, call.args[0])
    k(p, z3.BitVec(f'len<{mapv.name}>', 64) == 0)


# ----------------------------------------------------------------------------- registry
GLOBAL_MODELS = [
    (R(r'^<Level as PartialOrd>::le$'), m_false),
    (R(r' as Clone>::clone$'), m_clone),
    (R(r' as Try>::branch$'), m_try_branch),
    (R(r' as FromResidual>::from_residual$'), m_from_residual),
    (R(r'(Option|Result)::(is_some|is_none|is_ok|is_err)$'), m_opt_is),
    (R(r'(Option|Result)::(unwrap|expect)$'), m_unwrap),
    (R(r'(Option|Result)::unwrap_or$'), m_unwrap_or),
    (R(r'(Option|Result)::unwrap_or_default$'), m_unwrap_or_default),
    (R(r'(Option|Result)::(map|map_err|and_then|unwrap_or_else|ok_or_else|or_else|filter|is_some_and|is_ok_and|is_none_or|is_err_and)$'), m_opt_map),
    (R(r'(Option|Result)::(map_or|map_or_else)$'), m_map_or),
    (R(r'Option::ok_or$'), m_ok_or),
    (R(r'(Option|Result)::(or|and)$'), m_opt_or),
    (R(r'Result::ok$'), m_res_ok),
    (R(r'Result::err$'), m_res_err),
    (R(r'Option::(as_ref|as_mut|as_pin_mut|as_pin_ref|as_deref|as_deref_mut)$'), m_opt_asref),
    (R(r'Option::(cloned|copied)$'), m_opt_cloned),
    (R(r'Option::take$'), m_opt_take),
    (R(r'bool::then(_some)?(::<.*>)?$'), m_bool_then),
    (R(r' as (FnOnce|FnMut|Fn)(<.*>)?>::(call_once|call_mut|call)$'), m_fn_call),
    (R(r' as (PartialEq|PartialOrd)>::(eq|ne|lt|le|gt|ge)$'), m_cmp),
    (R(r'(^|::)(min|max)$| as Ord>::(min|max)$'), m_minmax),
    (R(r' as Ord>::clamp$|(^|::)(usize|u64|u32|u16|u8)::clamp$'), m_clamp),
    (R(r'(^|::)String::(truncate|split_off|insert|insert_str|remove)$|(^|::)str::(split_at|split_at_mut)$'), m_str_boundary_op),
    (R(r'(^|::)num::\w+$'), m_int_method),
    (R(r' as IntoFuture>::into_future$'), m_identity),
    (R(r'Pin::new(_unchecked)?$|Pin::(as_mut|get_mut|get_unchecked_mut|into_inner|get_ref)$|convert::identity$|^identity$'), m_identity),
    (R(r' as Future>::poll$'), m_poll),
    (R(r'AsyncReadExt>::read_exact$'), m_read_exact),
    (R(r' as Deref(Mut)?>::deref(_mut)?$'), m_deref),
    (R(r'mem::replace$'), m_mem_replace),
    (R(r'mem::swap$'), m_mem_swap),
    (R(r'mem::take$'), m_mem_take),
    (R(r'mem::drop$|^drop$'), m_drop_fn),
    (R(r'(HashMap|BTreeMap|HashSet|BTreeSet)::(new|with_capacity)$'), m_map_new),
    (R(r'HashMap::entry$'), m_map_entry),
    (R(r'OccupiedEntry::(get|get_mut|into_mut)$'), m_occ_get),
    (R(r'(OccupiedEntry|VacantEntry|Entry)::(key|into_key)$'), m_entry_key),
    (R(r'OccupiedEntry::insert$'), m_occ_insert),
    (R(r'OccupiedEntry::(remove_entry|remove)$'), m_occ_remove_entry),
    (R(r'VacantEntry::insert$'), m_vac_insert),
    (R(r'Entry::and_modify$'), m_entry_and_modify),
    (R(r'^<(u8|u16|u32|u64|u128|usize|i8|i16|i32|i64|i128|isize|bool) as Default>::default$'), m_prim_default),
    (R(r'^<(u8|u16|u32|u64|u128|usize) as Try(From|Into)>::try_(from|into)$'), m_int_try_from),
    (R(r'Entry::(or_insert|or_insert_with|or_default)$'), m_entry_or_insert),
    (R(r'HashMap::insert$'), m_map_insert),
    (R(r'HashMap::remove$'), m_map_remove),
    (R(r'HashMap::(get|get_mut)$'), m_map_get),
    (R(r'HashMap::contains_key$|HashSet::contains$'), m_map_contains),
    (R(r'HashMap::len$'), m_map_len),
    (R(r'HashMap::is_empty$'), m_map_is_empty),
]


# ----------------------------------------------------------------------------- byte arrays / slices
def conc(v):
    if isinstance(v, z3.ExprRef):
        sv = z3.simplify(v)
        if z3.is_bv_value(sv):
            return sv.as_long()
    return None


def as_array(ex, p, v):
    v = ex.deref(p, v)
    if isinstance(v, Ptr):
        v = ex.deref(p, v)
    if isinstance(v, Bytes):
        return bytes_to_agg(v)
    if isinstance(v, Agg) and v.kind == 'array':
        return v
    if isinstance(v, z3.ExprRef) and z3.is_bv(v) and v.size() > 64 and v.size() % 8 == 0:
        n_ = v.size() // 8        # `[u8; N]` newtype modelled as one big-endian bit-vector
        return Agg('[]', None, [z3.Extract(v.size() - 1 - 8 * i, v.size() - 8 - 8 * i, v) for i in range(n_)], 'array')
    if isinstance(v, Sym) and isinstance(v.get_ov('items'), Agg):
        return v.get_ov('items')          # a Vec built element by element on this path (finite-vector model)
    return None


# ----------------------------------------------------------------------------- finite vectors: Vec::new/with_capacity/vec![..] + push
def _find_array(v, depth=0):
    if depth > 8:
        return None
    if isinstance(v, Agg):
        if v.kind == 'array':
            return v
        for f in v.fields:
            r = _find_array(f, depth + 1)
            if r is not None:
                return r
    if isinstance(v, Sym):
        for key, val in v.ov:
            if isinstance(key, tuple) and key and key[0] == 'f':
                r = _find_array(val, depth + 1)
                if r is not None:
                    return r
    return None


def m_vec_new(ex, p, call, k):
    k(p, Sym(f'vec#{p.seq("vec")}', call.retty or 'Vec').with_ov('items', Agg('[]', None, (), 'array')))


def m_vec_from_box(ex, p, call, k):
    """vec![a, b, ..]: `Box::new_uninit()`, the array written through the box, `box_assume_init_into_vec_unsafe(box)`"""
    b = call.args[0]
    arr = None
    if isinstance(b, Sym):
        for key, val in p.mem.items():
            if key[0] == 'H' and str(key[1]).startswith(b.name):
                arr = _find_array(val)
                if arr is not None:
                    break
    if arr is None:
        return NotImplemented
    r = Sym(f'vec#{p.seq("vec")}', call.retty or 'Vec').with_ov('items', arr).with_ov('from', (call.short, tuple(call.args)))
    p.events.append(Event('call', call.short, call.args, r, call.span, call.depth))
    k(p, r)


def m_vec_push(ex, p, call, k):
    ptr = call.args[0]
    v = ex.deref(p, ptr) if isinstance(ptr, Ptr) else None
    items = v.get_ov('items') if isinstance(v, Sym) else None
    if not isinstance(items, Agg) or len(items.fields) >= 16:
        return NotImplemented
    ex.store(p, ptr, v.with_ov('items', Agg('[]', None, tuple(items.fields) + (call.args[1],), 'array')))
    k(p, UNIT)


def m_vec_len_items(ex, p, call, k):
    v = ex.deref(p, call.args[0]) if isinstance(call.args[0], Ptr) else call.args[0]
    items = v.get_ov('items') if isinstance(v, Sym) else None
    if not isinstance(items, Agg):
        return NotImplemented
    n = z3.BitVecVal(len(items.fields), 64)
    k(p, n == 0 if call.short.endswith('is_empty') else n)


def m_vec_into_iter_items(ex, p, call, k):
    a = call.args[0]
    v = ex.deref(p, a) if isinstance(a, Ptr) else a
    if isinstance(v, Ptr):
        v = ex.deref(p, v)
    items = v.get_ov('items') if isinstance(v, Sym) else None
    if not isinstance(items, Agg):
        return NotImplemented
    k(p, Agg('SliceIter', None, (items, z3.BitVecVal(0, 64), z3.BoolVal(not isinstance(a, Ptr))), 'struct'))


def m_range_new(ex, p, call, k):
    k(p, Agg('RangeInclusive', None, (call.args[0], call.args[1]), 'struct'))


def range_bounds(r, n):
    """(lo, hi_exclusive) of a range value over a sequence of length n, or None"""
    if not isinstance(r, Agg):
        return None
    f = [conc(x) for x in r.fields]
    if r.name == 'RangeInclusive' and len(f) >= 2 and None not in f[:2]:
        return f[0], f[1] + 1
    if r.name == 'Range' and len(f) == 2 and None not in f:
        return f[0], f[1]
    if r.name == 'RangeTo' and len(f) == 1 and f[0] is not None:
        return 0, f[0]
    if r.name == 'RangeFrom' and len(f) == 1 and f[0] is not None:
        return f[0], n
    if r.name == 'RangeToInclusive' and len(f) == 1 and f[0] is not None:
        return 0, f[0] + 1
    if r.name == 'RangeFull':
        return 0, n
    return None


def m_index_range(ex, p, call, k):
    base, r = call.args[0], call.args[1]
    if not isinstance(base, Ptr):
        return NotImplemented
    arr = as_array(ex, p, base)
    if arr is None:
        return NotImplemented
    # pointer to the array itself (skip pointer-to-pointer levels)
    tgt = base
    while True:
        inner = ex.read_loc(p, None, tgt.key, tgt.projs)
        if isinstance(inner, Ptr):
            tgt = inner
        else:
            break
    if isinstance(r, z3.ExprRef):
        i = conc(r)
        if i is None or i >= len(arr.fields):
            return NotImplemented
        return k(p, Ptr(tgt.key, tgt.projs + (('index', '?', i),), tgt.mut))
    b = range_bounds(r, len(arr.fields))
    if b is None:
        return NotImplemented
    lo, hi = b
    if lo > hi or hi > len(arr.fields):
        p.events.append(Event('panic', 'slice index out of range', (), None, call.span, call.depth))
        return ex.end_path(p, 'panic', 'slice index out of range')
    k(p, Ptr(tgt.key, tgt.projs + (('range', lo, hi),), tgt.mut))


def m_copy_from_slice(ex, p, call, k):
    dst, src = call.args
    s_arr = as_array(ex, p, src)
    d_arr = as_array(ex, p, dst)
    if s_arr is None or d_arr is None or not isinstance(dst, Ptr):
        return NotImplemented
    if len(s_arr.fields) != len(d_arr.fields):
        p.events.append(Event('panic', 'copy_from_slice: length mismatch', (), None, call.span, call.depth))
        return ex.end_path(p, 'panic', 'copy_from_slice length mismatch')
    tgt = dst
    while True:
        inner = ex.read_loc(p, None, tgt.key, tgt.projs)
        if isinstance(inner, Ptr):
            tgt = inner
        else:
            break
    ex.store(p, tgt, s_arr)
    k(p, UNIT)


def m_array_eq(ex, p, call, k):
    meth = call.short.rsplit('::', 1)[-1]
    a, b = as_array(ex, p, call.args[0]), as_array(ex, p, call.args[1])
    if a is None or b is None:
        return NotImplemented
    if len(a.fields) != len(b.fields):
        e = z3.BoolVal(False)
    else:
        parts = []
        for x, y in zip(a.fields, b.fields):
            if not (isinstance(x, z3.ExprRef) and isinstance(y, z3.ExprRef)):
                return NotImplemented
            parts.append(x == y)
        e = z3.And(parts) if parts else z3.BoolVal(True)
    k(p, e if meth == 'eq' else z3.Not(e))


def m_from_bytes(ex, p, call, k):
    meth = call.short.rsplit('::', 1)[-1]
    arr = as_array(ex, p, call.args[0])
    if arr is None or not all(isinstance(x, z3.ExprRef) and z3.is_bv(x) and x.size() == 8 for x in arr.fields) or len(arr.fields) < 2:
        return NotImplemented
    f = list(arr.fields)
    if meth == 'from_le_bytes':
        f = f[::-1]
    k(p, z3.Concat(*f))


def m_slice_try_into_array(ex, p, call, k):
    """<&[u8] as TryInto<[u8; N]>>::try_into / <[u8; N] as TryFrom<&[u8]>>::try_from: Ok(copy) iff the lengths agree"""
    arr = as_array(ex, p, call.args[0]) if isinstance(call.args[0], Ptr) else None
    m = re.search(r'\[u8; (\d+)\]', call.retty or '')
    if arr is None or not m:
        return NotImplemented
    if len(arr.fields) == int(m.group(1)):
        return k(p, ok(arr))
    k(p, err(Sym('TryFromSliceError', 'TryFromSliceError')))


def m_tuple_cmp(ex, p, call, k):
    """<(A, B, ..) as Ord>::cmp / PartialOrd::partial_cmp on tuples of unsigned machine integers: lexicographic"""
    a, b = scalar(ex, p, call.args[0]), scalar(ex, p, call.args[1])
    if not (isinstance(a, Agg) and isinstance(b, Agg) and a.kind == 'tuple' and len(a.fields) == len(b.fields) and a.fields
            and all(isinstance(x, z3.ExprRef) and z3.is_bv(x) for x in list(a.fields) + list(b.fields))):
        return NotImplemented
    lt, eq = z3.BoolVal(False), z3.BoolVal(True)
    for x, y in zip(a.fields, b.fields):
        if x.size() != y.size():
            return NotImplemented
        lt = z3.Or(lt, z3.And(eq, z3.ULT(x, y)))
        eq = z3.And(eq, x == y)
    d = z3.If(lt, z3.BitVecVal(-1, 8), z3.If(eq, z3.BitVecVal(0, 8), z3.BitVecVal(1, 8)))
    o = Sym(f'ordering{p.seq("ordering")}', 'std::cmp::Ordering').with_ov('discr', d)
    k(p, some(o) if call.short.endswith('partial_cmp') else o)


def m_ord_cmp(ex, p, call, k):
    """<T as Ord>::cmp / <T as PartialOrd>::partial_cmp for unsigned machine integers and byte arrays/slices of equal length ([u8; N]
    compares lexicographically = as the big-endian number; ids wider than 64 bits are such arrays)"""
    if isinstance(call.callee, str):
        f_ = ex.resolve(call.callee)
        if f_ is not None and f_.blocks and not ex.is_derived(f_):
            return NotImplemented        # hand-written impl of the crate: execute it
    if not re.search(r'^<&*(\[u8(; \d+)?\]|u8|u16|u32|u64|u128|usize) as (Ord|PartialOrd)>', call.short):
        return NotImplemented

    def val(v):
        v = scalar(ex, p, v)
        if isinstance(v, Agg) and v.kind == 'array' and v.fields and all(isinstance(x, z3.ExprRef) and z3.is_bv(x) and x.size() == 8 for x in v.fields):
            return z3.Concat(*v.fields) if len(v.fields) > 1 else v.fields[0]
        return v
    a, b = val(call.args[0]), val(call.args[1])
    if not (isinstance(a, z3.ExprRef) and isinstance(b, z3.ExprRef) and z3.is_bv(a) and z3.is_bv(b) and a.size() == b.size()):
        return NotImplemented
    d = z3.If(z3.ULT(a, b), z3.BitVecVal(-1, 8), z3.If(a == b, z3.BitVecVal(0, 8), z3.BitVecVal(1, 8)))
    o = Sym(f'ordering{p.seq("ordering")}', 'std::cmp::Ordering').with_ov('discr', d)
    k(p, some(o) if call.short.endswith('partial_cmp') else o)


def m_to_bytes(ex, p, call, k):
    meth = call.short.rsplit('::', 1)[-1]
    v = call.args[0]
    if not (isinstance(v, z3.ExprRef) and z3.is_bv(v)) or v.size() % 8:
        return NotImplemented
    n = v.size() // 8
    parts = [z3.Extract(8 * (n - i) - 1, 8 * (n - i - 1), v) for i in range(n)]
    if meth == 'to_le_bytes':
        parts = parts[::-1]
    k(p, Agg('[]', None, parts, 'array'))


BYTE_MODELS = [
    (R(r'RangeInclusive::new$'), m_range_new),
    (R(r' as Index(Mut)?>::index(_mut)?$'), m_index_range),
    (R(r'slice::copy_from_slice$'), m_copy_from_slice),
    (R(r' as PartialEq>::(eq|ne)$'), m_array_eq),
    (R(r'num::from_(be|le)_bytes$'), m_from_bytes),
    (R(r'^<&\[u8\] as TryInto>::try_into$|^<\[u8; \d+\] as TryFrom>::try_from$'), m_slice_try_into_array),
    (R(r'^<\(.*\) as (Ord|PartialOrd)>::(cmp|partial_cmp)$'), m_tuple_cmp),
    (R(r'num::to_(be|le)_bytes$'), m_to_bytes),
    (R(r' as (Ord|PartialOrd)>::(cmp|partial_cmp)$'), m_ord_cmp),
]
GLOBAL_MODELS = BYTE_MODELS + GLOBAL_MODELS


# ----------------------------------------------------------------------------- std operations that panic on overflow / out of range
def _panic(ex, p, call, why):
    p.events.append(Event('panic', why, call.args, None, call.span, call.depth))
    ex.end_path(p, 'panic', why)


def m_duration_arith(ex, p, call, k):
    """<Duration as Sub/Add>::{sub,add}, Instant - Duration ...: std panics on overflow/underflow"""
    meth = call.short.rsplit('::', 1)[-1]
    a, b = call.args[0], call.args[1]
    if not (isinstance(a, z3.ExprRef) and isinstance(b, z3.ExprRef) and z3.is_int(a) and z3.is_int(b)):
        # operands not modelled as integers: the operation may still panic
        q = p.clone()
        _panic(ex, q, call, f'{call.short}: overflow/underflow panics')
        return ex.opaque_call(p, call, k)
    if meth in ('sub', 'sub_assign'):
        if ex.feasible(p.pc, a < b):
            q = p.clone()
            q.pc.append(a < b)
            _panic(ex, q, call, 'overflow when subtracting durations')
        if ex.feasible(p.pc, a >= b):
            p.pc.append(a >= b)
            k(p, a - b)
        return
    k(p, a + b)


def m_str_index(ex, p, call, k):
    """str / slice indexing by a range whose validity is not known: may panic (out of range or not a char boundary)"""
    q = p.clone()
    _panic(ex, q, call, f'{call.short}: slice index may be out of range / not on a char boundary')
    ex.opaque_call(p, call, k)


PANIC_MODELS = [
    (R(r'<(std::time::|core::time::)?(Duration|Instant) as (Sub|Add|SubAssign|AddAssign)>::(sub|add|sub_assign|add_assign)$'), m_duration_arith),
    (R(r'<(str|String|\[.*\]|Vec) as Index(Mut)?>::index(_mut)?$|str::split_at$|slice::split_at$'), m_str_index),
]
GLOBAL_MODELS = GLOBAL_MODELS + PANIC_MODELS


# ----------------------------------------------------------------------------- integer ranges as iterators
def m_range_next(ex, p, call, k):
    ptr = call.args[0]
    r = ex.deref(p, ptr)
    if not (isinstance(r, Agg) and r.name == 'Range' and len(r.fields) == 2 and all(isinstance(x, z3.ExprRef) and z3.is_bv(x) for x in r.fields)):
        return NotImplemented
    a, b = r.fields
    lt = z3.ULT(a, b)
    q = p.clone()
    if ex.feasible(p.pc, lt):
        if not z3.is_true(z3.simplify(lt)):
            p.pc.append(lt)
        ex.store(p, ptr, Agg('Range', None, (z3.simplify(a + 1), b), r.kind, r.fnames))
        k(p, some(a))
    if ex.feasible(q.pc, z3.Not(lt)):
        if not z3.is_false(z3.simplify(lt)):
            q.pc.append(z3.Not(lt))
        k(q, NONE)


def m_range_into_iter(ex, p, call, k):
    v = call.args[0]
    if isinstance(v, Agg) and v.name == 'Range':
        return k(p, v)
    return NotImplemented


# ----------------------------------------------------------------------------- iterators over arrays/slices of known length
def m_slice_iter(ex, p, call, k):
    """<[T]>::iter(&arr) for an array whose elements are known values: a finite iterator value"""
    arr = as_array(ex, p, call.args[0])
    if arr is None or len(arr.fields) > 64:
        return NotImplemented
    k(p, Agg('SliceIter', None, (arr, z3.BitVecVal(0, 64), z3.BoolVal(False)), 'struct'))


def m_iter_copied(ex, p, call, k):
    it = call.args[0]
    if isinstance(it, Agg) and it.name == 'SliceIter':
        return k(p, Agg('SliceIter', None, (it.fields[0], it.fields[1], z3.BoolVal(True)), 'struct'))
    return NotImplemented


def _slice_iter_of(ex, p, v):
    it = ex.deref(p, v) if isinstance(v, Ptr) else v
    if isinstance(it, Agg) and it.name == 'SliceIter' and conc(it.fields[1]) is not None:
        return it
    return None


def _elem_ref(ex, p, val):
    cell = ('H', f'elem{p.seq("elem")}', '')
    p.mem[cell] = val
    return Ptr(cell, (), False)


def m_slice_iter_next(ex, p, call, k):
    it = _slice_iter_of(ex, p, call.args[0])
    if it is None:
        return NotImplemented
    arr, i, copied = it.fields[0], conc(it.fields[1]), z3.is_true(it.fields[2])
    if i >= len(arr.fields):
        return k(p, NONE)
    if isinstance(call.args[0], Ptr):
        ex.store(p, call.args[0], Agg('SliceIter', None, (arr, z3.BitVecVal(i + 1, 64), it.fields[2]), 'struct'))
    v = arr.fields[i]
    k(p, some(v if copied else _elem_ref(ex, p, v)))


def m_iter_search(ex, p, call, k):
    """find / any / all / position over a finite iterator: the predicate closure is executed on the elements in order"""
    it = _slice_iter_of(ex, p, call.args[0])
    if it is None:
        return NotImplemented
    arr, start, copied = it.fields[0], conc(it.fields[1]), z3.is_true(it.fields[2])
    op = call.short.rsplit('::', 1)[-1]
    clo = call.args[1]
    elems = list(arr.fields[start:])

    def step(q, j):
        if j >= len(elems):
            return k(q, {'find': NONE, 'position': NONE, 'any': z3.BoolVal(False), 'all': z3.BoolVal(True)}[op])
        v = elems[j]
        item = v if copied else _elem_ref(ex, q, v)
        arg = _elem_ref(ex, q, item) if op == 'find' else item      # find's predicate takes &Item

        def got(q2, r):
            if isinstance(r, z3.ExprRef) and z3.is_bool(r):
                c = r
            elif isinstance(r, z3.ExprRef):
                c = r != z3.BitVecVal(0, r.size())
            else:
                c = ex.to_bv(r, 8) != z3.BitVecVal(0, 8)
            hit = c if op != 'all' else z3.Not(c)
            q3 = q2.clone()
            if ex.feasible(q2.pc, hit):
                if not z3.is_true(z3.simplify(hit)):
                    q2.pc.append(hit)
                k(q2, {'find': some(item), 'position': some(z3.BitVecVal(j, 64)), 'any': z3.BoolVal(True), 'all': z3.BoolVal(False)}[op])
            if ex.feasible(q3.pc, z3.Not(hit)):
                if not z3.is_false(z3.simplify(hit)):
                    q3.pc.append(z3.Not(hit))
                step(q3, j + 1)
        ex.call_closure(q, clo, [arg], call, got)
    step(p, 0)


GLOBAL_MODELS = [(R(r'<(std::ops::|core::ops::)?Range as Iterator>::next$'), m_range_next),
                 (R(r'(^|::)Vec::(new|with_capacity)$'), m_vec_new),
                 (R(r'box_assume_init_into_vec_unsafe$'), m_vec_from_box),
                 (R(r'(^|::)Vec::push$'), m_vec_push),
                 (R(r'(^|::)Vec::(len|is_empty)$'), m_vec_len_items),
                 (R(r'<&?(mut )?(\w+::)*Vec as IntoIterator>::into_iter$'), m_vec_into_iter_items),
                 (R(r'(^|::)slice::(<impl[^>]*>::)?iter$'), m_slice_iter),
                 (R(r'<(std::slice::|core::slice::)?Iter as Iterator>::(copied|cloned)$'), m_iter_copied),
                 (R(r'<((std|core|alloc)::(slice|iter|vec)::)?(Iter|IntoIter|Copied|Cloned) as Iterator>::next$'), m_slice_iter_next),
                 (R(r'<((std|core|alloc)::(slice|iter|vec)::)?(Iter|IntoIter|Copied|Cloned) as Iterator>::(find|any|all|position)$'), m_iter_search),
                 (R(r'<(std::ops::|core::ops::)?Range as IntoIterator>::into_iter$'), m_range_into_iter)] + GLOBAL_MODELS
