"""mirsym core: path-by-path symbolic execution of MIR with z3.

Values are immutable:
  z3 expressions (BitVec for machine integers, Bool, Int for Duration/Instant, String on request)
  Agg(name, variant, fields)      constructed aggregate (struct, enum variant, tuple, array, closure)
  Sym(name, ty, ov)               symbolic value of unknown structure; fields/discriminant/variants
                                  materialise on demand with names derived from `name` (so the same
                                  input field is the same solver variable on every path); `ov` = overrides
  Ptr(key, projs, mut)            reference to a memory location (a local of a frame or a heap cell)
  Str(text) / Bytes(b) / Const(text)   literals / opaque constants
A path = (path condition, memory, ordered events).  Calls are resolved by: property models,
global contract models (models.py), crate-local MIR (inlined up to max_depth), else opaque:
an event is logged and the result is a deterministic symbolic value."""
import itertools, re, z3
from . import mir as M


class Unmodelled(Exception):
    """raised when a path executes something the executor cannot interpret -> inconclusive"""


# ----------------------------------------------------------------------------- values
class Agg:
    __slots__ = ('name', 'variant', 'fields', 'kind', 'fnames')

    def __init__(self, name, variant, fields, kind='ctor', fnames=None):
        self.name, self.variant, self.fields, self.kind, self.fnames = name, variant, tuple(fields), kind, fnames

    def __repr__(self):
        v = f'::{self.variant}' if self.variant else ''
        return f'{self.name}{v}({", ".join(vrepr(f) for f in self.fields)})'


class Sym:
    __slots__ = ('name', 'ty', 'ov')

    def __init__(self, name, ty='', ov=()):
        self.name, self.ty, self.ov = name, ty or '', ov

    def get_ov(self, key):
        for k, v in self.ov:
            if k == key:
                return v
        return None

    def with_ov(self, key, val):
        return Sym(self.name, self.ty, tuple((k, v) for k, v in self.ov if k != key) + ((key, val),))

    def __repr__(self):
        return f'<{self.name}>' if not self.ov else f'<{self.name}+{len(self.ov)}>'


class VarView:
    """(sym as Variant) - view used only transiently during projection"""
    __slots__ = ('sym', 'variant')

    def __init__(self, sym, variant):
        self.sym, self.variant = sym, variant


class Ptr:
    __slots__ = ('key', 'projs', 'mut', 'pty')

    def __init__(self, key, projs=(), mut=False, pty=''):
        self.key, self.projs, self.mut, self.pty = key, tuple(projs), mut, pty

    def __repr__(self):
        return f'&{self.key[1] if self.key[0] == "H" else "L" + str(self.key[1]) + self.key[2]}' + ''.join(_pr(p) for p in self.projs)


def _pr(p):
    if p[0] == 'field':
        return f'.{p[1]}'
    if p[0] == 'down':
        return f'@{p[1]}'
    if p[0] == 'range':
        return f'[{p[1]}..{p[2]}]'
    return f'[{p[0]}]'


class Str:
    __slots__ = ('s',)

    def __init__(self, s):
        self.s = s

    def __repr__(self):
        return repr(self.s)


class Bytes:
    __slots__ = ('b',)

    def __init__(self, b):
        self.b = b

    def __repr__(self):
        return repr(self.b)


class Const:
    __slots__ = ('text',)

    def __init__(self, text):
        self.text = text

    def __repr__(self):
        return f'const {self.text}'


UNIT = Agg('()', None, (), 'tuple')


def bytes_to_agg(b):
    return Agg('[]', None, [z3.BitVecVal(x, 8) for x in b.b], 'array')


def vrepr(v):
    if isinstance(v, z3.ExprRef):
        s = str(z3.simplify(v)) if not z3.is_const(v) else str(v)
        return s if len(s) < 80 else s[:77] + '...'
    return repr(v)


def vname(v):
    """stable identity string of a value (used for result naming and identity oracles)"""
    if isinstance(v, Sym):
        return v.name
    if isinstance(v, Ptr):
        return repr(v)
    if isinstance(v, z3.ExprRef):
        return str(v) if z3.is_const(v) else 'e' + str(abs(hash(v.sexpr())) % 100000)
    return repr(v)


# ----------------------------------------------------------------------------- types
INT_RE = re.compile(r'^(u|i)(8|16|32|64|128|size)$')
SCALAR_BV = {'PeerId': 256, 'types::peer_id::PeerId': 256, 'char': 32}
INT_SORTED = ('Duration', 'std::time::Duration', 'Instant', 'std::time::Instant', 'tokio::time::Instant', 'core::time::Duration')


def int_width(t):
    m = INT_RE.match(t)
    if not m:
        return None
    return 64 if m.group(2) == 'size' else int(m.group(2))


def is_signed(t):
    return bool(t) and t.strip().startswith('i') and INT_RE.match(t.strip()) is not None


def pointee(t):
    t = t.strip()
    m = re.match(r"^&\s*('\w+\s+)?(mut\s+)?(.*)$", t, re.S)
    if m:
        return m.group(3).strip(), bool(m.group(2))
    m = re.match(r'^\*(const|mut)\s+(.*)$', t, re.S)
    if m:
        return m.group(2).strip(), m.group(1) == 'mut'
    return None, False


class Path:
    __slots__ = ('pc', 'mem', 'events', 'ctr', 'tags', 'trace')

    def __init__(self):
        self.pc, self.mem, self.events, self.ctr, self.tags, self.trace = [], {}, [], {}, [], []

    def clone(self):
        p = Path()
        p.pc, p.mem, p.events, p.ctr, p.tags, p.trace = list(self.pc), dict(self.mem), list(self.events), dict(self.ctr), list(self.tags), list(self.trace)
        return p

    def seq(self, key):
        n = self.ctr.get(key, 0) + 1
        self.ctr[key] = n
        return n

    def cond(self):
        return z3.And(self.pc) if self.pc else z3.BoolVal(True)


class Event:
    __slots__ = ('kind', 'name', 'args', 'ret', 'span', 'depth', 'extra')

    def __init__(self, kind, name, args=(), ret=None, span=None, depth=0, extra=None):
        self.kind, self.name, self.args, self.ret, self.span, self.depth, self.extra = kind, name, tuple(args), ret, span, depth, extra

    def __repr__(self):
        r = f' -> {vrepr(self.ret)}' if self.ret is not None else ''
        return f'{self.kind}:{self.name}({", ".join(vrepr(a) for a in self.args)}){r}'

    def short(self):
        return M.strip_generics(self.name) if isinstance(self.name, str) else str(self.name)


PANIC_ENTRY = re.compile(r'(^|::)(panic_fmt|panic|panic_display|panic_str|panic_explicit|panic_nounwind|begin_panic|expect_failed|unwrap_failed|panic_any|unreachable_display|panic_cold_explicit|panic_cold_display)$')


class Call:
    __slots__ = ('callee', 'short', 'args', 'retty', 'span', 'fn', 'depth', 'frame', 'argops')

    def __init__(self, callee, args, retty, span, fn, depth, frame, argops=None):
        self.callee, self.args, self.retty, self.span, self.fn, self.depth, self.frame = callee, args, retty, span, fn, depth, frame
        self.short = M.strip_generics(callee) if isinstance(callee, str) else '<indirect>'
        self.argops = argops


class Result:
    """one finished path of the entry function"""
    __slots__ = ('path', 'ret', 'tag')

    def __init__(self, path, ret, tag):
        self.path, self.ret, self.tag = path, ret, tag

    @property
    def events(self):
        return self.path.events

    @property
    def pc(self):
        return self.path.pc


class Exec:
    def __init__(self, prog, enums, models=(), max_depth=4, unroll=2, strings=False, opaque=(), timeout_ms=20000,
                 inline_only=None, seed=0):
        self.prog, self.enums = prog, enums
        self.models = list(models)
        self.max_depth, self.unroll, self.strings = max_depth, unroll, strings
        self.opaque = [re.compile(x) for x in opaque]
        self.queries, self.solver_s = 0, 0.0
        self.frames = itertools.count(1)
        self.results = []
        self.timeout_ms = timeout_ms
        self.notes = []
        self.inlined = set()
        self.seed = seed
        self.path_limit = 4000
        self._resolve_cache = {}

    # ------------------------------------------------------------------ solver
    def feasible(self, pc, cond=None):
        if cond is not None:
            c = z3.simplify(cond) if isinstance(cond, z3.ExprRef) else cond
            if c is True or (isinstance(c, z3.ExprRef) and z3.is_true(c)):
                return True
            if c is False or (isinstance(c, z3.ExprRef) and z3.is_false(c)):
                return False
        import time
        s = z3.Solver()
        s.set('timeout', self.timeout_ms)
        if self.seed:
            s.set('random_seed', self.seed)
        s.add(pc)
        if cond is not None:
            s.add(cond)
        t0 = time.time()
        r = s.check()
        self.solver_s += time.time() - t0
        self.queries += 1
        if r == z3.unknown:
            raise Unmodelled('solver returned unknown on a feasibility query')
        return r == z3.sat

    # ------------------------------------------------------------------ fresh values
    def fresh(self, name, ty):
        t = (ty or '').strip()
        if t == 'bool':
            return z3.Bool(name)
        w = int_width(t)
        if w:
            return z3.BitVec(name, w)
        if t in SCALAR_BV:
            return z3.BitVec(name, SCALAR_BV[t])
        if t in INT_SORTED:
            return z3.Int(name)
        if t == '()':
            return UNIT
        if self.strings and t in ("&str", "&'static str", 'std::string::String', 'String', "&std::string::String", '&String'):
            return z3.String(name)
        pt, mut = pointee(t)
        if pt is not None:
            return Ptr(('H', name + '.*', pt), (), mut, pt)
        return Sym(name, t)

    def default_at(self, key):
        if key[0] == 'H':
            lit = getattr(self, '_literals', {}).get(key[1])
            if lit is not None:
                return lit          # `*b"..."` / `*"..."`: the pointee of a literal is the literal's content
            return self.fresh(key[1], key[2])
        # uninitialised local: symbolic of its declared type
        return self.fresh(f'L{key[1]}{key[2]}', key[3] if len(key) > 3 else '')

    # ------------------------------------------------------------------ memory
    def loc_of(self, p, frame, place):
        """resolve a place to (key, projs) following derefs"""
        base, projs = place
        key = ('L', frame.id, base)
        cur = []
        for pr in projs:
            if pr[0] == 'deref':
                v = self.read_loc(p, frame, key, cur)
                ptr = self.as_ptr(v)
                key, cur = ptr.key, list(ptr.projs)
            elif pr[0] == 'index':
                iv = self.read_loc(p, frame, ('L', frame.id, pr[1]), ())
                c = None
                if isinstance(iv, z3.ExprRef):
                    sv = z3.simplify(iv)
                    if z3.is_bv_value(sv):
                        c = sv.as_long()
                cur.append(('index', pr[1], c))
            else:
                cur.append(pr)
        return key, tuple(cur)

    def as_ptr(self, v):
        if isinstance(v, Ptr):
            return v
        if isinstance(v, Sym):
            pt, mut = pointee(v.ty)
            if pt is None:
                # Box<T>, Arc<T>, Pin<..> etc. dereferenced directly
                m = re.match(r'^(?:std::boxed::|alloc::boxed::)?Box<(.*)>$', v.ty)
                pt = m.group(1) if m else ''
            return Ptr(('H', v.name + '.*', pt), (), mut, pt)
        if isinstance(v, Agg) and v.kind in ('ctor', 'struct') and len(v.fields) >= 1:
            # Pin { pointer } / Box(..)/ newtype around a pointer
            return self.as_ptr(v.fields[0])
        if isinstance(v, Const):
            return Ptr(('H', 'static:' + v.text, ''), (), False, '')
        if isinstance(v, (Bytes, Str)):
            if not hasattr(self, '_literals'):
                self._literals = {}
            self._literals['literal:' + repr(v)] = v
            return Ptr(('H', 'literal:' + repr(v), ''), (), False, '')
        raise Unmodelled(f'deref of non-pointer {vrepr(v)}')

    def read_loc(self, p, frame, key, projs):
        if key in p.mem:
            v = p.mem[key]
        else:
            if key[0] == 'L':
                fr = frame if frame is not None and frame.id == key[1] else None
                ty = ''
                if fr is not None:
                    ty = fr.fn.decl.get(key[2], '')
                v = self.fresh(f'{fr.tagname if fr else "f" + str(key[1])}{key[2]}', ty)
            else:
                v = self.default_at(key)
            p.mem[key] = v
        for pr in projs:
            v = self.project(v, pr)
        return v

    def project(self, v, pr):
        k = pr[0]
        if k == 'field':
            n, ty = pr[1], pr[2]
            if isinstance(v, Agg):
                if n < len(v.fields):
                    return v.fields[n]
                raise Unmodelled(f'field {n} of {v!r}')
            if isinstance(v, VarView):
                o = v.sym.get_ov(('v', v.variant, n))
                if o is not None:
                    return o
                c = self.fresh(f'{v.sym.name}@{v.variant}.{n}', ty)
                return c.with_ov('from', ('proj', (v.sym,))) if isinstance(c, Sym) and v.sym.get_ov('from') is not None else c
            if isinstance(v, Sym):
                o = v.get_ov(('f', n))
                if o is not None:
                    return o
                c = self.fresh(f'{v.name}.{n}', ty)
                return c.with_ov('from', ('proj', (v,))) if isinstance(c, Sym) and v.get_ov('from') is not None else c
            if isinstance(v, Ptr):
                # field of a fat pointer / Pin newtype represented directly as Ptr
                if n == 0:
                    return v
                return self.fresh(f'{vname(v)}.{n}', ty)
            if isinstance(v, z3.ExprRef):
                if n == 0 and (z3.is_bv(v) or z3.is_int(v) or z3.is_string(v)):
                    # newtype wrapper around a scalar that we model as the scalar itself
                    return v
                return self.fresh(f'{vname(v)}.{n}', ty)
            raise Unmodelled(f'field {n} of {vrepr(v)}')
        if k == 'down':
            if isinstance(v, Agg):
                if v.variant is not None and v.variant != pr[1] and not pr[1].startswith('variant#'):
                    raise Unmodelled(f'downcast {pr[1]} of {v!r}')
                return v
            if isinstance(v, Sym):
                return VarView(v, pr[1])
            raise Unmodelled(f'downcast of {vrepr(v)}')
        if k == 'cindex':
            if isinstance(v, Bytes):
                v = bytes_to_agg(v)
            if isinstance(v, z3.ExprRef) and z3.is_bv(v) and v.size() > 64 and v.size() % 8 == 0 and 0 <= pr[1] < v.size() // 8:
                hi = v.size() - 1 - 8 * pr[1]
                return z3.Extract(hi, hi - 7, v)
            if isinstance(v, Agg) and pr[1] < len(v.fields):
                return v.fields[pr[1]]
            if isinstance(v, Sym):
                o = v.get_ov(('f', pr[1]))
                return o if o is not None else self.fresh(f'{v.name}[{pr[1]}]', '')
        if k == 'range':
            if isinstance(v, Bytes):
                v = bytes_to_agg(v)
            if isinstance(v, z3.ExprRef) and z3.is_bv(v) and v.size() > 64 and v.size() % 8 == 0:
                n_ = v.size() // 8
                v = Agg('[]', None, [z3.Extract(v.size() - 1 - 8 * i, v.size() - 8 - 8 * i, v) for i in range(n_)], 'array')
            if isinstance(v, Agg) and v.kind == 'array' and pr[2] <= len(v.fields):
                return Agg('[]', None, v.fields[pr[1]:pr[2]], 'array')
            return Sym(f'{vname(v)}[{pr[1]}..{pr[2]}]', '')
        if k == 'index':
            iv = pr[2] if len(pr) > 2 else None
            if isinstance(v, Bytes):
                v = bytes_to_agg(v)
            if iv is not None and isinstance(v, z3.ExprRef) and z3.is_bv(v) and v.size() > 64 and v.size() % 8 == 0 and iv < v.size() // 8:
                hi = v.size() - 1 - 8 * iv
                return z3.Extract(hi, hi - 7, v)                   # byte `iv` of a `[u8; N]` modelled as a big-endian bit-vector
            if iv is not None and isinstance(v, Agg) and v.kind == 'array' and iv < len(v.fields):
                return v.fields[iv]
            return Sym(f'{vname(v)}[{iv}]' if iv is not None else f'{vname(v)}[?]', '')
        if k == 'subslice':
            m = re.fullmatch(r'(\d+)(\.\.|:)(-?)(\d+)', pr[1].replace(' ', ''))
            if isinstance(v, Bytes):
                v = bytes_to_agg(v)
            if m and isinstance(v, Agg) and v.kind == 'array':
                a, b = int(m.group(1)), int(m.group(4))
                hi = len(v.fields) - b if m.group(3) == '-' or m.group(2) == ':' and m.group(3) == '-' else b
                if m.group(2) == ':' and m.group(3) != '-':
                    hi = b
                return Agg('[]', None, v.fields[a:hi], 'array')
            return Sym(f'{vname(v)}[{pr[1]}]', '')
        raise Unmodelled(f'projection {pr} of {vrepr(v)}')

    def update(self, v, projs, val):
        if not projs:
            return val
        pr, rest = projs[0], projs[1:]
        k = pr[0]
        if k == 'field':
            n = pr[1]
            if isinstance(v, Agg):
                f = list(v.fields)
                while len(f) <= n:
                    f.append(Sym(f'{v.name}.pad{len(f)}', ''))
                f[n] = self.update(f[n], rest, val)
                return Agg(v.name, v.variant, f, v.kind, v.fnames)
            if isinstance(v, Sym):
                cur = self.project(v, pr)
                return v.with_ov(('f', n), self.update(cur, rest, val))
            if isinstance(v, z3.ExprRef) and n == 0 and not rest:
                return val
            if isinstance(v, Ptr) and n == 0 and not rest:
                return val
            raise Unmodelled(f'update field of {vrepr(v)}')
        if k == 'down':
            if isinstance(v, Agg):
                return self.update(v, rest, val)
            if isinstance(v, Sym):
                if not rest:
                    return v
                f = rest[0]
                if f[0] != 'field':
                    raise Unmodelled('update through downcast')
                cur = self.project(VarView(v, pr[1]), f)
                return v.with_ov(('v', pr[1], f[1]), self.update(cur, rest[1:], val))
        if k == 'cindex' and isinstance(v, Agg):
            f = list(v.fields)
            f[pr[1]] = self.update(f[pr[1]], rest, val)
            return Agg(v.name, v.variant, f, v.kind, v.fnames)
        if k == 'index' and isinstance(v, Agg) and len(pr) > 2 and pr[2] is not None and pr[2] < len(v.fields):
            f = list(v.fields)
            f[pr[2]] = self.update(f[pr[2]], rest, val)
            return Agg(v.name, v.variant, f, v.kind, v.fnames)
        if k == 'range' and isinstance(v, Agg) and v.kind == 'array':
            f = list(v.fields)
            if not rest:
                nv = bytes_to_agg(val) if isinstance(val, Bytes) else val
                if isinstance(nv, Agg) and len(nv.fields) == pr[2] - pr[1]:
                    f[pr[1]:pr[2]] = list(nv.fields)
                    return Agg(v.name, v.variant, f, v.kind, v.fnames)
                raise Unmodelled('range update with a value of different shape')
            sub = Agg('[]', None, f[pr[1]:pr[2]], 'array')
            sub = self.update(sub, rest, val)
            f[pr[1]:pr[2]] = list(sub.fields)
            return Agg(v.name, v.variant, f, v.kind, v.fnames)
        raise Unmodelled(f'update {pr} of {vrepr(v)}')

    def write_loc(self, p, frame, key, projs, val):
        if not projs:
            p.mem[key] = val
            return
        cur = self.read_loc(p, frame, key, ())
        p.mem[key] = self.update(cur, projs, val)

    def read_place(self, p, frame, place):
        key, projs = self.loc_of(p, frame, place)
        return self.read_loc(p, frame, key, projs)

    def write_place(self, p, frame, place, val):
        key, projs = self.loc_of(p, frame, place)
        self.write_loc(p, frame, key, projs, val)

    def deref(self, p, v):
        """value behind a pointer-like value (identity for non pointers)"""
        n = 0
        while isinstance(v, Ptr) and n < 8:
            v = self.read_loc(p, None, v.key, v.projs)
            n += 1
        return v

    def store(self, p, ptr, val):
        ptr = self.as_ptr(ptr)
        self.write_loc(p, None, ptr.key, ptr.projs, val)

    # ------------------------------------------------------------------ operands / rvalues
    def place_type(self, frame, place):
        base, projs = place
        for pr in reversed(projs):
            if pr[0] == 'field':
                return pr[2]
            if pr[0] in ('deref', 'down'):
                break
        if not projs:
            return frame.fn.decl.get(base, '')
        if len(projs) == 1 and projs[0][0] == 'deref':
            pt, _ = pointee(frame.fn.decl.get(base, ''))
            return pt or ''
        return ''

    def const(self, text, frame):
        t = text.strip()
        if t == 'true':
            return z3.BoolVal(True)
        if t == 'false':
            return z3.BoolVal(False)
        m = re.fullmatch(r'(-?\d+)_(u|i)(8|16|32|64|128|size)', t)
        if m:
            return z3.BitVecVal(int(m.group(1)), 64 if m.group(3) == 'size' else int(m.group(3)))
        if t == '()':
            return UNIT
        m = re.search(r'(?:^|::|<impl )(u|i)(8|16|32|64|128|size)>?::(MAX|MIN)$', t)
        if m:
            w = 64 if m.group(2) == 'size' else int(m.group(2))
            if m.group(1) == 'u':
                return z3.BitVecVal((1 << w) - 1 if m.group(3) == 'MAX' else 0, w)
            return z3.BitVecVal((1 << (w - 1)) - 1 if m.group(3) == 'MAX' else -(1 << (w - 1)), w)
        m = re.fullmatch(r'"(.*)"', t, re.S)
        if m:
            try:
                s = bytes(m.group(1), 'utf-8').decode('unicode_escape')
            except Exception:
                s = m.group(1)
            return z3.StringVal(s) if self.strings else Str(s)
        m = re.fullmatch(r'(b".*")', t, re.S)
        if m:
            import ast
            try:
                return Bytes(ast.literal_eval(m.group(1)))
            except Exception:
                return Const(t)
        m = re.fullmatch(r"'(.)'", t)
        if m:
            return z3.BitVecVal(ord(m.group(1)), 32)
        ma = re.fullmatch(r'\{(alloc\d+): (.*)\}', t)
        if ma and ma.group(1) in getattr(self.prog, 'allocs', {}):
            return Const(f'static {self.prog.allocs[ma.group(1)]}: {ma.group(2)}')
        # constants / statics / promoteds with a MIR body: evaluate the body
        cf = self.find_const_fn(t)
        if cf is not None and frame is not None and getattr(self, '_const_depth', 0) < 4:
            out = []
            self._const_depth = getattr(self, '_const_depth', 0) + 1
            try:
                saved = self.results
                self.results = []
                self.run_fn(cf, [], self._cur_path, frame.depth + 1, lambda q, ret: out.append(ret), 'c' + str(next(self.frames)))
                self.results = saved
            finally:
                self._const_depth -= 1
            if len(out) == 1 and out[0] is not None:
                return out[0]
        # simple named constants defined in this crate's MIR
        if '::' in t and not t.startswith('{'):
            hits = []
            for nseg in (4, 3, 2, 1):
                tail2 = '::'.join(t.split('::')[-nseg:])
                hits = [v for k2, v in self.prog.consts.items() if k2 == t or k2.endswith('::' + tail2) or k2 == tail2]
                if hits:
                    break
            if len(hits) == 1 and hits[0] != t and len(hits[0]) < 200:
                return self.const(hits[0], frame)
        # named constants / unit enum variants as consts
        ev = self.enums.lookup_path(M.strip_generics(t))
        if ev is not None:
            return Agg(ev[0], ev[1], (), 'ctor')
        return Const(t)

    def operand(self, p, frame, op):
        if op[0] in ('copy', 'move'):
            return self.read_place(p, frame, op[1])
        self._cur_path = p
        return self.const(op[1], frame)

    def find_const_fn(self, t):
        cfs = self.prog.const_fns
        if not cfs or t.startswith(('"', 'b"', '{')) or re.match(r'^-?\d', t):
            return None
        key = ('constfn', t)
        if key in self._resolve_cache:
            return self._resolve_cache[key]
        res = None
        tt = re.sub(r'::<[^<>]*>', '', t)
        segs = tt.split('::')
        for nseg in range(min(5, len(segs)), 0, -1):
            tail = '::'.join(segs[-nseg:])
            hits = [f for k2, f in cfs.items() if k2 == tt or k2 == tail or k2.endswith('::' + tail)]
            if hits:
                if len(hits) == 1:
                    res = hits[0]
                break
        self._resolve_cache[key] = res
        return res

    def operand_type(self, frame, op):
        if op[0] in ('copy', 'move'):
            return self.place_type(frame, op[1])
        m = re.search(r'_((?:u|i)(?:8|16|32|64|128|size))$', op[1])
        return m.group(1) if m else ''

    def to_bv(self, v, width=64):
        if isinstance(v, z3.ExprRef):
            return v
        if isinstance(v, Sym):
            return z3.BitVec(v.name, width)
        if isinstance(v, Agg) and v.variant is not None:
            idx = self.enums.index(v.name, v.variant)
            if idx is not None:
                return z3.BitVecVal(idx, width)
        raise Unmodelled(f'integer view of {vrepr(v)}')

    def binop(self, op, a, b, ta, frame):
        signed = is_signed(ta)
        if isinstance(a, z3.BoolRef) or isinstance(b, z3.BoolRef):
            if op == 'Eq':
                return a == b
            if op == 'Ne':
                return a != b
            if op == 'BitAnd':
                return z3.And(a, b)
            if op == 'BitOr':
                return z3.Or(a, b)
            if op == 'BitXor':
                return z3.Xor(a, b)
        if not (isinstance(a, z3.ExprRef) and isinstance(b, z3.ExprRef)):
            w = int_width(ta) or 64
            a, b = self.to_bv(a, w), self.to_bv(b, w)
        if z3.is_bv(a) and z3.is_bv(b) and a.size() != b.size():
            if op in ('Shl', 'Shr', 'ShlUnchecked', 'ShrUnchecked'):
                b = z3.ZeroExt(a.size() - b.size(), b) if b.size() < a.size() else z3.Extract(a.size() - 1, 0, b)
            else:
                raise Unmodelled(f'width mismatch in {op}')
        cmpops = {'Eq': lambda: a == b, 'Ne': lambda: a != b,
                  'Lt': lambda: (a < b) if signed or not z3.is_bv(a) else z3.ULT(a, b),
                  'Le': lambda: (a <= b) if signed or not z3.is_bv(a) else z3.ULE(a, b),
                  'Gt': lambda: (a > b) if signed or not z3.is_bv(a) else z3.UGT(a, b),
                  'Ge': lambda: (a >= b) if signed or not z3.is_bv(a) else z3.UGE(a, b)}
        if op in cmpops:
            return cmpops[op]()
        ar = {'Add': lambda: a + b, 'Sub': lambda: a - b, 'Mul': lambda: a * b,
              'AddUnchecked': lambda: a + b, 'SubUnchecked': lambda: a - b, 'MulUnchecked': lambda: a * b,
              'BitAnd': lambda: a & b, 'BitOr': lambda: a | b, 'BitXor': lambda: a ^ b,
              'Shl': lambda: a << b, 'ShlUnchecked': lambda: a << b,
              'Shr': lambda: (a >> b) if signed else z3.LShR(a, b), 'ShrUnchecked': lambda: (a >> b) if signed else z3.LShR(a, b),
              'Div': lambda: (a / b) if signed else z3.UDiv(a, b),
              'Rem': lambda: z3.SRem(a, b) if signed else z3.URem(a, b)}
        if op in ar:
            return ar[op]()
        if op in ('AddWithOverflow', 'SubWithOverflow', 'MulWithOverflow'):
            w = a.size()
            if op == 'AddWithOverflow':
                r = a + b
                ov = z3.Not(z3.BVAddNoOverflow(a, b, signed)) if not signed else z3.Or(z3.Not(z3.BVAddNoOverflow(a, b, True)), z3.Not(z3.BVAddNoUnderflow(a, b)))
                if not signed and w == 64:
                    # a 64-bit counter bumped by a small constant does not wrap: it would take ~2^64 increments (stated assumption of the engine)
                    for c_ in (z3.simplify(a), z3.simplify(b)):
                        if z3.is_bv_value(c_) and c_.as_long() <= (1 << 20):
                            ov = z3.BoolVal(False)
            elif op == 'SubWithOverflow':
                r = a - b
                ov = z3.Not(z3.BVSubNoUnderflow(a, b, signed)) if not signed else z3.Or(z3.Not(z3.BVSubNoOverflow(a, b)), z3.Not(z3.BVSubNoUnderflow(a, b, True)))
            else:
                r = a * b
                ov = z3.Not(z3.BVMulNoOverflow(a, b, signed))
                if signed:
                    ov = z3.Or(ov, z3.Not(z3.BVMulNoUnderflow(a, b)))
            return Agg('()', None, (r, ov), 'tuple')
        if op == 'Cmp':
            lt = cmpops['Lt']()
            eq = a == b
            return Sym('cmp', 'Ordering').with_ov('discr', z3.If(lt, z3.BitVecVal(-1, 8), z3.If(eq, z3.BitVecVal(0, 8), z3.BitVecVal(1, 8))))
        raise Unmodelled(f'binop {op}')

    def rvalue(self, p, frame, rv, dest_ty):
        k = rv[0]
        if k == 'use':
            return self.operand(p, frame, rv[1])
        if k == 'ref':
            base, prj = rv[2]
            if len(prj) == 1 and prj[0][0] == 'deref':
                # `&(*x)` with x a `&str` / `&[u8]` literal modelled by its value: the reborrow is that value
                v0 = self.read_loc(p, frame, ('L', frame.id, base), ())
                if isinstance(v0, (Str, Bytes)) or (isinstance(v0, z3.ExprRef) and z3.is_string(v0)):
                    return v0
            key, projs = self.loc_of(p, frame, rv[2])
            return Ptr(key, projs, rv[1], self.place_type(frame, rv[2]))
        if k == 'discr':
            v = self.read_place(p, frame, rv[1])
            return self.discriminant(v, dest_ty)
        if k == 'bin':
            a, b = self.operand(p, frame, rv[2]), self.operand(p, frame, rv[3])
            ta = self.operand_type(frame, rv[2]) or self.operand_type(frame, rv[3])
            if isinstance(a, (Sym, Agg)) and isinstance(b, (Sym, Agg)) and rv[1] in ('Eq', 'Ne'):
                w = int_width(ta) or 64
            return self.binop(rv[1], a, b, ta, frame)
        if k == 'un':
            a = self.operand(p, frame, rv[2])
            if rv[1] == 'Not':
                if isinstance(a, z3.BoolRef):
                    return z3.Not(a)
                if isinstance(a, z3.ExprRef):
                    return ~a
            if rv[1] == 'Neg' and isinstance(a, z3.ExprRef):
                return -a
            if rv[1] == 'PtrMetadata':
                tgt = None
                if isinstance(a, Ptr):
                    try:
                        tgt = self.read_loc(p, frame, a.key, a.projs)
                    except Unmodelled:
                        tgt = None
                if isinstance(tgt, Bytes):
                    tgt = bytes_to_agg(tgt)
                if isinstance(tgt, Agg) and tgt.kind == 'array':
                    return z3.BitVecVal(len(tgt.fields), 64)
                if isinstance(tgt, z3.ExprRef) and z3.is_bv(tgt) and tgt.size() > 64 and tgt.size() % 8 == 0:
                    return z3.BitVecVal(tgt.size() // 8, 64)       # `[u8; N]` newtype modelled as one big-endian bit-vector
                return z3.BitVec(f'len({vname(a)})', 64)
            raise Unmodelled(f'unop {rv[1]} on {vrepr(a)}')
        if k == 'len':
            v = self.read_place(p, frame, rv[1])
            if isinstance(v, Agg) and v.kind == 'array':
                return z3.BitVecVal(len(v.fields), 64)
            if isinstance(v, z3.ExprRef) and z3.is_bv(v) and v.size() > 64 and v.size() % 8 == 0:
                return z3.BitVecVal(v.size() // 8, 64)
            return z3.BitVec(f'len({vname(v)})', 64)
        if k == 'cast':
            v = self.operand(p, frame, rv[1])
            kind, ty = rv[3], rv[2]
            if kind.startswith('IntToInt'):
                w = int_width(ty)
                src_t = self.operand_type(frame, rv[1])
                if isinstance(v, z3.BoolRef):
                    v = z3.If(v, z3.BitVecVal(1, w), z3.BitVecVal(0, w))
                    return v
                if not isinstance(v, z3.ExprRef):
                    v = self.to_bv(v, int_width(src_t) or w)
                if w is None or not z3.is_bv(v):
                    return self.fresh(f'cast({vname(v)})', ty)
                if v.size() == w:
                    return v
                if v.size() > w:
                    return z3.Extract(w - 1, 0, v)
                return z3.SignExt(w - v.size(), v) if is_signed(src_t) else z3.ZeroExt(w - v.size(), v)
            if kind.startswith(('PointerCoercion', 'PtrToPtr', 'Transmute', 'PointerExposeProvenance', 'PointerWithExposedProvenance', 'FnPtrToPtr')):
                return v
            if isinstance(v, (Sym, Agg, Ptr)):
                return v          # casts between non-scalar types (Subtype, closure coercions, ..) keep the value's identity
            return self.fresh(f'cast({vname(v)})', ty)
        if k == 'repeat':
            v = self.operand(p, frame, rv[1])
            try:
                n = int(re.sub(r'_usize$', '', rv[2].replace('const ', '')))
            except ValueError:
                n = None
            if n is not None and n <= 64:
                return Agg('[]', None, [v] * n, 'array')
            return Sym(f'repeat({vname(v)})', dest_ty)
        if k == 'agg':
            return self.aggregate(p, frame, rv, dest_ty)
        raise Unmodelled(f'rvalue {rv}')

    def aggregate(self, p, frame, rv, dest_ty):
        _, kind, head, names, ops = rv
        vals = [self.operand(p, frame, o) for o in ops]
        if kind == 'tuple':
            return Agg('()', None, vals, 'tuple') if vals else UNIT
        if kind == 'array':
            return Agg('[]', None, vals, 'array')
        if kind == 'closure':
            # closures and coroutines: state 0 + captured upvars as fields
            vals = self._complete_upvars(p, frame, head, ops, vals)
            s = Sym(f'clo{p.seq("clo")}', head)
            for i, v in enumerate(vals):
                s = s.with_ov(('f', i), v)
            s = s.with_ov('discr', z3.BitVecVal(0, 32))
            s = s.with_ov('head', Const(head))
            return s
        h = M.strip_generics(head)
        segs = [x for x in h.split('::') if x]
        ev = self.enums.lookup_path(h)
        if ev is not None:
            return Agg(ev[0], ev[1], vals, 'ctor', names)
        if len(segs) >= 2 and segs[-1][:1].isupper() and segs[-2][:1].isupper():
            return Agg(segs[-2], segs[-1], vals, 'ctor', names)
        if len(segs) == 1 and segs[0][:1].isupper() and kind == 'ctor':
            fv = self.enums.find_variant(segs[0])
            if fv is not None:
                return Agg(fv[0], fv[1], vals, 'ctor', names)
        return Agg(segs[-1] if segs else h, None, vals, kind, names)

    def upvar_types(self, f):
        """{field index: type} of the environment fields a closure body reads through _1"""
        out = {}
        # coroutine bodies reach their state through `_k = copy (_1.0: &mut {coroutine})` and `(*_k).N`
        bases = {'_1'}
        t0 = f.decl.get('_1', '')
        is_coroutine = t0.startswith('Pin<&mut {')
        if is_coroutine:
            for sts in f.blocks.values():
                for st, _ in sts:
                    if st[0] == 'assign' and st[2][0] == 'use' and st[2][1][0] in ('copy', 'move'):
                        pl = st[2][1][1]
                        if pl[0] == '_1' and len(pl[1]) == 1 and pl[1][0][0] == 'field' and pl[1][0][1] == 0 and not st[1][1]:
                            bases.add(st[1][0])

        def scan_co(x):
            if isinstance(x, tuple):
                if len(x) == 2 and isinstance(x[0], str) and x[0] in bases and isinstance(x[1], tuple):
                    projs = list(x[1])
                    if x[0] == '_1' and projs and projs[0][0] == 'field':
                        projs = projs[1:]
                    if projs and projs[0][0] == 'deref' and len(projs) > 1 and projs[1][0] == 'field':
                        out.setdefault(projs[1][1], projs[1][2])
                for y in x:
                    scan_co(y)
            elif isinstance(x, list):
                for y in x:
                    scan_co(y)
        if is_coroutine:
            for sts in f.blocks.values():
                for st, _ in sts:
                    scan_co(st)
            return out

        def scan(x):
            if isinstance(x, tuple):
                if len(x) == 2 and isinstance(x[0], str) and x[0] == '_1' and isinstance(x[1], tuple):
                    for pr in x[1]:
                        if pr[0] == 'deref':
                            continue
                        if pr[0] == 'field':
                            out.setdefault(pr[1], pr[2])
                        break
                for y in x:
                    scan(y)
            elif isinstance(x, list):
                for y in x:
                    scan(y)
        for sts in f.blocks.values():
            for st, _ in sts:
                scan(st)
        return out

    def _complete_upvars(self, p, frame, head, ops, vals):
        """rustc's MIR printer zips upvar *names* with operands and drops the operands beyond the
        number of names (disjoint captures of `self.x`); recover them: they are the consecutively
        numbered temporaries assigned right before the aggregate, with the field types the body expects"""
        f = self.closure_by_head(head)
        if f is None:
            return vals
        need = self.upvar_types(f)
        if not need or max(need) < len(vals):
            return vals
        if not ops or ops[-1][0] not in ('copy', 'move') or ops[-1][1][1]:
            return vals
        last = int(ops[-1][1][0][1:])
        vals = list(vals)
        norm = lambda t: re.sub(r"'\w+ ?|\s+", '', t or '')
        for i in range(len(vals), max(need) + 1):
            loc = f'_{last + 1 + (i - len(ops))}'
            dt = frame.fn.decl.get(loc)
            if dt is None or (i in need and norm(dt) != norm(need[i])):
                break
            vals.append(self.read_place(p, frame, (loc, ())))
        return vals

    def discriminant(self, v, dest_ty):
        w = int_width(dest_ty or 'isize') or 64
        if isinstance(v, Agg):
            if v.variant is None:
                return z3.BitVecVal(0, w)
            idx = self.enums.index(v.name, v.variant)
            if idx is None:
                raise Unmodelled(f'discriminant of {v.name}::{v.variant} unknown')
            return z3.BitVecVal(idx, w)
        if isinstance(v, Sym):
            o = v.get_ov('discr')
            if o is not None:
                if z3.is_bv(o) and o.size() != w:
                    o = z3.Extract(w - 1, 0, o) if o.size() > w else z3.SignExt(w - o.size(), o)
                return o
            return z3.BitVec(f'{v.name}.discr', w)
        if isinstance(v, z3.ExprRef) and z3.is_bv(v):
            return v
        raise Unmodelled(f'discriminant of {vrepr(v)}')

    def set_discr(self, v, idx, variant_name=None):
        if isinstance(v, Sym):
            return v.with_ov('discr', z3.BitVecVal(idx, 32))
        if isinstance(v, Agg):
            return v
        raise Unmodelled(f'set discriminant of {vrepr(v)}')

    # ------------------------------------------------------------------ execution
    class Frame:
        __slots__ = ('id', 'fn', 'depth', 'tagname', 'visits')

        def __init__(self, id, fn, depth):
            self.id, self.fn, self.depth = id, fn, depth
            self.tagname = f'f{id}'
            self.visits = {}

    def run(self, fn, args, p=None, tagname='in'):
        """explore all feasible paths of `fn` from `args`; returns list[Result]"""
        self.results = []
        p = p or Path()
        args = self.adapt_args(fn, args, p)

        def done(q, ret):
            self.results.append(Result(q, ret, 'return'))
        self.run_fn(fn, args, p, 0, done, tagname)
        return self.results

    def adapt_args(self, fn, args, p):
        """fit the entry arguments to the parameter passing mode `fn` declares today: a value for a `&T` parameter is put behind a
        fresh cell, a pointer to a cell for a by-value parameter is read (`pid: PeerId` <-> `pid: &PeerId` and the like)"""
        out = []
        for a, v in zip(fn.args, args):
            t = (fn.decl.get(a, '') or '').strip()
            is_ref = t.startswith('&') or t.startswith('*')
            if is_ref and v is not None and not isinstance(v, Ptr) and not (isinstance(v, Sym) and v.ty.strip().startswith('&')):
                cell = ('H', f'arg{a}', t.lstrip('&').replace('mut ', '').strip())
                p.mem[cell] = v
                out.append(Ptr(cell, (), t.startswith('&mut')))
            elif t and not is_ref and isinstance(v, Ptr) and v.key in p.mem and not v.projs and not re.match(r'(Box|Arc|Rc|Pin|std::\w+::(Box|Arc|Rc|Pin))<|impl |dyn ', t):
                out.append(p.mem[v.key])
            else:
                out.append(v)
        return out + list(args[len(out):])

    def end_path(self, p, tag, info=None):
        p.tags.append((tag, info))
        self.results.append(Result(p, None, tag))
        if len(self.results) > self.path_limit:
            raise Unmodelled('path limit exceeded')

    def run_fn(self, fn, args, p, depth, k, tagname=None):
        fr = Exec.Frame(next(self.frames), fn, depth)
        if tagname:
            fr.tagname = tagname
        for a, v in zip(fn.args, args):
            p.mem[('L', fr.id, a)] = v
        for a in fn.args[len(args):]:
            p.mem[('L', fr.id, a)] = self.fresh(f'{fr.tagname}{a}', fn.decl.get(a, ''))
        self.inlined.add(fn.raw)
        self.run_block(fr, 'bb0', p, k, {})

    def run_block(self, fr, bb, p, k, visits):
        fn = fr.fn
        n = visits.get(bb, 0)
        if n >= self.unroll:
            p.events.append(Event('loop-bound', bb, (), None, None, fr.depth))
            if fr.depth == 0:
                self.end_path(p, 'loop-bound', bb)
            else:
                self.end_path(p, 'loop-bound', bb)
            return
        visits = dict(visits)
        visits[bb] = n + 1
        p.trace.append((fn.name, bb))
        for st, span in fn.blocks[bb]:
            kind = st[0]
            if kind == 'nop':
                continue
            if kind == 'assign':
                dty = self.place_type(fr, st[1])
                self.write_place(p, fr, st[1], self.rvalue(p, fr, st[2], dty))
                continue
            if kind == 'setdiscr':
                key, projs = self.loc_of(p, fr, st[1])
                cur = self.read_loc(p, fr, key, projs)
                self.write_loc(p, fr, key, projs, self.set_discr(cur, st[2]))
                continue
            if kind == 'assume':
                c = self.operand(p, fr, st[1])
                if isinstance(c, z3.BoolRef):
                    p.pc.append(c)
                continue
            if kind == 'return':
                ret = self.read_loc(p, fr, ('L', fr.id, '_0'), ())
                k(p, ret)
                return
            if kind == 'unreachable':
                return
            if kind == 'resume':
                return
            if kind == 'goto':
                return self.run_block(fr, st[1], p, k, visits)
            if kind == 'switch':
                v = self.operand(p, fr, st[1])
                if not isinstance(v, z3.ExprRef):
                    v = self.to_bv(v, int_width(self.operand_type(fr, st[1])) or 64)
                taken = []
                branches = []
                for key, tgt in st[2]:
                    if key is None:
                        cond = z3.And([z3.Not(c) for c in taken]) if taken else z3.BoolVal(True)
                    else:
                        if z3.is_bool(v):
                            cond = v if key else z3.Not(v)
                        else:
                            cond = v == z3.BitVecVal(key, v.size())
                        taken.append(cond)
                    branches.append((cond, tgt))
                live = [(c, t) for c, t in branches if self.feasible(p.pc, c)]
                for i, (cond, tgt) in enumerate(live):
                    q = p if i == len(live) - 1 else p.clone()
                    sc = z3.simplify(cond)
                    if not z3.is_true(sc):
                        q.pc.append(cond)
                    self.run_block(fr, tgt, q, k, visits)
                return
            if kind == 'drop':
                v = self.read_place(p, fr, st[1])
                ty = self.place_type(fr, st[1])
                self.on_drop(p, fr, v, ty, span, lambda q, st=st: self.run_block(fr, st[2], q, k, visits))
                return
            if kind == 'assert':
                c = self.operand(p, fr, st[1])
                ok = c if st[2] else z3.Not(c)
                if self.feasible(p.pc, z3.Not(ok)):
                    q = p.clone()
                    q.pc.append(z3.Not(ok))
                    q.events.append(Event('panic', st[3][:80], (), None, span, fr.depth))
                    self.end_path(q, 'panic', st[3][:80])
                if self.feasible(p.pc, ok):
                    if not z3.is_true(z3.simplify(ok)):
                        p.pc.append(ok)
                    return self.run_block(fr, st[4], p, k, visits)
                return
            if kind == 'call':
                _, dest, callee, argops, ret = st
                args = [self.operand(p, fr, a) for a in argops]
                retty = self.place_type(fr, dest)
                if isinstance(callee, tuple):
                    fv = self.operand(p, fr, callee[1])
                    callee_name = '<indirect:' + vname(fv) + '>'
                else:
                    callee_name = callee
                call = Call(callee_name, args, retty, span, fn, fr.depth, fr, argops)

                def cont(q, val, dest=dest, ret=ret):
                    if ret is None:
                        if PANIC_ENTRY.search(call.short):
                            # explicit panic!/unreachable!/expect: the same outcome as a failed MIR assert
                            q.events.append(Event('panic', call.short, call.args, None, span, fr.depth))
                            self.end_path(q, 'panic', call.short)
                            return
                        q.events.append(Event('diverge', call.short, call.args, None, span, fr.depth))
                        self.end_path(q, 'diverge', call.short)
                        return
                    self.write_place(q, fr, dest, val)
                    self.run_block(fr, ret, q, k, visits)
                self.dispatch(p, call, cont)
                return
            if kind == 'unparsed':
                raise Unmodelled(f'unparsed MIR statement in {fn.name} {bb}: {st[1][:160]}')
            raise Unmodelled(f'statement kind {kind}')
        raise Unmodelled(f'block {bb} of {fn.name} fell through')

    # ------------------------------------------------------------------ drops
    def on_drop(self, p, fr, v, ty, span, k):
        p.events.append(Event('drop', ty, (v,), None, span, fr.depth))
        k(p)

    # ------------------------------------------------------------------ calls
    def resolve(self, callee):
        """crate-local definition for a call-site path, or None"""
        if callee in self._resolve_cache:
            return self._resolve_cache[callee]
        r = self._resolve(callee)
        self._resolve_cache[callee] = r
        return r

    def _resolve(self, callee):
        prog = self.prog
        c = callee.strip()
        trait = None
        m = re.match(r'^<(.*) as ([^>]*(?:<.*>)?)>::(\w+)(?:::<.*>)?$', c, re.S)
        if m:
            # <Type as Trait>::method
            selfty, trait, meth = m.group(1), M.type_head(m.group(2)), m.group(3)
            # split "X as Trait" at top level
            parts = _split_as(c)
            if parts:
                selfty, trait, meth = parts
            th = M.type_head(selfty)
            cands = []
            for f in prog.by_last.get(meth, []):
                if f.impl_span is None:
                    continue
                tr, st = prog.impl_header(f.impl_span)
                if tr is None or st is None:
                    continue
                if M.type_head(tr) == trait and M.type_head(st) == th and f.name.endswith('<impl>::' + meth):
                    cands.append(f)
            cands = _dedupe(cands)
            if not cands and trait in self.local_traits() and not (len(th or '') <= 2):
                # the impl is written for a type alias of the receiver (`impl Trait for Alias`): a trait of this crate with a single
                # implementation of that method leaves no choice
                alt = []
                for f in prog.by_last.get(meth, []):
                    if f.impl_span is None or not f.blocks or not f.name.endswith('<impl>::' + meth):
                        continue
                    tr, st = prog.impl_header(f.impl_span)
                    if tr is not None and M.type_head(tr) == trait:
                        alt.append(f)
                alt = _dedupe(alt)
                if len(alt) == 1:
                    return alt[0]
            hint = M.strip_generics(selfty)
            mods = [x for x in hint.split('::')[:-1] if x[:1].islower()]
            if mods:
                cands = [f for f in cands if _module_hint(f, '::'.join(mods))]
            return cands[0] if len(cands) == 1 else None
        mi = re.match(r'^(.*?)<impl (.*)>::(\w+)$', c, re.S)
        if mi:
            # macro-generated inherent impl: `mod::_::<impl Type<..>>::method`
            mod, ty, meth = mi.group(1), M.type_head(mi.group(2)), mi.group(3)
            cands = [f for f in prog.by_last.get(meth, []) if f.raw.startswith(mod) and f.args and ty and re.search(r'\b' + re.escape(ty) + r'\b', f.decl.get(f.args[0], ''))]
            cands = _dedupe(cands)
            return cands[0] if len(cands) == 1 else None
        s = M.strip_generics(c)
        segs = [x for x in s.split('::') if x]
        if not segs:
            return None
        meth = segs[-1]
        if meth.startswith('{closure'):
            fs = prog.fns.get(c) or []
            return fs[0] if fs else None
        cands = []
        for f in prog.by_last.get(meth, []):
            if f.impl_span is not None:
                if len(segs) < 2:
                    continue
                tr, st = prog.impl_header(f.impl_span)
                if tr is None and st is not None and M.type_head(st) == segs[-2] and f.name.endswith('<impl>::' + meth):
                    cands.append(f)
            else:
                # free function: def name is a (trimmed) path ending in meth
                dsegs = f.name.split('::')
                if dsegs[-1] == meth and '{' not in f.name:
                    # the shorter of the two paths must be a suffix of the other
                    a, b = dsegs, segs
                    if len(a) > len(b):
                        a, b = b, a
                    if b[len(b) - len(a):] == a:
                        cands.append(f)
        cands = _dedupe(cands)
        # leading lowercase segments are a module path: it must belong to this crate's definition
        mods = [x for x in segs[:-1] if x[:1].islower()]
        if mods:
            cands = [f for f in cands if _module_hint(f, '::'.join(mods))]
        return cands[0] if len(cands) == 1 else None

    def closure_fn(self, clo):
        """MIR body of a crate-local closure / coroutine value"""
        head = None
        if isinstance(clo, Sym):
            h = clo.get_ov('head')
            head = h.text if isinstance(h, Const) else (clo.ty if clo.ty.lstrip().startswith('{') else None)
        elif isinstance(clo, Const):
            m = re.search(r'(\{closure@[^}]*\})', clo.text)
            head = m.group(1) if m else None
        if not head:
            return None
        return self.closure_by_head(head)

    def closure_by_head(self, head):
        key = ('clo', head)
        if key in self._resolve_cache:
            return self._resolve_cache[key]
        res = None
        inner = head.strip()
        inner = re.sub(r'^Pin<&mut (.*)>$', r'\1', inner)
        msp = re.search(r'@(\S+:\d+:\d+: \d+:\d+)', inner)
        if msp:
            # match by source span: `{coroutine@f:l:c: l:c (#0)}` and `{async block@f:l:c: l:c}` name the same body
            for fs in self.prog.fns.values():
                for f in fs:
                    if f.args and re.search(r'\{closure#\d+\}$', f.raw) and (('@' + msp.group(1)) in f.decl.get(f.args[0], '')
                                                                              or getattr(f, 'body_span', None) == msp.group(1)):
                        res = f
                        break
                if res:
                    break
            self._resolve_cache[key] = res
            return res
        for fs in self.prog.fns.values():
            for f in fs:
                if not f.args:
                    continue
                t = f.decl.get(f.args[0], '')
                if inner and inner in t and re.search(r'\{closure#\d+\}$', f.raw):
                    tt = re.sub(r"^(&\s*(mut\s+)?|Pin<&mut\s+)", '', t).rstrip('>') if t.startswith('Pin<') else re.sub(r"^&\s*(mut\s+)?", '', t)
                    if tt.strip() == inner:
                        res = f
                        break
            if res:
                break
        self._resolve_cache[key] = res
        return res

    def dispatch(self, p, call, k):
        for pat, model in self.models:
            if pat.search(call.short):
                r = model(self, p, call, k)
                if r is not NotImplemented:
                    return
        if not any(o.search(call.short) for o in self.opaque):
            f = self.resolve(call.callee) if isinstance(call.callee, str) else None
            if f is not None and f.blocks and call.depth >= self.max_depth and call.depth < self.max_depth + 4 and self.is_derived(f):
                # `#[derive(PartialEq/Clone/..)]` bodies are structural: executing them does not count towards the inline depth
                return self.run_fn(f, call.args, p, call.depth + 1, k)
            if f is not None and call.depth < self.max_depth and f.blocks:
                p.events.append(Event('enter', call.short, call.args, None, call.span, call.depth))

                def after(q, ret):
                    q.events.append(Event('leave', call.short, (), ret, call.span, call.depth))
                    k(q, ret)
                return self.run_fn(f, call.args, p, call.depth + 1, after)
        self.opaque_call(p, call, k)

    def is_derived(self, f):
        if f.impl_span is None:
            return False
        key = ('derived', f.impl_span)
        if key not in self._resolve_cache:
            m = re.fullmatch(r'(.*?):(\d+):(\d+): (\d+):(\d+)', f.impl_span)
            res = False
            if m:
                lines = self.prog.src_lines(m.group(1))
                l1, c1 = int(m.group(2)), int(m.group(3))
                if lines and l1 <= len(lines):
                    res = not lines[l1 - 1][c1 - 1:].lstrip().startswith(('impl', 'unsafe impl'))
            self._resolve_cache[key] = res
        return self._resolve_cache[key]

    def local_traits(self):
        if getattr(self, '_local_traits', None) is None:
            import glob
            names = set()
            root = getattr(self.prog, 'src_root', None)
            for rel in {f.body_span.split(':')[0] for fs in self.prog.fns.values() for f in fs if getattr(f, 'body_span', None)}:
                names.update(re.findall(r'\btrait\s+(\w+)', '\n'.join(self.prog.src_lines(rel))))
            self._local_traits = names
        return self._local_traits

    def opaque_call(self, p, call, k, effect=None):
        m_ = re.match(r'^<(\w+) as (?:\w+::)*(\w+)(?:<.*>)?>::\w+$', call.short or '')
        if m_ and len(m_.group(1)) <= 2 and m_.group(2) in self.local_traits():
            # a method of a trait of this crate called on a generic parameter: the body that runs is decided by the instantiation, which
            # this executor does not substitute - whatever is concluded from its opaque result is not a statement about the code
            if not hasattr(self, 'unresolved_local'):
                self.unresolved_local = set()
            self.unresolved_local.add(call.short)
        name = self.result_name(p, call)
        ret = self.fresh(name, call.retty)
        if isinstance(ret, Sym):
            ret = ret.with_ov('from', (call.short, tuple(call.args)))
        elif isinstance(ret, Ptr) and ret.key not in p.mem:
            # a returned reference: its pointee carries the provenance
            tgt = self.fresh(ret.key[1], ret.key[2] if len(ret.key) > 2 else '')
            if isinstance(tgt, Sym):
                p.mem[ret.key] = tgt.with_ov('from', (call.short, tuple(call.args)))
        p.events.append(Event('call', call.short, call.args, ret, call.span, call.depth, effect))
        k(p, ret)

    def result_name(self, p, call, force_seq=False):
        short = call.short.split('::')[-1] if not call.short.startswith('<') else re.sub(r'[<>]', '', call.short).split('::')[-1]
        base = f'{short}({",".join(vname(a) for a in call.args)})'
        if len(base) > 120:
            base = base[:100] + '#' + str(abs(hash(base)) % 10000)
        ctor_like = not call.args and re.search(r'(::|^)(new|new_uninit|default|with_capacity|channel|builder)$', call.short) is not None and \
            re.search(r'^(Box|Vec|String|BytesMut|HashMap|BTreeMap|JoinSet|Arc|Rc)\b|::(Box|Vec|BytesMut|JoinSet)::', call.short) is not None
        eff = force_seq or ctor_like or any(_has_mut_ptr(a) for a in call.args)
        if eff:
            return f'{base}#{p.seq(base)}'
        return base

    def emit(self, p, call, kind='call', ret=None, extra=None, name=None):
        p.events.append(Event(kind, name or call.short, call.args, ret, call.span, call.depth, extra))

    def call_closure(self, p, clo, args, call, k):
        """invoke a closure value with `args` (tuple of values)"""
        if isinstance(clo, Const) and '{closure' not in clo.text and re.match(r'^[\w:<>, ]+$', clo.text.replace('ZeroSized: ', '')):
            # a function item used as a callable (e.g. `.map(Duration::from_millis)`): an ordinary call
            name = clo.text.replace('ZeroSized: ', '').strip()
            c2 = Call(name, list(args), call.retty if False else '', call.span, call.fn, call.depth, call.frame, None)
            return self.dispatch(p, c2, k)
        if isinstance(clo, Agg) and clo.variant and not clo.fields and clo.kind not in ('tuple', 'array') and len(args) >= 1:
            # an enum variant constructor used as a function (`.map(Ok)`, `.map(Some)`)
            return k(p, Agg(clo.name, clo.variant, tuple(args), clo.kind))
        f = self.closure_fn(clo)
        if f is None or call.depth >= self.max_depth + 2:
            name = f'closure({vname(clo)})({",".join(vname(a) for a in args)})'
            ret = self.fresh(name, '')
            p.events.append(Event('call', 'closure', (clo,) + tuple(args), ret, call.span, call.depth))
            return k(p, ret)
        # first arg of the closure body is the closure itself (by value, & or &mut)
        t0 = f.decl.get(f.args[0], '')
        if t0.startswith('&'):
            cell = ('H', f'clo-env{p.seq("cloenv")}', '')
            p.mem[cell] = clo
            self_arg = Ptr(cell, (), True)
        else:
            self_arg = clo
        # remaining args: MIR closure bodies take the argument tuple spread as _2, _3, ..
        return self.run_fn(f, [self_arg] + list(args), p, call.depth + 1, k)


def derives_from(v, pred, depth=0, ex=None, p=None):
    """does value `v` (transitively through call arguments, aggregate fields and - if ex/p are given -
    pointers, read in the path's final memory) contain a value satisfying pred"""
    if depth > 40:
        return False
    if pred(v):
        return True
    if isinstance(v, Ptr) and ex is not None and p is not None:
        try:
            return derives_from(ex.read_loc(p, None, v.key, v.projs), pred, depth + 1, ex, p)
        except Exception:
            return False
    if isinstance(v, Agg):
        return any(derives_from(x, pred, depth + 1, ex, p) for x in v.fields)
    if isinstance(v, Sym):
        fr = v.get_ov('from')
        if fr is not None and (pred(('call', fr[0])) or any(derives_from(x, pred, depth + 1, ex, p) for x in fr[1])):
            return True
        if p is not None:
            # contents written through a pointer obtained from this value (Box/Vec initialisation)
            for key, val in list(p.mem.items()):
                if key[0] == 'H' and isinstance(key[1], str) and key[1].startswith(v.name + '.') and val is not v and derives_from(val, pred, depth + 1, ex, p):
                    return True
        return any(derives_from(val, pred, depth + 1, ex, p) for key, val in v.ov if key not in ('from', 'discr', 'head') and not isinstance(val, str))
    return False


def _has_mut_ptr(a, depth=0):
    if isinstance(a, Ptr):
        return a.mut
    if isinstance(a, Agg) and depth < 2:
        return any(_has_mut_ptr(x, depth + 1) for x in a.fields)
    return False


def _dedupe(fs):
    seen, out = set(), []
    for f in fs:
        if f.raw not in seen:
            seen.add(f.raw)
            out.append(f)
    return out


def _module_hint(f, hint):
    """does the def's file / module path mention the module segments of `hint`"""
    segs = [x for x in hint.split('::') if x and x[:1].islower()]
    if not segs:
        return False
    where = (f.impl_span or '') + ' ' + f.raw
    return all(re.search(r'\b' + re.escape(s) + r'\b', where) for s in segs)


def _split_as(c):
    """'<A as B>::m' -> (A, head(B), m) with top-level ' as ' split"""
    if not c.startswith('<'):
        return None
    d = 0
    end = None
    for i, ch in enumerate(c):
        if ch == '<' and not (i > 0 and c[i - 1] == '-'):
            d += 1
        elif ch == '>' and not (i > 0 and c[i - 1] in '-='):
            d -= 1
            if d == 0:
                end = i
                break
    if end is None:
        return None
    inner, rest = c[1:end], c[end + 1:]
    d = 0
    pos = None
    for i, ch in enumerate(inner):
        if ch in '<([':
            if not (ch == '<' and i > 0 and inner[i - 1] == '-'):
                d += 1
        elif ch in '>)]':
            if not (ch == '>' and i > 0 and inner[i - 1] in '-='):
                d -= 1
        elif d == 0 and inner[i:i + 4] == ' as ':
            pos = i
    if pos is None:
        return None
    a, b = inner[:pos], inner[pos + 4:]
    m = re.match(r'^::(\w+)', rest)
    if not m:
        return None
    return a.strip(), M.type_head(b), m.group(1)
