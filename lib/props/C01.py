"""C01 - peer identity is cryptographically authenticated (anemo's delegation and data flow; the cryptography is a trusted base)."""
from common import *
import mirdump
from props import tlsglue, rpcpath

PROP = 'C01'


def check(report, tier, only=None):
    report.trusted += ['Ed25519 unforgeability (ring)', 'rustls TLS 1.3 handshake state machine: verify_tls13_signature is called on the end-entity certificate and the transcript',
                       'webpki chain/self-signature validation and expiry', 'x509-parser / pkcs8 DER parsing']
    report.outside += ['signature and certificate validity themselves, expiry, malformed DER handling inside the parsers, replay resistance of TLS',
                       'every single-byte mutation of a certificate (needs the parsers under the solver: > 15 min / 20 GB on a concrete certificate, DESIGN 0)']
    obs = [('signature', tlsglue.ob_signature_delegation), ('client_auth', tlsglue.ob_client_auth_mandatory), ('server_cert', tlsglue.ob_server_cert_verifier),
           ('client_cert', tlsglue.ob_client_cert_verifier), ('identity_is', tlsglue.ob_peer_id_extraction), ('connection_identity', tlsglue.ob_connection_identity),
           ('pinned', tlsglue.ob_expected_verifier), ('listener_cert_by_sni', tlsglue.ob_server_config_sni),
           ('tls_state_per_endpoint', tlsglue.ob_tls_state_per_endpoint)]
    for n, f in obs:
        if only and not any(s in n for s in only):
            continue
        f(report, PROP)
    # a caller who asked for identity X is only ever answered by a dial pinned to X (an answer borrowed from another dial attributes the wrong party)
    if not only or any(s in 'connect_request' for s in only):
        from props import C03
        C03.ob_connect_request(report)
    for n, f in (('one_request', rpcpath.ob_do_handle), ('one_stream', rpcpath.ob_do_rpc)):
        if only and not any(s in n for s in only):
            continue
        f(report, PROP)
    if not only or any(s in 'identity_extensions' for s in only):
        from props import extensions
        extensions.ob_identity_extensions_not_shadowed(report, PROP)
    report.extra['mir_sha'] = mirdump.mir_sha('anemo')


def replay(path):
    print(open(path).read())
    return 0
