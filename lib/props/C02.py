"""C02 - RPC delivery integrity, pairing and at-most-once handling (per-stream obligations; QUIC trusted)."""
from common import *
import mirdump
from props import rpcpath, C07_e2, C06, C11

PROP = 'C02'


def check(report, tier, only=None):
    report.trusted += ['quinn: stream isolation, ordering, loss recovery, no duplication', 'bincode default layout', 'z3 5.1']
    report.outside += ['concurrency across streams, datagram loss/reordering/duplication (QUIC)', 'multi-megabyte bodies', 'header-map content beyond identity (hashbrown/serde)']
    obs = [('one_stream', lambda rep: rpcpath.ob_do_rpc(rep, PROP)), ('one_request', lambda rep: rpcpath.ob_do_handle(rep, PROP)),
           ('accept_loop', C06.ob_accept_loop), ('send_stream_drop', lambda rep: rpcpath.ob_send_stream_drop(rep, PROP)),
           ('send_stream_write', lambda rep: rpcpath.ob_send_stream_transparent(rep, PROP)),
           # the caller is handed exactly what the RPC produced (no outcome is fabricated on the way out)
           ('peer_call', C11.ob_peer_uses_layer),
           ('write_request', lambda rep: C07_e2.ob_write(rep, 'request')), ('write_response', lambda rep: C07_e2.ob_write(rep, 'response')),
           ('read_request', lambda rep: C07_e2.ob_read(rep, 'request')), ('read_response', lambda rep: C07_e2.ob_read(rep, 'response')), ('raw_header', C07_e2.ob_serde_fields),
           # the built-in middleware between the wire and the handler / caller only reads the request (it passes on exactly what was sent)
           ('inbound_timeout_passes_request', lambda rep: C11.ob_selection(rep, 'inbound')), ('outbound_timeout_passes_request', lambda rep: C11.ob_selection(rep, 'outbound')),
           # the typed client hands the transport the caller's request (route, headers, extensions), only the body encoded
           ('typed_client', lambda rep: C11.ob_typed_client_forwards_request(rep, PROP))]
    for n, f in obs:
        if only and not any(s in n for s in only):
            continue
        f(report)
    report.extra['mir_sha'] = mirdump.mir_sha('anemo')


def replay(path):
    print(open(path).read())
    return 0
