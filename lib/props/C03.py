"""C03 - dialing with an expected identity only ever reaches that identity (anemo's own glue; TLS trusted)."""
import re, z3
from common import *
import e2, mirdump
from e2 import *
from mirsym import models as MD
from mirsym.sym import derives_from
from props import tlsglue, dial, C04
from props.cmodels import *

PROP = 'C03'


def viol(ob, exs, detail, key, sample, n):
    o = ob.done(exs, 'violated', detail, sample, key=key, paths=n)
    o.replay = write_replay(PROP, o.name, {'detail': detail, 'sample': sample})
    return o


def ob_connecting_result(report):
    def body(ob):
        def m_add_peer(ex, p, call, k):
            p.events.append(Event('add-peer', 'add_peer', (call.args[1],)))
            k(p, UNIT)

        def m_send(ex, p, call, k):
            p.events.append(Event('reply', 'oneshot::Sender::send', (call.args[0], call.args[1])))
            k(p, Sym(f'send_result{p.seq("sr")}', 'Result'))
        ex = e2.executor('anemo', CONNECTION_MODELS + [(r'ConnectionManager::add_peer$', m_add_peer), (r'oneshot::Sender::send$', m_send)], max_depth=2)
        e2.require_methods(ex.prog, ('ConnectionManager', 'add_peer'))
        fn = find_method(ex.prog, 'ConnectionManager', 'handle_connecting_result')
        of = struct_fields('crates/anemo/src/network/connection_manager.rs', 'ConnectingOutput')
        out = struct_sym('out', 'ConnectingOutput', of, {'connecting_result': Sym('result', 'Result<Connection, anyhow::Error>'), 'maybe_oneshot': Sym('oneshot', 'Option<Sender>')})
        res = ex.run(fn, [Ptr(('H', 'cm', 'ConnectionManager'), (), True), out])
        rd = z3.BitVec('result.discr', 64)
        od = z3.BitVec('oneshot.discr', 64)
        seen = set()
        for r in res:
            if r.tag == 'loop-bound':
                continue            # iterations beyond the unrolling bound: outside the claim
            if r.tag != 'return':
                return viol(ob, [ex], f'handle_connecting_result can {r.tag}', 'result-abnormal', path_summary(r), len(res))
            ok_ = e2.solve(r.pc + [rd != 0], want_model=False)[0] == 'unsat'
            ad = [i for i, e in enumerate(r.events) if e.kind == 'add-peer']
            rp = [i for i, e in enumerate(r.events) if e.kind == 'reply']
            has_tx = e2.solve(r.pc + [od != 1], want_model=False)[0] == 'unsat'
            if ok_:
                seen.add('ok')
                if len(ad) != 1 or vname(r.events[ad[0]].args[0]) != 'result@Ok.0':
                    return viol(ob, [ex], 'an established connection is not handed to add_peer exactly once', 'result-add', path_summary(r), len(res))
                if has_tx:
                    seen.add('ok-reply')
                    if len(rp) != 1 or rp[0] < ad[0]:
                        return viol(ob, [ex], 'the dial is reported successful before (or without) the connection being registered', 'result-order', path_summary(r), len(res))
                    v = r.events[rp[0]].args[1]
                    if not (isinstance(v, Agg) and v.variant == 'Ok' and str(v.fields[0]) == 'pid(result@Ok.0)'):
                        return viol(ob, [ex], f'the identity reported to the caller is {vrepr(v)}, not the authenticated identity of the new connection', 'result-identity', path_summary(r), len(res))
            else:
                seen.add('err')
                if ad:
                    return viol(ob, [ex], 'a failed connection attempt is registered', 'result-err-add', path_summary(r), len(res))
                if has_tx:
                    v = r.events[rp[0]].args[1] if rp else None
                    if not (isinstance(v, Agg) and v.variant == 'Err'):
                        return viol(ob, [ex], 'a failed connection attempt is not reported as an error', 'result-err-reply', path_summary(r), len(res))
        if not {'ok', 'ok-reply', 'err'} <= seen:
            return ob.done([ex], 'inconclusive', f'vacuity: {seen}', paths=len(res))
        ob.done([ex], 'held', '', {'paths': len(res)}, paths=len(res))
    return guarded(report, 'dial_result_after_registration', 'handle_connecting_result: Ok(conn) -> add_peer(conn) first, then the caller is told Ok(conn.peer_id()); Err -> nothing registered, Err reported',
                   ['ConnectionManager::handle_connecting_result'], {'inline_depth': 2}, body)


def ob_connect_request(report):
    """an explicit connect request is only ever answered by a dial: handle_connect_request hands (address, expected id, reply
    channel) to exactly one dial task and never replies itself"""
    def body(ob):
        def m_spawn(ex, p, call, k):
            p.events.append(Event('spawn', 'JoinSet::spawn', (call.args[1],)))
            k(p, Sym(f'abort_handle{p.seq("ah")}', 'AbortHandle'))

        def m_send(ex, p, call, k):
            p.events.append(Event('reply', 'oneshot::Sender::send', (call.args[0], call.args[1])))
            k(p, Sym(f'send_result{p.seq("sr")}', 'Result'))
        ex = e2.executor('anemo', CONNECTION_MODELS + [(r'JoinSet::spawn$', m_spawn), (r'oneshot::Sender::send$', m_send)], max_depth=4)
        fn = find_method(ex.prog, 'ConnectionManager', 'handle_connect_request')
        addr, pid, tx = Sym('addr', 'Address'), Sym('wanted', 'Option<PeerId>'), Sym('reply_tx', 'oneshot::Sender<Result<PeerId>>')
        res = ex.run(fn, e2.bind_args(fn, dial.CM, [Ptr(('H', 'cm', 'ConnectionManager'), (), True)],
                                      [(r'^Address$', addr), (r'^Option<PeerId>$', pid), (r'^(oneshot::)?Sender<', tx)]))
        n = 0
        for r in res:
            if r.tag != 'return':
                if r.tag == 'panic' and poison_panic(r):
                    continue
                return viol(ob, [ex], f'handle_connect_request can {r.tag}', 'connect-abnormal', path_summary(r), len(res))
            rp = [e for e in r.events if e.kind == 'reply']
            sp = [e for e in r.events if e.kind == 'spawn']
            if rp:
                return viol(ob, [ex], f'a connect request is answered ({vrepr(rp[0].args[1])[:80]}) without a dial: no TLS handshake and no identity check back this reply',
                            'connect-reply-without-dial', path_summary(r), len(res))
            if len(sp) != 1:
                return viol(ob, [ex], f'a connect request starts {len(sp)} dial tasks (must be exactly one)', 'connect-dial-count', path_summary(r), len(res))
            fut = sp[0].args[0]
            got = {nm: derives_from(fut, (lambda v, nm=nm: isinstance(v, Sym) and v.name == nm), ex=ex, p=r.path) for nm in ('addr', 'wanted', 'reply_tx')}
            if not all(got.values()) or not derives_from(fut, lambda v: isinstance(v, Sym) and v.get_ov('head') is not None and 'dial_peer_task' in str(v.get_ov('head').text if hasattr(v.get_ov('head'), 'text') else ''), ex=ex, p=r.path) \
                    and not all(got.values()):
                return viol(ob, [ex], f'the dial task does not receive the request\'s own address / expected identity / reply channel: {got}', 'connect-dial-args', path_summary(r), len(res))
            n += 1
        if not n:
            return ob.done([ex], 'inconclusive', 'no path', paths=len(res))
        ob.done([ex], 'held', '', {'paths': len(res)}, paths=len(res))
    return guarded(report, 'connect_request_is_dialed', 'ConnectionManager::handle_connect_request: exactly one dial task is spawned with the request\'s own address, expected identity and reply '
                   'channel; nothing is replied before that dial ran (so every Ok a caller sees went through the pinned TLS handshake and the acknowledgement)',
                   ['ConnectionManager::handle_connect_request', 'ConnectionManager::dial_peer'], {'inline_depth': 4}, body)


def ob_handshake(report):
    def body(ob):
        ex = e2.executor('anemo', CONNECTION_MODELS, max_depth=1)
        fn = find_fn(ex.prog, r'^handshake::\{closure#0\}$')
        conn = Sym('conn', 'connection::Connection')
        outer = find_fn(ex.prog, r'^handshake$')
        by_ref = outer.decl.get(outer.args[0], '').lstrip().startswith('&')
        if by_ref:
            p, args = coroutine_start(ex, fn, [Ptr(('H', 'conn.cell', 'connection::Connection'), (), False, 'connection::Connection')])
            p.mem[('H', 'conn.cell', 'connection::Connection')] = conn
        else:
            p, args = coroutine_start(ex, fn, [conn])
        res = ex.run(fn, args, p)
        IN, OUT = C04.directions(ex)
        od = origin_discr('conn')
        seen = set()
        for r in res:
            if r.tag != 'return':
                return viol(ob, [ex], f'handshake can {r.tag}', 'hs-abnormal', path_summary(r), len(res))
            ret = r.ret
            if not (isinstance(ret, Agg) and ret.variant == 'Ready' and isinstance(ret.fields[0], Agg) and ret.fields[0].variant == 'Ok'):
                continue
            got = ret.fields[0].fields[0]
            if not (by_ref and isinstance(got, Agg) and not got.fields) and vname(got) != 'conn':      # Result<()> when the connection is only borrowed
                return viol(ob, [ex], 'handshake returns a different connection', 'hs-conn', path_summary(r), len(res))
            names = [(e.name if isinstance(e.name, str) else '') for e in r.events if e.kind in ('call', 'poll', 'enter')]
            seq = [n for n in names]
            pcs = ' '.join(str(z3.simplify(c)).replace('\n', ' ') for c in r.pc if 'origin(' not in str(c))
            def has(pat):
                return any(re.search(pat, n) for n in seq)
            dom = [z3.Or(od == IN, od == OUT)]
            if e2.solve(r.pc + dom + [od != IN], want_model=False)[0] == 'unsat':
                seen.add('listener')
                need = [r'Connection::open_uni', r'write_version_frame', r'SendStream::finish', r'SendStream::stopped']
                idx = []
                for pat in need:
                    hit = [i for i, n in enumerate(seq) if re.search(pat, n)]
                    if not hit:
                        return viol(ob, [ex], f'listener side of the handshake succeeds without {pat} (the dialer\'s acknowledgement is not awaited)', 'hs-listener-missing:' + pat.split('::')[-1], path_summary(r), len(res))
                    idx.append(hit[0])
                if idx != sorted(idx):
                    return viol(ob, [ex], 'listener handshake steps out of order', 'hs-listener-order', path_summary(r), len(res))
                if re.search(r'discr == 1', pcs):
                    return viol(ob, [ex], 'listener handshake returns Ok although a step failed', 'hs-listener-failed-step', path_summary(r), len(res))
            elif e2.solve(r.pc + dom + [od != OUT], want_model=False)[0] == 'unsat':
                seen.add('dialer')
                for pat in (r'Connection::accept_uni', r'read_version_frame'):
                    if not has(pat):
                        return viol(ob, [ex], f'dialer side of the handshake succeeds without {pat}', 'hs-dialer-missing:' + pat.split('::')[-1], path_summary(r), len(res))
                if re.search(r'discr == 1', pcs):
                    return viol(ob, [ex], 'dialer handshake returns Ok although a step failed', 'hs-dialer-failed-step', path_summary(r), len(res))
        if seen != {'listener', 'dialer'}:
            return ob.done([ex], 'inconclusive', f'vacuity: {seen}', paths=len(res))
        ob.done([ex], 'held', '', {'paths': len(res)}, paths=len(res))
    return guarded(report, 'handshake_ack_order', 'wire::handshake: the listener returns Ok (and is therefore registered) only after open_uni, write_version_frame, finish and stopped() all succeeded; '
                   'the dialer only after accept_uni and read_version_frame succeeded; same connection returned', ['wire::handshake'], {'inline_depth': 1}, body)


def ob_connect_api(report):
    """Network::connect_with_peer_id(addr, id) -> NetworkInner::connect: the connect request handed to the connection manager carries the caller's own
    address and the caller's own expected identity (None for an unpinned dial) - nothing on the way substitutes another identity for the one named
    (say the identity on record for that address): the pin the dial is checked against must be the one the caller asked for"""
    def body(ob):
        ex = e2.executor('anemo', [], max_depth=2)
        fn0 = find_method(ex.prog, 'NetworkInner', 'connect')
        fn = find_closure(ex.prog, fn0, [0])
        ut = ex.upvar_types(fn)
        i_addr = [i for i, t in ut.items() if re.search(r'(^|::)Address$', (t or '').strip())]
        i_pid = [i for i, t in ut.items() if re.search(r'Option<(\w+::)*PeerId>$', (t or '').strip())]
        if len(i_addr) != 1 or len(i_pid) != 1:
            return ob.done([ex], 'inconclusive', f'NetworkInner::connect: address / expected-identity parameters not identified among {ut}', paths=0)
        p, args = coroutine_start(ex, fn)
        res = ex.run(fn, args, p)
        n = 0
        for r in res:
            snd = [e for e in r.events if e.kind == 'call' and re.search(r'mpsc::(bounded::)?Sender::(send|try_send)$|Sender::send$', str(e.name)) and len(e.args) > 1
                   and isinstance(e.args[1], Agg) and e.args[1].variant == 'ConnectRequest']
            if not snd:
                if r.tag == 'return' and isinstance(r.ret, Agg) and r.ret.variant == 'Ready' and isinstance(r.ret.fields[0], Agg) and r.ret.fields[0].variant == 'Ok':
                    o = ob.done([ex], 'violated', 'NetworkInner::connect reports success on a path that never asks the connection manager to dial', path_summary(r), key='connect-api-no-request', paths=len(res))
                    o.replay = write_replay(PROP, o.name, path_summary(r))
                    return o
                continue
            n += 1
            flat = e2.flatten_args(list(snd[0].args[1].fields))
            addr_ok = any(vname(v) == f'gen.{i_addr[0]}' for v in flat)
            pid_vals = [v for v in flat if re.search(r'^gen\.%d(\b|$)' % i_pid[0], vname(v))]
            if not addr_ok or not pid_vals or vname(pid_vals[0]) != f'gen.{i_pid[0]}':
                got = [vrepr(v)[:60] for v in flat]
                o = ob.done([ex], 'violated', f'the connect request sent to the connection manager is {got}: not the caller\'s own (address, expected identity) - the identity the dial is pinned to '
                            'was replaced on the way (the caller named one identity, the dial checks another)', path_summary(r), key='connect-api-substitutes', paths=len(res))
                o.replay = write_replay(PROP, o.name, path_summary(r))
                return o
        if not n:
            return ob.done([ex], 'inconclusive', 'no path sends a connect request', paths=len(res))
        ob.done([ex], 'held', '', {'paths': len(res), 'requests_checked': n}, paths=len(res))
    return guarded(report, 'connect_api_passes_expected_identity', 'NetworkInner::connect(addr, expected): the ConnectRequest it sends carries exactly (addr, expected)', ['NetworkInner::connect'],
                   {'inline_depth': 2}, body)


def check(report, tier, only=None):
    report.trusted += ['rustls/webpki/ring/x509-parser (TLS 1.3 handshake, signature and certificate validation)', 'quinn', 'z3 5.1']
    report.outside += ['that TLS actually fails for an impostor (cryptographic trust base)', 'loss during the handshake, concurrent dials', 'quinn connect_with plumbing']
    obs = [('pinned', lambda rep: tlsglue.ob_expected_verifier(rep, PROP)), ('expected_identity', lambda rep: tlsglue.ob_expected_id_flow(rep, PROP)),
           ('signature', lambda rep: tlsglue.ob_signature_delegation(rep, PROP)), ('dial_waits', lambda rep: dial.ob_dial_task(rep, PROP)),
           ('dial_result', ob_connecting_result), ('connect_request', ob_connect_request), ('handshake', ob_handshake), ('add_transition', C04.ob_add),
           # "registered" in dial_result_after_registration means add_peer: every connection it is given reaches ActivePeers::add (and gets its handler iff kept)
           ('add_peer_wiring', lambda rep: __import__('props.handler', fromlist=['x']).ob_add_peer(rep, PROP)),
           # the pin compares against the identity peer_id_from_certificate extracts: that must be the key the handshake signature was checked against (the parsed SPKI)
           ('identity_extraction', lambda rep: tlsglue.ob_peer_id_extraction(rep, PROP)), ('connect_api', ob_connect_api)]
    for n, f in obs:
        if only and not any(s in n for s in only):
            continue
        f(report)
    report.extra['mir_sha'] = mirdump.mir_sha('anemo')


def replay(path):
    print(open(path).read())
    return 0
