"""C04 - at most one connection per peer; peer events are an exact change log (E2: mirsym + z3).

One inductive step from an arbitrary state of the connection map, for every mutating operation
of ActivePeersInner; the lock bracketing of the ActivePeers wrappers; Connection accessors."""
import re, z3
from common import *
import e2, mirdump
from e2 import *
from mirsym import models as MD
from props.cmodels import *

PROP = 'C04'
MAPTY = 'std::collections::HashMap<types::peer_id::PeerId, connection::Connection>'


def conn_map_field():
    """index of ActivePeersInner's PeerId -> Connection map, found by its type (robust to renames/reorders)"""
    return struct_fields('crates/anemo/src/network/connection_manager.rs', 'ActivePeersInner').by_type(r'^HashMap<PeerId,Connection>$')


def inner_state(p):
    """self: &mut ActivePeersInner with a symbolic connection map"""
    cmap = Sym('conns', MAPTY)
    inner = Sym('inner', 'ActivePeersInner').with_ov(('f', conn_map_field()), cmap)
    p.mem[('H', 'inner', 'ActivePeersInner')] = inner
    return Ptr(('H', 'inner', 'ActivePeersInner'), (), True, 'ActivePeersInner')


def directions(ex):
    IN, OUT = ex.enums.index('Direction', 'Inbound'), ex.enums.index('Direction', 'Outbound')
    if IN is None or OUT is None:
        raise NotFound('Direction::{Inbound,Outbound}')
    return IN, OUT


def run_add(max_depth=7):
    ex = e2.executor('anemo', CONNECTION_MODELS, max_depth=max_depth)
    fn = find_method(ex.prog, 'ActivePeersInner', 'add')
    p = Path()
    selfp = inner_state(p)
    own = z3.BitVec('own', 256)
    p.mem[('H', 'own', 'PeerId')] = own
    new = Sym('new', 'connection::Connection')
    res = ex.run(fn, [selfp, Ptr(('H', 'own', 'PeerId')), new], p)
    return ex, fn, res


def violation(ob, exs, detail, key, sample, paths):
    o = ob.done(exs, 'violated', detail, sample, key=key, paths=paths)
    o.replay = write_replay(PROP, o.name, {'obligation': o.name, 'detail': detail, 'sample': sample})
    return o


def abstract_step(effs, key_name):
    """(present', events) from an effect list, for the invariant/alternation check"""
    present = None
    evs = []
    for e in effs:
        if e[0] == 'map-insert':
            present = True
        elif e[0] == 'map-remove':
            present = False
        elif e[0] == 'send':
            evs.append(e[1])
    return present, evs


def check_alternation(pre_present, effs):
    """representation invariant: entry present <=> last event of the peer is NewPeer.
    Returns None if the step preserves it and the emitted events alternate, else a message."""
    post, evs = abstract_step(effs, None)
    if post is None:
        post = pre_present
    last_new = pre_present
    for ev in evs:
        if ev == 'NewPeer':
            if last_new:
                return 'NewPeer emitted while the peer is already announced (no LostPeer in between)'
            last_new = True
        elif ev == 'LostPeer':
            if not last_new:
                return 'LostPeer emitted for a peer that is not announced'
            last_new = False
        else:
            return f'unknown event {ev}'
    if post != last_new:
        return f'after the step the map entry is {"present" if post else "absent"} but the last event is {"NewPeer" if last_new else "LostPeer/none"}'
    return None


def ob_add(report):
    def body(ob):
        ex, fn, res = run_add()
        IN, OUT = directions(ex)
        own, key = z3.BitVec('own', 256), z3.BitVec('pid(new)', 256)
        oldname = f'conns[{key}]'
        has = MD.map_has_initial(Sym('conns', MAPTY), key)
        eo, no = origin_discr(oldname), origin_discr('new')
        dom = [z3.Or(eo == IN, eo == OUT), z3.Or(no == IN, no == OUT)]
        T = tie_break_spec(own, key, eo, no, IN, OUT)
        shapes = {'vacant': 0, 'replace': 0, 'keep': 0}
        samples = []
        for r in res:
            if r.tag != 'return':
                if ex.feasible(r.pc + dom):
                    return violation(ob, [ex], f'add can {r.tag} ({r.path.tags})', 'add-abnormal-exit', path_summary(r), len(res))
                continue
            if not ex.feasible(r.pc + dom):
                continue
            effs = effects(r)
            kinds = [e[0] if e[0] != 'send' else 'send-' + e[1] for e in effs]
            sk = sorted(kinds)
            summary = {'pc': [str(z3.simplify(c))[:120] for c in r.pc], 'effects': fmt_effects(effs), 'ret': vrepr(r.ret)}
            # every map operation and every event must concern the new connection's peer id
            for e in effs:
                if e[0].startswith('map-') and not same(ex, r.pc, e[2], key):
                    return violation(ob, [ex], f'map updated under a key other than new_connection.peer_id(): {vrepr(e[2])}', 'add-wrong-key', summary, len(res))
                if e[0] == 'send' and (not e[2] or not same(ex, r.pc, e[2][0], key)):
                    return violation(ob, [ex], f'event announces a peer other than new_connection.peer_id(): {fmt_effects([e])}', 'add-wrong-event-peer', summary, len(res))
            # Option<Connection> at the pinned commit; a private Result<Connection, _> converted by the wrapper says the same
            ret_some_new = isinstance(r.ret, Agg) and r.ret.variant in ('Some', 'Ok') and vname(r.ret.fields[0]) == 'new'
            ret_none = isinstance(r.ret, Agg) and r.ret.variant in ('None', 'Err')
            if sk == sorted(['map-insert', 'send-NewPeer']):
                shape, guard, pre = 'vacant', z3.Not(has), False
                okv = vname(effs[kinds.index('map-insert')][3]) == 'new' and ret_some_new
            elif sk == sorted(['map-insert', 'close', 'send-LostPeer', 'send-NewPeer']):
                shape, guard, pre = 'replace', z3.And(has, T), True
                lost = effs[kinds.index('send-LostPeer')]
                okv = (vname(effs[kinds.index('map-insert')][3]) == 'new' and ret_some_new
                       and effs[kinds.index('close')][1] == oldname
                       and kinds.index('send-LostPeer') < kinds.index('send-NewPeer')
                       and len(lost[2]) == 2 and isinstance(lost[2][1], Agg) and lost[2][1].variant == 'Requested')
            elif sk == ['close']:
                shape, guard, pre = 'keep', z3.And(has, z3.Not(T)), True
                okv = effs[0][1] == 'new' and ret_none
            else:
                return violation(ob, [ex], f'unexpected effect sequence in add: {fmt_effects(effs)}', 'add-effects:' + ','.join(kinds), summary, len(res))
            if not okv:
                return violation(ob, [ex], f'{shape} path: wrong value/identity/order: {fmt_effects(effs)} ret={vrepr(r.ret)}', f'add-{shape}-values', summary, len(res))
            if not implied(ex, r.pc + dom, guard):
                q, m, _ = solve(r.pc + dom + [z3.Not(guard)])
                cex = {}
                if m is not None:
                    cex = {'own': hex(m.eval(own, True).as_long()), 'remote': hex(m.eval(key, True).as_long()),
                           'existing_origin': 'Inbound' if m.eval(eo, True).as_long() == IN else 'Outbound',
                           'new_origin': 'Inbound' if m.eval(no, True).as_long() == IN else 'Outbound',
                           'entry_present': z3.is_true(m.eval(has, True)), 'code_does': shape}
                summary['counterexample'] = cex
                return violation(ob, [ex], f'add takes the `{shape}` branch outside its specified guard: {cex}', f'add-{shape}-guard', summary, len(res))
            alt = check_alternation(pre, effs)
            if alt:
                return violation(ob, [ex], f'{shape} path breaks the change-log invariant: {alt}', f'add-{shape}-alternation', summary, len(res))
            shapes[shape] += 1
            if len(samples) < 3:
                samples.append(summary)
        if not all(shapes.values()):
            return ob.done([ex], 'inconclusive', f'vacuity: shapes reached {shapes}', paths=len(res))
        ob.done([ex], 'held', '', {'shapes': shapes, 'paths': samples}, paths=len(res))
    return guarded(report, 'add_transition', 'ActivePeersInner::add from an arbitrary map state: Vacant -> insert+NewPeer; Occupied & tie-break -> insert, '
                   'close(old), LostPeer(Requested) then NewPeer; Occupied & !tie-break -> close(new) only; guards exact for all ids/origins; '
                   'alternation invariant preserved', ['ActivePeersInner::add', 'ActivePeersInner::simultaneous_dial_tie_breaking', 'ActivePeersInner::send_event'],
                   {'inline_depth': 3, 'ids': '256-bit symbolic', 'state': 'arbitrary map (one inductive step)'}, body)


def _removal(report, name, method, what, with_sid):
    def body(ob):
        ex = e2.executor('anemo', CONNECTION_MODELS, max_depth=3)
        fn = find_method(ex.prog, 'ActivePeersInner', method)
        p = Path()
        selfp = inner_state(p)
        pid = z3.BitVec('p', 256)
        reason = Sym('reason', 'types::DisconnectReason')
        if with_sid:
            sid = z3.BitVec('sid_arg', 64)
            # (peer id, stable id, reason) positionally, or bundled in a private key struct
            args = e2.bind_args(fn, 'crates/anemo/src/network/connection_manager.rs', [selfp], [(r'PeerId', pid), (r'^(usize|u64)$', sid), (r'DisconnectReason', reason)])
        else:
            p.mem[('H', 'parg', 'PeerId')] = pid
            args = [selfp, Ptr(('H', 'parg', 'PeerId')), reason]
        res = ex.run(fn, args, p)
        has = MD.map_has_initial(Sym('conns', MAPTY), pid)
        oldname = f'conns[{pid}]'
        cnt = {'removed': 0, 'untouched': 0}
        samples = []
        for r in res:
            if r.tag != 'return':
                return violation(ob, [ex], f'{method} can {r.tag}', f'{method}-abnormal-exit', path_summary(r), len(res))
            effs = effects(r)
            kinds = [e[0] if e[0] != 'send' else 'send-' + e[1] for e in effs]
            summary = {'pc': [str(z3.simplify(c))[:120] for c in r.pc], 'effects': fmt_effects(effs)}
            if sorted(kinds) == sorted(['map-remove', 'close', 'send-LostPeer']):
                guard = has if not with_sid else z3.And(has, z3.BitVec(f'sid({oldname})', 64) == z3.BitVec('sid_arg', 64))
                lost = effs[kinds.index('send-LostPeer')]
                okv = (same(ex, r.pc, effs[kinds.index('map-remove')][2], pid) and effs[kinds.index('close')][1] == oldname
                       and len(lost[2]) == 2 and same(ex, r.pc, lost[2][0], pid) and vname(lost[2][1]) == 'reason')
                if not okv:
                    return violation(ob, [ex], f'removal of the wrong entry / wrong connection closed / wrong event: {fmt_effects(effs)}', f'{method}-values', summary, len(res))
                pre = True
                cnt['removed'] += 1
            elif not kinds:
                guard = z3.Not(has) if not with_sid else z3.Or(z3.Not(has), z3.BitVec(f'sid({oldname})', 64) != z3.BitVec('sid_arg', 64))
                pre = None
                cnt['untouched'] += 1
            else:
                return violation(ob, [ex], f'unexpected effect sequence in {method}: {fmt_effects(effs)}', f'{method}-effects:' + ','.join(kinds), summary, len(res))
            if not implied(ex, r.pc, guard):
                q, m, _ = solve(r.pc + [z3.Not(guard)])
                summary['counterexample'] = model_dict(m)
                return violation(ob, [ex], f'{method}: branch `{"remove" if kinds else "no-op"}` taken outside its guard', f'{method}-guard-{"remove" if kinds else "noop"}', summary, len(res))
            for prepres in ([pre] if pre is not None else [True, False]):
                if prepres and not kinds and not with_sid:
                    continue
                alt = check_alternation(prepres, effs)
                if alt:
                    return violation(ob, [ex], f'{method} breaks the change-log invariant: {alt}', f'{method}-alternation', summary, len(res))
            if len(samples) < 3:
                samples.append(summary)
        if not all(cnt.values()):
            return ob.done([ex], 'inconclusive', f'vacuity: {cnt}', paths=len(res))
        ob.done([ex], 'held', '', {'branches': cnt, 'paths': samples}, paths=len(res))
    return guarded(report, name, what, ['ActivePeersInner::' + method, 'ActivePeersInner::send_event'], {'inline_depth': 3, 'state': 'arbitrary map'}, body)


def ob_remove(report):
    return _removal(report, 'remove_transition', 'remove', 'remove(p, reason): present -> entry removed, that connection closed, LostPeer(p, reason); absent -> no effect', False)


def ob_remove_sid(report):
    return _removal(report, 'remove_with_stable_id_transition', 'remove_with_stable_id',
                    'remove_with_stable_id(p, sid, reason): acts iff present and entry.stable_id == sid; otherwise map and events unchanged '
                    '(a replaced connection\'s late exit never disturbs its replacement)', True)


def _lock_events(r):
    out = []
    for e in r.events:
        if e.kind == 'call' and re.search(r'RwLock::(read|write)$', e.name):
            out.append(('lock', e.name.rsplit('::', 1)[-1]))
        elif e.kind == 'drop' and re.search(r'RwLock(Read|Write)Guard', e.name):
            out.append(('unlock',))
        elif e.kind in ('map', 'close', 'send'):
            out.append(('effect', e.kind))
        elif e.kind == 'call' and re.search(r'HashMap::(keys|values|iter)$|broadcast::Sender::subscribe$|HashMap::len$', e.name):
            out.append(('read', e.name.rsplit('::', 1)[-1]))
    return out


def ob_wrappers(report):
    def body(ob):
        exs, total, samples = [], 0, []
        for meth, mode, inner_meth in (('add', 'write', 'add'), ('remove', 'write', 'remove'), ('remove_with_stable_id', 'write', 'remove_with_stable_id'),
                                       ('subscribe', 'read', 'subscribe'), ('peers', 'read', 'peers'), ('get', 'read', 'get'), ('len', 'read', 'len')):
            models = CONNECTION_MODELS + [(r'HashMap::len$', lambda ex, p, call, k: (p.events.append(Event('call', 'HashMap::len', call.args)), k(p, z3.BitVec('len', 64)))[1])]
            ex = e2.executor('anemo', models, max_depth=4)
            exs.append(ex)
            fn = find_method(ex.prog, 'ActivePeers', meth)
            has_inner = inner_meth in methods_of(ex.prog, 'ActivePeersInner')
            res = ex.run(fn, [])
            total += len(res)
            okpaths = 0
            for r in res:
                if r.tag == 'panic' and poison_panic(r):
                    continue
                if r.tag == 'loop-bound':
                    continue                # a snapshot built by an explicit loop: iterations beyond the unrolling bound are outside the claim
                if r.tag != 'return':
                    return violation(ob, exs, f'ActivePeers::{meth} can {r.tag}', f'wrapper-{meth}-abnormal', path_summary(r), total)
                seq = _lock_events(r)
                locks = [i for i, s in enumerate(seq) if s[0] == 'lock']
                unlocks = [i for i, s in enumerate(seq) if s[0] == 'unlock']
                if len(locks) != 1 or seq[locks[0]][1] != mode:
                    return violation(ob, exs, f'ActivePeers::{meth} takes {len(locks)} locks ({[seq[i] for i in locks]}), expected one {mode} lock', f'wrapper-{meth}-locks', {'seq': seq}, total)
                if len(unlocks) != 1:
                    return violation(ob, exs, f'ActivePeers::{meth}: guard dropped {len(unlocks)} times', f'wrapper-{meth}-unlock', {'seq': seq}, total)
                inside = [s for i, s in enumerate(seq) if locks[0] < i < unlocks[0]]
                outside = [s for i, s in enumerate(seq) if (i < locks[0] or i > unlocks[0]) and s[0] in ('effect', 'read')]
                if outside:
                    return violation(ob, exs, f'ActivePeers::{meth}: {outside} happen outside the lock', f'wrapper-{meth}-outside-lock', {'seq': seq}, total)
                ent = [e for e in r.events if e.kind == 'enter' and e.name.endswith('ActivePeersInner::' + inner_meth)]
                if not ent and not has_inner:
                    # the locked state has no method of that name any more (its body was merged into the wrapper): the lock scope above is the claim
                    okpaths += 1
                    continue
                if len(ent) != 1:
                    return violation(ob, exs, f'ActivePeers::{meth} does not delegate exactly once to ActivePeersInner::{inner_meth}', f'wrapper-{meth}-delegate', {'seq': seq}, total)
                # arguments are passed through unchanged (positional after self)
                a_in = [vname(ex.deref(r.path, a)) if isinstance(a, Ptr) else vname(a) for a in e2.flatten_args(ent[0].args[1:], keep=('Connection',))]      # a parameter bundle counts as its fields
                want = [f'in{a}' + ('.*' if ex.prog and fn.decl[a].startswith('&') else '') for a in fn.args[1:]]
                if a_in != want:
                    return violation(ob, exs, f'ActivePeers::{meth} passes {a_in} instead of its own arguments {want}', f'wrapper-{meth}-args', {'seq': seq}, total)
                if meth == 'subscribe':
                    rd = [s[1] for s in inside if s[0] == 'read']
                    if not ({'keys', 'iter'} & set(rd)) or 'subscribe' not in rd:
                        return violation(ob, exs, f'subscribe does not take both snapshot and receiver inside one lock scope: {rd}', 'wrapper-subscribe-scope', {'seq': seq}, total)
                okpaths += 1
                if len(samples) < 4:
                    samples.append({'method': meth, 'sequence': [' '.join(map(str, s)) for s in seq]})
            if not okpaths:
                return ob.done(exs, 'inconclusive', f'no normal path through ActivePeers::{meth}', paths=total)
        ob.done(exs, 'held', '', {'wrappers': 7, 'paths': samples}, paths=total)
    return guarded(report, 'lock_bracketing', 'every ActivePeers wrapper takes exactly one lock of the right mode, delegates once with its own arguments, '
                   'and every map update / close / event / snapshot read happens before the guard is dropped; subscribe takes snapshot and receiver '
                   'in one read-lock scope', ['ActivePeers::{add,remove,remove_with_stable_id,subscribe,peers,get,len}', 'ActivePeersInner::*'],
                   {'inline_depth': 4, 'RwLock': 'contract: guard gives exclusive/shared access until dropped'}, body)


def ob_listing_complete(report):
    """peers() and the snapshot half of subscribe() list EVERY key of the connection map: the listing changes only when the map does, and every map change is
    published as an event (add/remove transitions).  A listing that leaves entries out by some other criterion (the transport already closed, an age, an
    affinity ...) changes without an event: a subscriber joining then sees LostPeer for a peer its snapshot never contained."""
    def body(ob):
        from mirsym import iters as IT
        ex = e2.executor('anemo', IT.ITER_MODELS + CONNECTION_MODELS, max_depth=3)
        cf = conn_map_field()
        total, checked = 0, 0
        for meth in ('peers', 'subscribe'):
            if meth not in methods_of(ex.prog, 'ActivePeersInner'):
                continue
            fn = find_method(ex.prog, 'ActivePeersInner', meth)
            p = Path()
            selfp = inner_state(p)
            res = ex.run(fn, [selfp], p)
            total += len(res)
            for r in res:
                if r.tag == 'loop-bound':
                    continue
                if r.tag != 'return':
                    continue
                colls = []

                def walk(v, d=0):
                    if d > 4:
                        return
                    if isinstance(v, Sym) and v.get_ov('collected') is not None:
                        colls.append(v.get_ov('collected'))
                    if isinstance(v, Agg):
                        for f_ in v.fields:
                            walk(f_, d + 1)
                walk(r.ret)
                if not colls:
                    # an explicit loop: `for k in self.connections.keys() { v.push(*k) }` - every element the traversal yields must be pushed
                    vecs = []

                    def walk2(v, d=0):
                        if d > 4:
                            return
                        if isinstance(v, Sym) and isinstance(v.get_ov('items'), Agg):
                            vecs.append(v.get_ov('items'))
                        if isinstance(v, Agg):
                            for f_ in v.fields:
                                walk2(f_, d + 1)
                    walk2(r.ret)
                    somes = [e for e in r.events if e.kind == 'next' and e.name == 'Some' and len(e.args) > 2 and IT.is_aiter(e.args[2])]
                    nones = [e for e in r.events if e.kind == 'next' and e.name == 'None' and e.args and IT.is_aiter(e.args[0])]
                    if len(vecs) != 1 or not nones:
                        return ob.done([ex], 'inconclusive', f'ActivePeersInner::{meth} does not build its listing with an iterator pipeline or a push loop over the connection map ({vrepr(r.ret)[:60]})', paths=total)
                    for it in [e.args[2] for e in somes] + [e.args[0] for e in nones]:
                        src, mode, stages, _ = IT.parts(it)
                        drop = [st.variant for st in stages if st.variant in ('filter', 'filter_map', 'take', 'skip', 'take_while', 'skip_while', 'step_by', 'flat_map')]
                        if not vname(src).startswith(f'&inner.{cf}') and vname(src) != f'inner.{cf}':
                            return ob.done([ex], 'inconclusive', f'ActivePeersInner::{meth} loops over {vrepr(src)[:60]}, not the connection map', paths=total)
                        if mode not in ('keys', 'iter', 'into_keys', 'iter_mut') or drop:
                            return violation(ob, [ex], f'ActivePeersInner::{meth} does not list every registered peer: its loop runs over {mode}() through {[st.variant for st in stages]}',
                                             f'listing-filtered:{meth}', path_summary(r), total)
                    if len(vecs[0].fields) != len(somes):
                        return violation(ob, [ex], f'ActivePeersInner::{meth}: the loop over the connection map yields {len(somes)} entries but lists {len(vecs[0].fields)} of them on some path: '
                                         'entries are left out by a criterion that changes without any NewPeer/LostPeer event', f'listing-filtered:{meth}', path_summary(r), total)
                    checked += 1
                    continue
                for c in colls:
                    src, mode, stages, _ = IT.parts(c)
                    if vname(src) not in (f'&inner.{cf}', f'inner.{cf}') and not vname(src).startswith(f'&inner.{cf}'):
                        return ob.done([ex], 'inconclusive', f'ActivePeersInner::{meth} lists {vrepr(src)[:60]}, not the connection map', paths=total)
                    drop = [st.variant for st in stages if st.variant in ('filter', 'filter_map', 'take', 'skip', 'take_while', 'skip_while', 'step_by', 'flat_map')]
                    if mode not in ('keys', 'iter', 'into_keys', 'iter_mut') or drop:
                        o = violation(ob, [ex], f'ActivePeersInner::{meth} does not list every registered peer: the listing is {mode}() of the connection map through {[st.variant for st in stages]} - '
                                      f'entries are left out by a criterion ({drop or mode}) that changes without any NewPeer/LostPeer event, so a snapshot and the events that follow it no longer '
                                      'add up to the connected set', f'listing-filtered:{meth}', path_summary(r), total)
                        return o
                    checked += 1
        if not checked:
            return ob.done([ex], 'inconclusive', 'no listing pipeline found', paths=total)
        ob.done([ex], 'held', '', {'paths': total, 'listings_checked': checked}, paths=total)
    return guarded(report, 'listing_is_every_map_key', 'ActivePeersInner::{peers,subscribe}: the listing is keys()/iter() of the connection map with no element-dropping adaptor (filter, take, skip ...)',
                   ['ActivePeersInner::peers', 'ActivePeersInner::subscribe'], {'inline_depth': 3, 'iterators': 'abstract lazy-iterator contract (one generic element)'}, body)


def ob_removal_entry_points(report):
    """a listed connection leaves the active set only (a) when its own handler ends (by stable id), (b) when `add` replaces it, (c) when the
    application asks for it: the by-peer-id removal `ActivePeers::remove` is reachable from `Network::disconnect` alone.  Any other caller
    (an RPC error path, a health check ...) removes whatever connection is registered for that peer now - possibly the replacement of
    the one it meant."""
    def body(ob):
        ex = e2.executor('anemo', [], max_depth=1)
        target = find_method(ex.prog, 'ActivePeers', 'remove')
        reach, entries = e2.callers_closure(ex, target)
        named = {r: ex.prog.fns[r][0] for r in reach}
        bad = []
        for r in sorted(entries):
            f = named[r]
            last = f.name.rsplit('::', 1)[-1]
            tr, st = ex.prog.impl_header(f.impl_span) if f.impl_span else (None, None)
            if r == target.raw:
                return ob.done([ex], 'inconclusive', 'ActivePeers::remove has no caller in the crate', paths=0)
            if not (last == 'disconnect' and M.type_head(st or '') in ('Network', 'NetworkInner', 'NetworkRef')):
                bad.append(f.name)
        if bad:
            o = ob.done([ex], 'violated', f'ActivePeers::remove (removal by peer id, whatever connection is registered) is reachable from {bad} - not only from Network::disconnect: '
                        'a failure observed on an old connection can remove and close its replacement', {'entry_points': sorted(named[e].name for e in entries),
                                                                                                          'reaching': sorted(f.name for f in named.values())}, key='remove-by-peer-entry', paths=len(reach))
            o.replay = write_replay(PROP, 'removal_entry_points', {'entry_points': bad})
            return o
        ob.done([ex], 'held', '', {'entry_points': sorted(named[e].name for e in entries), 'functions_reaching_remove': len(reach)}, paths=len(reach))
    return guarded(report, 'removal_by_peer_only_on_explicit_disconnect', 'call graph of the crate (MIR): every chain of crate-local calls that reaches ActivePeers::remove starts in Network::disconnect',
                   ['ActivePeers::remove', 'every crate function (call graph)'], {'call graph': 'static calls resolved like the executor resolves them; dyn/indirect calls not followed'}, body)


def ob_accessors(report):
    def body(ob):
        ex = e2.executor('anemo', max_depth=1)
        src = open(os.path.join(REPO, 'crates/anemo/src/connection.rs')).read()
        m = re.search(r'struct Connection\s*\{(.*?)\n\}', src, re.S)
        fields = re.findall(r'^\s*(?:pub(?:\([^)]*\))?\s+)?(\w+)\s*:', m.group(1), re.M) if m else []
        bad, n = None, 0
        for meth, fld in (('peer_id', 'peer_id'), ('origin', 'origin')):
            fn = find_method(ex.prog, 'Connection', meth, file_re=r'anemo/src/connection\.rs')
            res = ex.run(fn, [])
            n += len(res)
            idx = fields.index(fld) if fld in fields else None
            for r in res:
                if r.tag != 'return' or idx is None or vname(r.ret) != f'in_1.*.{idx}':
                    bad = f'Connection::{meth} returns {vrepr(r.ret)}, not the `{fld}` field fixed at construction'
        fn = find_method(ex.prog, 'Connection', 'stable_id', file_re=r'anemo/src/connection\.rs')
        res = ex.run(fn, [])
        n += len(res)
        for r in res:
            c = [e for e in r.events if e.kind == 'call']
            if r.tag != 'return' or len(c) != 1 or not c[0].name.endswith('quinn::Connection::stable_id') or vname(e2.peel(r.ret)) != vname(c[0].ret):
                bad = bad or 'Connection::stable_id is not quinn::Connection::stable_id of the wrapped connection'
        fn = find_method(ex.prog, 'Connection', 'close', file_re=r'anemo/src/connection\.rs')
        res = ex.run(fn, [])
        n += len(res)
        for r in res:
            c = [e for e in r.events if e.kind == 'call' and e.name.endswith('quinn::Connection::close')]
            if r.tag != 'return' or len(c) != 1:
                bad = bad or 'Connection::close does not close the wrapped quinn connection exactly once'
        if bad:
            return violation(ob, [ex], bad, 'accessors', {}, n)
        ob.done([ex], 'held', '', {'fields': fields}, paths=n)
    return guarded(report, 'connection_accessors', 'Connection::{peer_id,origin} are reads of fields fixed at construction; stable_id/close delegate to the wrapped quinn connection '
                   '(justifies the uninterpreted accessor models)', ['Connection::peer_id', 'Connection::origin', 'Connection::stable_id', 'Connection::close'], {}, body)


def ob_two_step(report):
    """thorough: all two-operation sequences on one peer from an arbitrary state, as a cross-check of the induction"""
    def body(ob):
        exs, total, combos = [], 0, 0
        ops = ['add', 'remove', 'remove_with_stable_id']
        for a in ops:
            for b in ops:
                ex = e2.executor('anemo', CONNECTION_MODELS, max_depth=3)
                exs.append(ex)
                p = Path()
                selfp = inner_state(p)
                own = z3.BitVec('own', 256)
                p.mem[('H', 'own', 'PeerId')] = own
                finals = []

                def run_op(op, tag, q, k):
                    fn = find_method(ex.prog, 'ActivePeersInner', op)
                    if op == 'add':
                        args = [selfp, Ptr(('H', 'own', 'PeerId')), Sym('new' + tag, 'connection::Connection')]
                    elif op == 'remove':
                        q.mem[('H', 'parg' + tag, 'PeerId')] = z3.BitVec('pid(new1)', 256) if a == 'add' else z3.BitVec('p', 256)
                        args = [selfp, Ptr(('H', 'parg' + tag, 'PeerId')), Sym('reason' + tag, 'types::DisconnectReason')]
                    else:
                        args = e2.bind_args(fn, 'crates/anemo/src/network/connection_manager.rs', [selfp],
                                            [(r'PeerId', z3.BitVec('pid(new1)', 256) if a == 'add' else z3.BitVec('p', 256)), (r'^(usize|u64)$', z3.BitVec('sidarg' + tag, 64)),
                                             (r'DisconnectReason', Sym('reason' + tag, 'types::DisconnectReason'))])
                    ex.run_fn(fn, ex.adapt_args(fn, args, q), q, 0, k, 'op' + tag)
                ex.results = []
                run_op(a, '1', p, lambda q, ret: run_op(b, '2', q, lambda q2, ret2: finals.append(q2)))
                total += len(finals)
                combos += 1
                for q in finals:
                    # the same peer throughout (constrain both keys equal), replay the abstract log
                    r = Result(q, None, 'return')
                    effs = effects(r)
                    # the same peer throughout: the key of the first operation equals the key of the second
                    k1 = z3.BitVec('pid(new1)', 256) if a == 'add' else z3.BitVec('p', 256)
                    k2 = z3.BitVec('pid(new2)', 256) if b == 'add' else k1
                    keys = [k1, k2] + [e[2] for e in effs if e[0].startswith('map-')] + [e[2][0] for e in effs if e[0] == 'send' and e[2]]
                    eqs = [keys[0] == kk for kk in keys[1:] if isinstance(kk, z3.ExprRef) and kk.sort() == keys[0].sort()]
                    if not ex.feasible(q.pc + eqs):
                        continue
                    for pre in (True, False):
                        # pre-state must agree with the first branch taken: skip inconsistent combos
                        first = effs[0][0] if effs else None
                        alt = check_alternation(pre, effs)
                        if alt and _pre_consistent(q, pre):
                            return violation(ob, exs, f'{a};{b} from present={pre}: {alt}: {fmt_effects(effs)}', f'two-step-{a}-{b}', {'effects': fmt_effects(effs)}, total)
        ob.done(exs, 'held', '', {'sequences': combos, 'final_paths': total}, paths=total)
    return guarded(report, 'two_step_sequences', 'all 9 two-operation sequences (add/remove/remove_with_stable_id) from an arbitrary state keep the per-peer log alternating',
                   ['ActivePeersInner::{add,remove,remove_with_stable_id}'], {'inline_depth': 3, 'steps': 2}, body)


def _pre_consistent(q, pre):
    s = ' '.join(str(c) for c in q.pc)
    m = re.search(r'(Not\()?has<conns>\(', s)
    if not m:
        return True
    first_present = m.group(1) is None
    return first_present == pre


def check(report, tier, only=None):
    report.trusted += ['z3 5.1', 'MIR dump (rustc nightly) of the scratch copy', 'finite-map contract model of HashMap (entry/insert/remove_entry/get)',
                       'std RwLock contract (exclusive writer, guard scope)', 'tokio broadcast::Sender::send delivers in call order']
    report.outside += ['interleavings with other threads are discharged by the lock-bracketing obligation plus the RwLock contract, not explored',
                       'that quinn actually closes the connection; lagging broadcast receivers']
    from props import handler
    from props import C12       # (C12 imports nothing from here)
    # LostPeer must follow the observed end of the connection directly: the removal precedes the teardown of the request tasks
    obs = [ob_add, ob_remove, ob_remove_sid, ob_wrappers, ob_listing_complete, ob_accessors, ob_removal_entry_points, lambda rep: handler.ob_handler_tail(rep, PROP), lambda rep: handler.ob_add_peer(rep, PROP),
           C12.ob_tail_aborts_tasks]
    # the listing is what callers act on: every established connection goes through add_peer (no connection served without being listed, none listed twice),
    # and a Peer handle is bound to the connection that is listed now
    from props import C03 as _C03, C09 as _C09
    obs += [_C03.ob_connecting_result, _C09.ob_disconnect]
    # a handler task that died before deregistering its connection is not silently dropped by the manager loop
    obs.append(lambda rep: handler.ob_handler_failure_not_ignored(rep, PROP))
    if tier == 'thorough':
        obs.append(ob_two_step)
    for f in obs:
        if only and not any(s in getattr(f, '__name__', 'handler') for s in only):
            continue
        f(report)
    report.extra['mir_sha'] = mirdump.mir_sha('anemo')


def replay(path):
    print(open(path).read())
    return 0
