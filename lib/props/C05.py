"""C05 - simultaneous mutual dials converge on one shared connection."""
from common import *
import kani

FN = 'anemo::network::connection_manager::ActivePeersInner::simultaneous_dial_tie_breaking'


def check(report, tier, only=None):
    report.outside += ['that both QUIC/TLS handshakes complete', 'RPC success afterwards', 'quiescence of the event stream (runtime/QUIC timers)']
    report.trusted += ['Kani 0.68 / CBMC 6.11 (CaDiCaL)', 'rustc MIR semantics as modelled by Kani']
    jobs = [
        kani.KaniJob('cm', 'c05_tie_break_converges',
                     'for all distinct 32-byte ids a,b and both arrival orders on both sides, A and B keep the same connection = the one dialed by the greater id',
                     [FN, '<PeerId as PartialOrd>::lt'], {'unwind': 34, 'inputs': 'a,b: [u8;32] (all 2^512 pairs), a_x_first, b_x_first: bool'}, claim='C05-tie-break-decision'),
        kani.KaniJob('cm', 'c05_same_direction_replaces',
                     'two connections of the same direction: newer replaces older for all ids',
                     [FN], {'unwind': 34, 'inputs': 'a,b: [u8;32], direction: bool'}, claim='C05-tie-break-decision'),
        kani.KaniJob('root', 'c05_peer_id_order_is_lexicographic',
                     'derived Ord/Eq on PeerId = big-endian unsigned order on the 32 bytes (validates the bvult model used by mirsym)',
                     ['<PeerId as PartialOrd>', '<PeerId as PartialEq>'], {'unwind': 34, 'inputs': 'a,b: [u8;32]'}),
    ]
    # two builds: the tie-break harnesses name a private function (their module may not compile after a refactoring, in which case the
    # mirsym obligation with the same claim decides); the order harness only needs the public PeerId
    kani.build_and_run('C05', ['cm'], [j for j in jobs if j.site == 'cm'], report)
    kani.build_and_run('C05', ['root'], [j for j in jobs if j.site == 'root'], report)


# ----------------------------------------------------------------------------- E2: composition through the real `add`
import re, z3
import e2, mirdump
from e2 import *
from mirsym import models as MD
from props.cmodels import *
from props import C04


def ob_compose(report):
    def body(ob):
        ex, fn, res = C04.run_add()
        IN, OUT = C04.directions(ex)
        own, rem = z3.BitVec('own', 256), z3.BitVec('pid(new)', 256)
        oldname = f'conns[{rem}]'
        has = MD.map_has_initial(Sym('conns', C04.MAPTY), rem)
        eo, no = origin_discr(oldname), origin_discr('new')
        rep, keep = [], []
        for r in res:
            if r.tag != 'return':
                continue
            kinds = [e[0] for e in effects(r)]
            if 'map-insert' in kinds and 'close' in kinds:
                rep.append(r.path.cond())
            elif kinds == ['close']:
                keep.append(r.path.cond())
        if not rep or not keep:
            return ob.done([ex], 'inconclusive', 'vacuity: no replace/keep paths in add', paths=len(res))
        REP, KEEP = z3.Or(rep), z3.Or(keep)

        def inst(f, o, r_, e_, n_):
            return z3.substitute(f, (own, o), (rem, r_), (eo, z3.BitVecVal(e_, 64)), (no, z3.BitVecVal(n_, 64)), (has, z3.BoolVal(True)))
        a, b = z3.BitVec('A', 256), z3.BitVec('B', 256)
        ax, bx = z3.Bool('a_x_first'), z3.Bool('b_x_first')
        # X is dialed by A: Outbound at A, Inbound at B; Y is dialed by B
        keepX_A = z3.If(ax, z3.Not(inst(REP, a, b, OUT, IN)), inst(REP, a, b, IN, OUT))
        keepX_B = z3.If(bx, z3.Not(inst(REP, b, a, IN, OUT)), inst(REP, b, a, OUT, IN))
        # decisions are total and exclusive for the four mixed cases
        tot = z3.And([z3.Xor(inst(REP, o, r_, e_, n_), inst(KEEP, o, r_, e_, n_))
                      for (o, r_) in ((a, b), (b, a)) for (e_, n_) in ((IN, OUT), (OUT, IN))])
        goal = z3.And(keepX_A == keepX_B, keepX_A == z3.UGT(a, b), tot)
        q, m, t = solve([a != b, z3.Not(goal)])
        sample = {'replace_paths': len(rep), 'keep_paths': len(keep), 'statement': 'forall A != B, orders: survivor(A) = survivor(B) = connection dialed by max(A,B)'}
        if q == 'unknown':
            return ob.done([ex], 'inconclusive', 'solver unknown', sample, paths=len(res), extra_queries=1, extra_solver=t)
        if q == 'sat':
            cex = {'A': hex(m.eval(a, True).as_long()), 'B': hex(m.eval(b, True).as_long()),
                   'a_x_first': z3.is_true(m.eval(ax, True)), 'b_x_first': z3.is_true(m.eval(bx, True)),
                   'A_keeps_X': z3.is_true(m.eval(keepX_A, True)), 'B_keeps_X': z3.is_true(m.eval(keepX_B, True))}
            sample['counterexample'] = cex
            o = ob.done([ex], 'violated', f'the two sides do not converge on the connection dialed by the greater id: {cex}', sample,
                        key='compose-diverge', paths=len(res), extra_queries=1, extra_solver=t)
            o.replay = write_replay('C05', 'compose', sample)
            return o
        ob.done([ex], 'held', '', sample, paths=len(res), extra_queries=1, extra_solver=t)
    o = guarded(report, 'compose_both_sides_through_add', 'the replace/keep decision of the real ActivePeersInner::add (MIR), instantiated at both peers and both arrival orders, '
                'keeps the same connection on both sides: the one dialed by the greater id (all 2^512 id pairs)',
                ['ActivePeersInner::add', 'ActivePeersInner::simultaneous_dial_tie_breaking'], {'inline_depth': 3}, body)
    o.claim = 'C05-tie-break-decision'        # the Kani harnesses decide the same statement on the tie-break function alone (when it is nameable for them)
    return o


def ob_late_exit(report):
    def body(ob):
        ex = e2.executor('anemo', CONNECTION_MODELS, max_depth=3)
        add = find_method(ex.prog, 'ActivePeersInner', 'add')
        rm = find_method(ex.prog, 'ActivePeersInner', 'remove_with_stable_id')
        p = Path()
        selfp = C04.inner_state(p)
        p.mem[('H', 'own', 'PeerId')] = z3.BitVec('own', 256)
        finals = []
        ex.results = []
        pid = z3.BitVec('pid(new)', 256)
        oldname = f'conns[{pid}]'

        def second(q, ret):
            n1 = len(effects(Result(q, None, 'return')))
            rm_args = e2.bind_args(rm, 'crates/anemo/src/network/connection_manager.rs', [selfp], [(r'PeerId', pid), (r'^(usize|u64)$', z3.BitVec(f'sid({oldname})', 64)),
                                                                                                    (r'DisconnectReason', Sym('reason', 'types::DisconnectReason'))])
            ex.run_fn(rm, ex.adapt_args(rm, rm_args, q), q, 0,
                      lambda q2, r2: finals.append((n1, q2)), 'late')
        ex.run_fn(add, ex.adapt_args(add, [selfp, Ptr(('H', 'own', 'PeerId')), Sym('new', 'connection::Connection')], p), p, 0, second, 'add')
        distinct = z3.BitVec(f'sid({oldname})', 64) != z3.BitVec('sid(new)', 64)   # quinn stable ids are unique per connection
        n_rep = 0
        for n1, q in finals:
            if not ex.feasible(q.pc + [distinct]):
                continue
            effs = effects(Result(q, None, 'return'))
            first, late = effs[:n1], effs[n1:]
            kinds = [e[0] for e in first]
            if 'map-insert' in kinds and 'close' in kinds:
                n_rep += 1
                if late:
                    s = {'after_replace': fmt_effects(first), 'late_exit_effects': fmt_effects(late)}
                    o = ob.done([ex], 'violated', f'the replaced connection\'s late handler exit disturbs its replacement: {fmt_effects(late)}', s,
                                key='late-exit-disturbs', paths=len(finals))
                    o.replay = write_replay('C05', 'late-exit', s)
                    return o
        if not n_rep:
            return ob.done([ex], 'inconclusive', 'vacuity: no replace path', paths=len(finals))
        ob.done([ex], 'held', '', {'replace_then_late_exit_paths': n_rep}, paths=len(finals))
    return guarded(report, 'loser_late_exit_is_ignored', 'after add() replaced a connection, remove_with_stable_id(peer, stable id of the replaced one) has no effect',
                   ['ActivePeersInner::add', 'ActivePeersInner::remove_with_stable_id'], {'steps': 2, 'assume': 'stable ids of distinct connections differ (quinn contract)'}, body)


_check_e1 = check


def check(report, tier, only=None):
    _check_e1(report, tier, only)
    report.trusted += ['z3 5.1', 'finite-map model of HashMap', 'Connection accessors uninterpreted (checked by C04 connection_accessors)']
    from props import handler
    # add_transition: the surviving connection is the one that is registered AND the one returned to be served (its handler is started)
    from props import C03 as _C03
    # every established connection - whichever side dialed, whatever is already registered - is handed to add(): the tie-break alone decides which
    # of two connections survives (a shortcut that drops a finished dial because "we are already connected" makes the two sides keep different ones)
    for f in (ob_compose, ob_late_exit, C04.ob_add, lambda rep: handler.ob_add_peer(rep, 'C05'), lambda rep: handler.ob_handler_tail(rep, 'C05'), _C03.ob_connecting_result,
              # nothing in front of the tie-break decides which connection survives (wrapper = lock + delegation); the handle RPCs go through is the listed (surviving) connection
              C04.ob_wrappers, __import__('props.C09', fromlist=['x']).ob_disconnect,
              # an inbound connection is refused for the admission rule alone: a refusal "because we are dialing that peer ourselves" makes both sides of a
              # simultaneous dial refuse each other
              __import__('props.C10', fromlist=['x']).ob_admission, __import__('props.C10', fromlist=['x']).ob_incoming_always_admission):
        if only and not any(s in getattr(f, '__name__', 'handler') for s in only):
            continue
        f(report)
    report.extra['mir_sha'] = mirdump.mir_sha('anemo')


def replay(path):
    print(open(path).read())
    return 0
