"""C05 - simultaneous mutual dials converge on one shared connection."""
from common import *
import kani

FN = 'anemo::network::connection_manager::ActivePeersInner::simultaneous_dial_tie_breaking'


def check(report, tier, only=None):
    report.outside += ['that both QUIC/TLS handshakes complete', 'RPC success afterwards', 'quiescence of the event stream (runtime/QUIC timers)']
    report.trusted += ['Kani 0.68 / CBMC 6.11 (CaDiCaL)', 'rustc MIR semantics as modelled by Kani']
    jobs = [
        kani.KaniJob('cm', 'c05_tie_break_converges',
                     'for all distinct 32-byte ids a,b and both arrival orders on both sides, A and B keep the same connection = the one dialed by the greater id',
                     [FN, '<PeerId as PartialOrd>::lt'], {'unwind': 34, 'inputs': 'a,b: [u8;32] (all 2^512 pairs), a_x_first, b_x_first: bool'}),
        kani.KaniJob('cm', 'c05_same_direction_replaces',
                     'two connections of the same direction: newer replaces older for all ids',
                     [FN], {'unwind': 34, 'inputs': 'a,b: [u8;32], direction: bool'}),
        kani.KaniJob('cm', 'c05_peer_id_order_is_lexicographic',
                     'derived Ord/Eq on PeerId = big-endian unsigned order on the 32 bytes (validates the bvult model used by mirsym)',
                     ['<PeerId as PartialOrd>', '<PeerId as PartialEq>'], {'unwind': 34, 'inputs': 'a,b: [u8;32]'}),
    ]
    kani.build_and_run('C05', ['cm'], jobs, report)
