"""C06 - a connected hostile peer cannot crash or stall the network (decoder/route totality and error
confinement; stream-level misbehaviour and matchit's panic-freedom are outside)."""
import re, z3
from common import *
import e2, mirdump, kani
from e2 import *
from mirsym import models as MD
from props import rpcpath, C07, C07_e2, C15, C16, C11, handler

PROP = 'C06'


def viol(ob, exs, detail, key, sample, n):
    o = ob.done(exs, 'violated', detail, sample, key=key, paths=n)
    o.replay = write_replay(PROP, o.name, {'detail': detail, 'sample': sample})
    return o


def ob_handle_confines_errors(report):
    def body(ob):
        def m_do_handle(ex, p, call, k):
            p.events.append(Event('do-handle', 'do_handle', ()))
            k(p, Sym('do_handle_future', 'DoHandle'))
        prog, _ = mirdump.program('anemo')
        inner = rpcpath.stream_handler_fn(prog)                 # `do_handle` (or whatever it is called now)
        iname = inner.name.rsplit('::', 1)[-1]
        ex = e2.executor('anemo', [(r'BiStreamRequestHandler::%s$' % re.escape(iname), m_do_handle)], max_depth=1)
        parent = e2.find_role_method(ex.prog, 'BiStreamRequestHandler', ['handle'], r'(^|::)%s$' % re.escape(iname), ret_re=r'Poll<\(\)>')
        fn = find_closure(ex.prog, parent, [0])
        p, args = coroutine_start(ex, fn)
        res = ex.run(fn, args, p)
        seen = set()
        for r in res:
            if r.tag != 'return':
                return viol(ob, [ex], f'BiStreamRequestHandler::handle can {r.tag}: a failing request would take its task (and, re-raised, the network) down', 'handle-abnormal', path_summary(r), len(res))
            if isinstance(r.ret, Agg) and r.ret.variant == 'Ready':
                pcs = ' '.join(str(z3.simplify(c)) for c in r.pc)
                seen.add('err' if 'discr == 1' in pcs else 'ok')
                if vrepr(r.ret.fields[0]) not in ('()()', '()'):
                    return viol(ob, [ex], f'handle returns {vrepr(r.ret)}', 'handle-ret', path_summary(r), len(res))
        if seen != {'ok', 'err'}:
            return ob.done([ex], 'inconclusive', f'vacuity: {seen}', paths=len(res))
        ob.done([ex], 'held', '', {'paths': len(res)}, paths=len(res))
    return guarded(report, 'stream_errors_end_only_the_stream', 'BiStreamRequestHandler::handle turns every Err of do_handle into a log line and returns (): a malformed, truncated or oversized '
                   'request ends only its own task', ['BiStreamRequestHandler::handle'], {}, body)


def ob_accept_loop(report):
    def body(ob):
        def m_spawn(ex, p, call, k):
            p.events.append(Event('spawn', 'JoinSet::spawn', (call.args[1],)))
            k(p, Sym(f'abort_handle{p.seq("ah")}', 'AbortHandle'))

        def m_new(ex, p, call, k):
            p.events.append(Event('stream-handler', 'BiStreamRequestHandler::new', tuple(call.args)))
            k(p, Sym(f'bi_handler{p.seq("bh")}', 'BiStreamRequestHandler'))
        e2.require_methods(mirdump.program('anemo')[0], ('BiStreamRequestHandler', 'new'))
        ex, fn, res = handler.run_handler_start(unroll=2, extra=[(r'JoinSet::spawn$', m_spawn), (r'BiStreamRequestHandler::new$', m_new)])
        # the select! output: name of the symbolic Out value
        seen = set()
        for r in res:
            evs = r.events
            polls = [i for i, e in enumerate(evs) if e.kind == 'poll' and 'PollFn' in str(e.name) and isinstance(e.ret, Agg) and e.ret.variant == 'Ready']
            if not polls:
                continue
            first = polls[0]
            out = vname(evs[first].ret.fields[0])
            pcs = [str(z3.simplify(c)).replace('\n', ' ') for c in r.pc]
            arm = None
            for c in pcs:
                m = re.match(re.escape(out) + r'\.discr == (\d+)', c)
                if m:
                    arm = int(m.group(1))
            if arm is None:
                continue
            okarm = any(re.match(re.escape(out) + rf'@_{arm}\.0\.discr == 0', c) for c in pcs)
            errarm = any(re.match(re.escape(out) + rf'@_{arm}\.0\.discr == 1', c) for c in pcs)
            nxt = polls[1] if len(polls) > 1 else len(evs)
            between = evs[first + 1:nxt]
            removed = [e for e in evs[first + 1:] if e.kind == 'remove']
            awaited = [e for e in between if e.kind == 'poll' and 'PollFn' not in str(e.name)]
            second_iter = len(polls) > 1 or r.tag == 'loop-bound'
            # every arm future of the select! is created afresh for each iteration: a completed `async fn` future must not be polled again
            ARM = re.compile(r'(accept_uni|accept_bi|read_datagram|join_next)$')
            made1 = {ARM.search(str(e.name)).group(1) for e in evs[:first] if e.kind in ('call', 'enter') and ARM.search(str(e.name))}
            if len(polls) > 1 and made1:
                made2 = {ARM.search(str(e.name)).group(1) for e in evs[first + 1:polls[1]] if e.kind in ('call', 'enter') and ARM.search(str(e.name))}
                order = ['accept_uni', 'accept_bi', 'read_datagram', 'join_next']
                fired = order[arm] if arm is not None and arm < len(order) else None
                stale = [fired] if fired in made1 and fired not in made2 else []       # only the arm that completed must be fresh
                if stale:
                    return viol(ob, [ex], f'the accept loop polls its `{stale[0]}` future again in the next iteration without re-creating it: once that arm has fired, '
                                'the completed `async fn` future is resumed (panic) - one stray datagram / stream takes the connection handler down', 'loop-stale-arm:' + stale[0], path_summary(r), len(res))
            if arm in (0, 2) and okarm:          # accept_uni / read_datagram delivered something
                seen.add(f'arm{arm}-ok')
                if r.tag in ('panic', 'diverge') and len(polls) == 1:
                    return viol(ob, [ex], 'a stray unidirectional stream / datagram panics the connection handler', f'loop-arm{arm}-panic', path_summary(r), len(res))
                if awaited and not removed:
                    return viol(ob, [ex], f'the accept loop awaits {awaited[0].name[:80]} while handling a stray {"uni stream" if arm == 0 else "datagram"}: '
                                'a peer that never finishes it stalls all its other streams', f'loop-arm{arm}-awaits', path_summary(r), len(res))
                if removed and not second_iter and len(polls) == 1:
                    return viol(ob, [ex], f'a stray {"uni stream" if arm == 0 else "datagram"} ends the connection handler', f'loop-arm{arm}-breaks', path_summary(r), len(res))
            if arm == 1 and okarm:               # accept_bi delivered a stream pair
                seen.add('bi-ok')
                sp = [e for e in between if e.kind == 'spawn']
                nh = [e for e in between if e.kind == 'stream-handler']
                if r.tag in ('panic', 'diverge') and len(polls) == 1:
                    return viol(ob, [ex], 'accepting a request stream can panic the connection handler', 'loop-bi-panic', path_summary(r), len(res))
                if len(sp) != 1 or len(nh) != 1:
                    return viol(ob, [ex], f'an accepted request stream does not get exactly one handler task ({len(nh)} handlers, {len(sp)} spawns)', 'loop-bi-spawn', path_summary(r), len(res))
                if awaited:
                    return viol(ob, [ex], 'the accept loop awaits while dispatching a request stream (one slow stream would stall the others)', 'loop-bi-awaits', path_summary(r), len(res))
            if arm in (0, 1, 2) and errarm:
                seen.add('conn-err')
                if not removed and r.tag == 'return' and isinstance(r.ret, Agg) and r.ret.variant == 'Ready':
                    return viol(ob, [ex], 'a connection error does not end the handler with the removal of its connection', 'loop-err', path_summary(r), len(res))
            if arm == 3:
                seen.add('join')
                if r.tag in ('panic', 'diverge') and len(polls) == 1:
                    # only a panic / failure of a request task is re-raised: the join result must be Err
                    macro_invariant = any('failed to match bind' in repr(e) for e in evs)   # tokio::select! never yields a value that fails its own pattern
                    if not macro_invariant and not any('discr == 1' in c for c in pcs if out in c):
                        return viol(ob, [ex], 'a normally completed request task makes the connection handler panic', 'loop-join-panic', path_summary(r), len(res))
        need = {'arm0-ok', 'arm2-ok', 'bi-ok', 'conn-err', 'join'}
        if not need <= seen:
            return ob.done([ex], 'inconclusive', f'vacuity: {sorted(seen)}', paths=len(res))
        ob.done([ex], 'held', '', {'paths': len(res), 'arms': sorted(seen)}, paths=len(res))
    return guarded(report, 'accept_loop_ignores_strays', 'InboundRequestHandler::start select loop: a stray uni stream or datagram is dropped without awaiting anything and the loop continues; '
                   'an accepted bi stream gets exactly one handler task without awaiting; only connection errors end the loop; only a failed request task is re-raised',
                   ['InboundRequestHandler::start::{async body}'], {'loop_unroll': 2, 'select!': 'outcome symbolic'}, body)


def ob_no_panic(report, name, what, finder, models=(), depth=3, tolerate=None):
    def body(ob):
        ex = e2.executor('anemo', list(models), max_depth=depth)
        fn = finder(ex)
        if fn.args and fn.decl[fn.args[0]].startswith('Pin<&mut {'):
            p, args = coroutine_start(ex, fn)
            res = ex.run(fn, args, p)
        else:
            res = ex.run(fn, [])
        for r in res:
            if r.tag in ('panic', 'diverge'):
                if tolerate and tolerate(r):
                    continue
                return viol(ob, [ex], f'{what}: {r.path.tags[-1] if r.path.tags else r.tag}', name + '-panic', path_summary(r), len(res))
        if not any(r.tag == 'return' for r in res):
            return ob.done([ex], 'inconclusive', 'no returning path', paths=len(res))
        ob.done([ex], 'held', '', {'paths': len(res)}, paths=len(res))
    return guarded(report, name, what + ' - no path panics for any peer-controlled value', [name], {'inline_depth': depth}, body)


def check(report, tier, only=None):
    report.trusted += ['Kani/CBMC for the byte-level decoders', 'bincode/serde header deserialization does not panic on arbitrary bytes (not decidable under CBMC within 30 min, DESIGN 0)',
                       'matchit does not panic on arbitrary routes', 'z3 5.1']
    report.outside += ['stream-level misbehaviour (reset/stop/abandon at every point), liveness of other peers\' RPCs', 'panic-freedom of bincode, serde, matchit, hashbrown',
                       'handlers supplied by the application']
    # E1: byte-level decoders of untrusted input
    W = ['network::wire::read_version_frame']
    Cc = ['network::wire::network_message_frame_codec', 'tokio_util LengthDelimitedCodec::decode']
    jobs = [kani.KaniJob('wire', 'c07_preamble_decode_total', 'preamble reader: no panic, accepts exactly the established bytes among all 2^64 inputs', W, {'unwind': 10, 'inputs': '[u8;8] all'}, timeout_s=1200, claim='preamble-decode'),
            kani.KaniJob('wire', 'c15_decode_head_with_limit', 'frame head: any 4-byte declared length with any limit is refused or waits - never a panic, never an oversized allocation', Cc, {'inputs': 'prefix [u8;4], m: usize'}),
            kani.KaniJob('root', 'c07_status_closed_set', 'unknown status codes are an error, not a panic', ['StatusCode::new'], {'inputs': 'u16 all'})]
    if tier == 'thorough':
        jobs.append(kani.KaniJob('wire', 'c07_preamble_prefix_rejected', 'every strict prefix of a preamble is an error', W, {'unwind': 10}, timeout_s=1800))
        jobs.append(kani.KaniJob('wire', 'c15_decode_head_unlimited', 'frame head without limit: never a panic', Cc, {'inputs': 'prefix [u8;4]'}))
    jobs = [j for j in jobs if not only or any(s in j.harness for s in only)]
    if jobs:
        kani.build_and_run(PROP, ['wire', 'root'], jobs, report)
    obs = [('stream_errors', ob_handle_confines_errors), ('accept_loop', ob_accept_loop),
           ('preamble_reader_mir', C07_e2.ob_preamble_reader),
           ('read_request', lambda rep: C07_e2.ob_read(rep, 'request')),
           ('read_request_dbg', lambda rep: C07_e2.ob_read_total_dbg(rep, 'request')),
           ('dispatch', C16.ob_call),
           ('not_found', lambda rep: ob_no_panic(rep, 'not_found_total', 'NotFound fallback on an arbitrary route string', lambda ex: find_method(ex.prog, 'NotFound', 'call', trait='Service'))),
           ('inbound_timeout', lambda rep: ob_no_panic(rep, 'inbound_timeout_total', 'inbound Timeout::call on an arbitrary `timeout` header', lambda ex: find_method(ex.prog, 'Timeout', 'call', trait='Service', file_re=r'timeout/inbound\.rs'),
                                                          models=[(re.compile(p) if isinstance(p, str) else p, f) for p, f in C11.TIMEOUT_MODELS], depth=4)),
           ('try_parse', C11.ob_try_parse),
           # a stream's decoder sees that stream's bytes only: nothing a peer sends on one stream can make a later, well-formed request fail
           ('stream_handler', lambda rep: rpcpath.ob_do_handle(rep, PROP)),
           # whatever a request stream carries, its failure is that stream's alone: the handler performs no connection-level operation
           ('request_failure_confined', lambda rep: __import__('props.C12', fromlist=['x']).ob_handle_no_connection_ops(rep, PROP)),
           # the header frame is decoded by the derived serde impls of the raw header structs (no hand-written visitor sized by attacker-chosen counts)
           ('raw_header_fields', C07_e2.ob_serde_fields),
           ('removal_entry_points', lambda rep: __import__('props.C04', fromlist=['x']).ob_removal_entry_points(rep)),
           # the reply path cannot panic on what a request made the service return: the header is serialized with the infallible default options and
           # an oversized frame is the frame codec's error on that stream
           ('write_response', lambda rep: C07_e2.ob_write(rep, 'response')),
           # the bundled per-peer limiter (anemo-tower) in front of a service: a peer that keeps requests queued must not be able to block executor threads
           # (no reference into the shared DashMap - a shard lock - is held across a suspension point)
           ('inflight_limiter', lambda rep: __import__('props.C18', fromlist=['x']).ob_call(rep)),
           # a payload the codec cannot decode is echoed into an error status: building that status must not panic on its (peer-controlled) text
           ('status_conversions', lambda rep: __import__('props.C17', fromlist=['x']).ob_status_conversions_total(rep, PROP))]
    for n, f in obs:
        if only and not any(s in n for s in only):
            continue
        f(report)
    report.extra['mir_sha'] = mirdump.mir_sha('anemo')


def replay(path):
    print(open(path).read())
    return 0
