"""C07 - wire format: exact layout, lossless round trip, total decoder."""
from common import *
import kani

PROP = 'C07'
SIZES_QUICK = [0, 1, 3, 8]
SIZES_THOROUGH = [0, 1, 2, 3, 4, 5, 8, 16]


def kani_jobs(tier, prop='C07'):
    W = ['network::wire::read_version_frame', 'network::wire::write_version_frame', 'types::Version::new']
    C = ['network::wire::network_message_frame_codec', 'tokio_util::codec::LengthDelimitedCodec::{encode,decode}']
    jobs = [
        kani.KaniJob('wire', 'c07_preamble_decode_total', 'read_version_frame accepts exactly 61 6e 65 6d 6f 00 01 00 among all 2^64 8-byte inputs; no panic', W,
                     {'unwind': 10, 'inputs': 'buf: [u8; 8] (all 2^64)'}, timeout_s=1200, claim='preamble-decode'),
        kani.KaniJob('wire', 'c07_preamble_layout', 'write_version_frame(V1) emits exactly the 8 established bytes', W, {'unwind': 10}, claim='preamble-layout'),
        kani.KaniJob('root', 'c07_status_closed_set', 'StatusCode::new is Ok exactly on {200,400,404,408,429,500,505,520} and maps back', ['types::response::StatusCode::new', 'StatusCode::to_u16'],
                     {'inputs': 'code: u16 (all)'}),
        kani.KaniJob('root', 'c07_version_closed_set', 'Version::new is Ok exactly on 1', ['types::Version::new'], {'inputs': 'v: u16 (all)'}),
    ]
    if tier == 'thorough':
        jobs.append(kani.KaniJob('wire', 'c07_preamble_prefix_rejected', 'every strict prefix (0..7 bytes) is an error', W, {'unwind': 10, 'inputs': 'buf: [u8;8], len < 8'}, timeout_s=1800))
    for n in (SIZES_QUICK if tier == 'quick' else SIZES_THOROUGH):
        jobs.append(kani.KaniJob('wire', f'c07_frame_encode_{n}', f'{n}-byte body encodes as 4-byte big-endian length + body', C, {'body_len': n, 'inputs': f'body: [u8; {n}] symbolic'}))
        jobs.append(kani.KaniJob('wire', f'c07_frame_decode_{n}', f'prefix({n}) + {n} bytes decodes to exactly that body', C, {'body_len': n, 'inputs': f'body: [u8; {n}] symbolic'}))
    return jobs


def check(report, tier, only=None):
    report.trusted += ['Kani 0.68/CBMC 6.11', 'stubs: Backtrace::capture -> disabled, alloc::fmt::format -> empty string (error text is not the subject)']
    report.outside += ['bodies > 16 bytes (the codec copies bytes without inspecting them - stated, not proved)', 'whole-message round trip under CBMC (out of reach, DESIGN 0)',
                       'header bytes beyond the bincode contract (hashbrown/serde under CBMC)']
    jobs = [j for j in kani_jobs(tier) if not only or any(s in j.harness for s in only)]
    kani.build_and_run(PROP, ['wire', 'root'], jobs, report)
    try:
        from props import C07_e2
        C07_e2.check(report, tier, only)
        # the frame length prefix is 4 bytes big endian for every configuration (a prefix width that depends on max_frame_size changes the wire format)
        from props import C15
        if not only or any(s in 'codec_built' for s in only):
            C15.ob_codec_wiring(report)
        # the bytes the framing layer writes are the bytes QUIC carries, once
        from props import rpcpath
        if not only or any(s in 'send_stream_write' for s in only):
            rpcpath.ob_send_stream_transparent(report, PROP)
    except ImportError:
        pass


def replay(path):
    print(open(path).read())
    return 0
