"""C07 (E2 part) - structure of a message on the wire, from the MIR of write_request/read_request/
write_response/read_response: frame order, what is serialized with which bincode entry point,
which fields travel, every failed step is an error."""
import re, z3
from common import *
import e2, mirdump
from e2 import *
from mirsym import models as MD

PROP = 'C07'
REQ = 'crates/anemo/src/types/request.rs'
RESP = 'crates/anemo/src/types/response.rs'


def m_writer(ex, p, call, k):
    k(p, Agg('Writer', None, (call.args[0],)))


def m_ser(ex, p, call, k):
    if len(call.args) == 1:
        # bincode::serialize(&value) -> Result<Vec<u8>>: same default options (fixed-int, little-endian) as serialize_into
        v = ex.deref(p, call.args[0])
        p.events.append(Event('ser', call.short, (v,), None, call.span, call.depth))
        buf = Sym('serialized-buffer', 'Vec<u8>').with_ov('value', v).with_ov('base', Sym('new()', 'Vec<u8>'))
        return k(p, Sym(f'ser_result{p.seq("ser")}', call.retty).with_ov(('v', 'Ok', 0), buf))
    w, v = call.args[0], ex.deref(p, call.args[1])
    buf = w.fields[0] if isinstance(w, Agg) and w.name == 'Writer' else None
    if isinstance(buf, Ptr):
        # the writer may wrap `&mut BytesMut` or `&mut &mut BytesMut`
        tgt = buf
        inner = ex.read_loc(p, None, tgt.key, tgt.projs)
        if isinstance(inner, Ptr):
            tgt = inner
        cur = ex.deref(p, tgt)
        ex.store(p, tgt, Sym('serialized-buffer', 'BytesMut').with_ov('value', v).with_ov('base', cur if isinstance(cur, Sym) else Sym('?')))
    p.events.append(Event('ser', call.short, (v,), None, call.span, call.depth))
    k(p, Sym(f'ser_result{p.seq("ser")}', call.retty))


def m_bytes_from(ex, p, call, k):
    """Bytes::from(Vec<u8>) / BytesMut -> Bytes conversions keep the content"""
    v = call.args[0]
    k(p, Sym(f'freeze({vname(v)})', 'Bytes').with_ov('src', v))


def m_freeze(ex, p, call, k):
    v = call.args[0]
    k(p, Sym(f'freeze({vname(v)})', 'Bytes').with_ov('src', v))


def m_send(ex, p, call, k):
    p.events.append(Event('send', 'SinkExt::send', (ex.deref(p, call.args[0]), call.args[1]), None, call.span, call.depth))
    k(p, Sym(f'send_future{p.seq("send")}', 'Send'))


def m_next(ex, p, call, k):
    n = p.seq('frame')
    p.events.append(Event('next', 'StreamExt::next', (ex.deref(p, call.args[0]), n), None, call.span, call.depth))
    k(p, Sym(f'frame{n}_future', 'Next'))


def m_deser(ex, p, call, k):
    v = ex.deref(p, call.args[0])
    p.events.append(Event('deser', call.short, (v,), None, call.span, call.depth))
    k(p, Sym('deser', call.retty))


def m_wv(ex, p, call, k):
    p.events.append(Event('write-version', 'write_version_frame', (ex.deref(p, call.args[0]), call.args[1]), None, call.span, call.depth))
    k(p, Sym('wv_future', 'WV'))


def m_rv(ex, p, call, k):
    p.events.append(Event('read-version', 'read_version_frame', (ex.deref(p, call.args[0]),), None, call.span, call.depth))
    k(p, Sym('rv_future', 'RV'))


def m_get_mut(ex, p, call, k):
    s = ex.deref(p, call.args[0])
    k(p, Ptr(('H', f'io({vname(s)})', ''), (), True))


MODELS = [(r'BufMut>::writer$', m_writer), (r'<(bytes::)?Bytes as From>::from$|<(\w+::)*(Vec|BytesMut) as Into>::into$', m_bytes_from), (r'(^|::)serialize(_into)?$', m_ser), (r'BytesMut::freeze$', m_freeze), (r'SinkExt>::send$', m_send),
          (r'StreamExt>::next$', m_next), (r'(^|::)deserialize(_from)?$', m_deser), (r'(^|::)write_version_frame$', m_wv),
          (r'(^|::)read_version_frame$', m_rv), (r'Framed(Read|Write)::get_mut$', m_get_mut)]


def run(fname, crate='anemo'):
    ex = e2.executor(crate, MODELS, max_depth=6)
    fn = find_fn(ex.prog, r'^%s::\{closure#0\}$' % fname)
    p, args = coroutine_start(ex, fn)
    res = ex.run(fn, args, p)
    return ex, fn, res


def is_ready_ok(r):
    return r.tag == 'return' and isinstance(r.ret, Agg) and r.ret.variant == 'Ready' and isinstance(r.ret.fields[0], Agg) and r.ret.fields[0].variant == 'Ok'


def is_ready_err(r):
    return r.tag == 'return' and isinstance(r.ret, Agg) and r.ret.variant == 'Ready' and isinstance(r.ret.fields[0], Agg) and r.ret.fields[0].variant == 'Err'


def viol(ob, ex, detail, key, r, n):
    s = path_summary(r, 20) if r is not None else {}
    o = ob.done([ex], 'violated', detail, s, key=key, paths=n)
    o.replay = write_replay(PROP, o.name, {'detail': detail, 'path': s})
    return o


_FRAMED_STATE = re.compile(r'Framed(Read|Write)?::(read_buffer_mut|write_buffer_mut|from_parts|into_parts|with_capacity|map_decoder|map_encoder|decoder_mut|encoder_mut)$|FramedParts::|LengthDelimitedCodec::set_max_frame_length$')


def _framed_state(r):
    for e in r.events:
        if e.kind == 'call' and _FRAMED_STATE.search(str(e.name)):
            return str(e.name)
    return None


def ob_write(report, kind):
    fname = f'write_{kind}'
    src = REQ if kind == 'request' else RESP
    Hdr, Raw, Msg = ('RequestHeader', 'RawRequestHeader', 'Request') if kind == 'request' else ('ResponseHeader', 'RawResponseHeader', 'Response')

    def body(ob):
        ex, fn, res = run(fname)
        hf, rf, mf = struct_fields(src, Hdr), struct_fields(src, Raw), struct_fields(src, Msg)
        n_ok = 0
        ups = [i for i, t in ex.upvar_types(fn).items() if re.search(r'\b' + Msg + r'<', t)]
        if len(ups) != 1:
            raise NotFound(f'{fname}: the {Msg} parameter among the upvars {ex.upvar_types(fn)}')
        msg = f'gen.{ups[0]}'              # the message parameter, found by its type
        head, body_ = f'{msg}.{mf.index("head")}', f'{msg}.{mf.index("body")}'
        for r in res:
            _fs = _framed_state(r)
            if _fs:
                return viol(ob, ex, f'{fname} reaches into the framed stream\'s codec/buffer state ({_fs.split("::")[-1]}): the frames of this message are not encoded with the one configured codec',
                            f'{fname}-framed-state', r, len(res))
            if r.tag in ('panic', 'diverge'):
                # documented: serialization failure is unwrapped with expect()
                if any(e.kind == 'ser' for e in r.events) and any('ser_result' in str(c) for c in r.pc):
                    continue
                return viol(ob, ex, f'{fname} can {r.tag} outside the documented `serialization should not fail`', f'{fname}-panic', r, len(res))
            if not is_ready_ok(r):
                continue
            n_ok += 1
            seq = [e for e in r.events if e.kind in ('write-version', 'ser', 'send')]
            kinds = [e.kind for e in seq]
            if kinds != ['write-version', 'ser', 'send', 'send']:
                return viol(ob, ex, f'{fname}: a successful write performs {kinds}, not [version frame, serialize header, send header frame, send body frame]',
                            f'{fname}-order', r, len(res))
            wv, ser, s1, s2 = seq
            if vname(wv.args[0]) != f'io({vname(s1.args[0])})' or vname(s1.args[0]) != vname(s2.args[0]):
                return viol(ob, ex, f'{fname}: preamble and frames do not go to the same stream', f'{fname}-stream', r, len(res))
            if vname(wv.args[1]) != f'{head}.{hf.index("version")}':
                return viol(ob, ex, f'{fname}: preamble carries {vrepr(wv.args[1])}, not the message\'s version', f'{fname}-version', r, len(res))
            if ser.name not in ('bincode::serialize_into', 'bincode::serialize'):
                return viol(ob, ex, f'{fname}: header serialized with `{ser.name}`, not bincode::serialize_into / bincode::serialize (default options: fixed-int little-endian layout)', f'{fname}-serializer', r, len(res))
            raw = ser.args[0]
            if not (isinstance(raw, Agg) and raw.name == Raw and len(raw.fields) == len(rf)):
                return viol(ob, ex, f'{fname}: serialized value is {vrepr(raw)}, not a {Raw}', f'{fname}-raw', r, len(res))
            first = rf[0]    # route | status
            fv = raw.fields[0]
            if kind == 'request':
                okf = vname(fv) == f'{head}.{hf.index("route")}'
            else:
                okf = isinstance(fv, z3.ExprRef) and str(fv) == f'{head}.{hf.index("status")}.discr'
            if not okf or rf != [first, 'headers'] or vname(raw.fields[1]) != f'{head}.{hf.index("headers")}':
                return viol(ob, ex, f'{fname}: wire header is {vrepr(raw)} - expected exactly ({first}, headers) of the message; extensions never travel', f'{fname}-fields', r, len(res))
            f1 = s1.args[1]
            srcbuf = f1.get_ov('src') if isinstance(f1, Sym) else None
            if not (isinstance(srcbuf, Sym) and srcbuf.name == 'serialized-buffer' and srcbuf.get_ov('value') is raw or
                    (isinstance(srcbuf, Sym) and srcbuf.name == 'serialized-buffer' and vrepr(srcbuf.get_ov('value')) == vrepr(raw))):
                return viol(ob, ex, f'{fname}: first frame sent is {vrepr(f1)}, not the buffer the header was serialized into', f'{fname}-header-frame', r, len(res))
            base = srcbuf.get_ov('base')
            if not (isinstance(base, Sym) and base.name.startswith('new(')):
                return viol(ob, ex, f'{fname}: header buffer does not start empty ({vrepr(base)})', f'{fname}-header-buffer', r, len(res))
            if vname(s2.args[1]) != body_:
                return viol(ob, ex, f'{fname}: second frame is {vrepr(s2.args[1])}, not the message body', f'{fname}-body-frame', r, len(res))
        if not n_ok:
            return ob.done([ex], 'inconclusive', 'vacuity: no successful path', paths=len(res))
        ob.done([ex], 'held', '', {'success_paths': n_ok, 'paths': len(res), 'example': path_summary([r for r in res if is_ready_ok(r)][0], 20)}, paths=len(res))
    return guarded(report, f'{fname}_structure', f'{fname}: version preamble, then one frame = bincode::serialize_into of {Raw}{{{"route" if kind == "request" else "status"}, headers}} '
                   'built from the message, then one frame = the body; same stream; nothing else', [fname, f'{Raw}::from_header'], {'inline_depth': 6}, body)


def ob_read_total_dbg(report, kind):
    """the decoder in the profile the test suite (and every debug build) runs: with debug assertions compiled in, no assertion of the crate can fire on
    what a peer sent - a `debug_assert!` about the *content* of a decoded message (a route shape, a header) turns untrusted input into a panic"""
    fname = f'read_{kind}'

    def body(ob):
        ex, fn, res = run(fname, 'anemo@dbg')
        n_ok = 0
        for r in res:
            if r.tag in ('panic', 'diverge'):
                last = [e for e in r.events if e.kind in ('panic', 'call')][-3:]
                return viol(ob, ex, f'{fname} (debug-assertions build) can panic on a decodable message: {[str(e.name)[:60] for e in last]} - an assertion over decoded, peer-controlled '
                            'content is reachable', f'{fname}-dbg-panic', r, len(res))
            if is_ready_ok(r):
                n_ok += 1
        if not n_ok:
            return ob.done([ex], 'inconclusive', 'no successful path in the debug-assertions MIR', paths=len(res))
        ob.done([ex], 'held', '', {'paths': len(res), 'success_paths': n_ok}, paths=len(res))
    return guarded(report, f'{fname}_total_with_debug_assertions', f'{fname} compiled with -C debug-assertions=on (the dev/test profile): no path panics, whatever the frames contain',
                   [fname, 'everything it calls in the crate, 6 levels'], {'inline_depth': 6, 'profile': 'debug assertions on, overflow checks on'}, body)


def ob_read(report, kind):
    fname = f'read_{kind}'
    src = REQ if kind == 'request' else RESP
    Hdr, Raw, Msg = ('RequestHeader', 'RawRequestHeader', 'Request') if kind == 'request' else ('ResponseHeader', 'RawResponseHeader', 'Response')

    def body(ob):
        ex, fn, res = run(fname)
        hf, rf, mf = struct_fields(src, Hdr), struct_fields(src, Raw), struct_fields(src, Msg)
        n_ok = n_err = 0
        seen_none = set()
        for r in res:
            _fs = _framed_state(r)
            if _fs:
                return viol(ob, ex, f'{fname} reaches into the framed stream\'s codec/buffer state ({_fs.split("::")[-1]}): the frames of this message are not decoded with the one configured codec '
                            '(e.g. a different limit for one of them)', f'{fname}-framed-state', r, len(res))
            if r.tag in ('panic', 'diverge', 'loop-bound'):
                return viol(ob, ex, f'{fname} can {r.tag} on some input', f'{fname}-panic', r, len(res))
            pcs = [str(z3.simplify(c)).replace('\n', ' ') for c in r.pc]
            for c in pcs:
                m = re.match(r'poll\(frame(\d)_future\)#1\.discr == 0', c)
                if m:
                    seen_none.add(int(m.group(1)))
            if is_ready_err(r):
                n_err += 1
                continue
            if not is_ready_ok(r):
                continue
            n_ok += 1
            seq = [e for e in r.events if e.kind in ('read-version', 'next', 'deser')]
            kinds = [e.kind for e in seq]
            if kinds != ['read-version', 'next', 'deser', 'next']:
                return viol(ob, ex, f'{fname}: a successful read performs {kinds}, not [version frame, header frame, deserialize, body frame]', f'{fname}-order', r, len(res))
            rv, n1, de, n2 = seq
            need = ['poll(rv_future)#1.discr == 0', 'poll(frame1_future)#1.discr == 1', 'poll(frame1_future)#1@Some.0.discr == 0', 'deser.discr == 0',
                    'poll(frame2_future)#1.discr == 1', 'poll(frame2_future)#1@Some.0.discr == 0']
            missing = [x for x in need if not any(x in c.replace('0 == ', '').replace('1 == ', '') or _eqform(x) in c for c in pcs)]
            if missing:
                return viol(ob, ex, f'{fname} returns Ok although not all of: preamble ok, header frame present+ok, header decodes, body frame present+ok '
                            f'(missing: {missing}) - a truncated or failed read must be an error', f'{fname}-ok-without:' + missing[0].split('.')[0], r, len(res))
            if de.name != 'bincode::deserialize':
                return viol(ob, ex, f'{fname}: header decoded with `{de.name}`, not bincode::deserialize', f'{fname}-deserializer', r, len(res))
            if 'frame1_future' not in vname(de.args[0]) or '@Some.0@Ok.0' not in vname(de.args[0]):
                return viol(ob, ex, f'{fname}: decodes {vrepr(de.args[0])}, not the first frame', f'{fname}-deser-arg', r, len(res))
            if vname(rv.args[0]) != f'io({vname(n1.args[0])})' or vname(n1.args[0]) != vname(n2.args[0]):
                return viol(ob, ex, f'{fname}: preamble and frames are not read from the same stream', f'{fname}-stream', r, len(res))
            msg = r.ret.fields[0].fields[0]
            if not (isinstance(msg, Agg) and msg.name == Msg):
                return viol(ob, ex, f'{fname}: returns {vrepr(msg)[:120]}', f'{fname}-ret', r, len(res))
            head, body_ = msg.fields[mf.index('head')], msg.fields[mf.index('body')]
            rawv = 'deser@Ok.0'
            okh = (isinstance(head, Agg) and vname(head.fields[hf.index('version')]) == 'poll(rv_future)#1@Ok.0'
                   and vname(head.fields[hf.index('headers')]) == f'{rawv}.{rf.index("headers")}'
                   and re.match(r'(default|new)\(\)', vname(head.fields[hf.index('extensions')])) is not None)   # Extensions::default() / Extensions::new(): fresh, empty
            if kind == 'request':
                okh = okh and vname(head.fields[hf.index('route')]) == f'{rawv}.{rf.index("route")}'
            else:
                st = head.fields[hf.index('status')]
                code = z3.BitVec(f'{rawv}.{rf.index("status")}', 16)
                idx = ex.enums.index('StatusCode', st.variant) if isinstance(st, Agg) and st.variant else None
                if okh and isinstance(st, Agg) and idx is None:
                    return ob.done([ex], 'inconclusive', f'the numeric codes of StatusCode are not declared literally in the source (macro-generated enum?): cannot relate {vrepr(st)} to the decoded status',
                                   paths=len(res))
                okh = okh and idx is not None and e2.solve(r.pc + [code != idx], want_model=False)[0] == 'unsat'
            if not okh:
                return viol(ob, ex, f'{fname}: header rebuilt as {vrepr(head)[:200]} - expected (decoded {"route" if kind == "request" else "status"}, preamble version, decoded headers, fresh extensions)',
                            f'{fname}-header', r, len(res))
            if 'frame2_future' not in vname(body_) or not vname(body_).startswith('freeze('):
                return viol(ob, ex, f'{fname}: body is {vrepr(body_)}, not the second frame', f'{fname}-body', r, len(res))
        if not n_ok or not n_err or seen_none != {1, 2}:
            return ob.done([ex], 'inconclusive', f'vacuity: ok={n_ok} err={n_err} truncated-after={seen_none}', paths=len(res))
        ob.done([ex], 'held', '', {'success_paths': n_ok, 'error_paths': n_err, 'paths': len(res)}, paths=len(res))
    return guarded(report, f'{fname}_structure', f'{fname}: Ok only if preamble, header frame, bincode::deserialize, '
                   + ('status code, ' if kind == 'response' else '') + 'and body frame all succeeded (end of stream at any point is an error); message = (decoded header fields, preamble version, fresh extensions, second frame)',
                   [fname, f'{Hdr}::from_raw', f'{Msg}::from_parts'] + (['StatusCode::new'] if kind == 'response' else []), {'inline_depth': 6}, body)


def _eqform(x):
    a, b = x.rsplit(' == ', 1)
    return f'{b} == {a}'


def ob_serde_fields(report):
    """the derive(Serialize/Deserialize) bodies fix field order and names of the two raw headers"""
    def body(ob):
        out = {}
        for kind, src, Raw, first in (('request', REQ, 'RawRequestHeader', 'route'), ('response', RESP, 'RawResponseHeader', 'status')):
            rf = struct_fields(src, Raw)
            if rf != [first, 'headers']:
                o = ob.done([], 'violated', f'{Raw} has fields {rf}; the established wire header is ({first}, headers) in that order', {'fields': rf}, key=f'raw-fields-{kind}')
                o.replay = write_replay(PROP, o.name, {'fields': rf})
                return o
            text = open(os.path.join(REPO, getattr(rf, 'found_in', src))).read()
            m = re.search(r'((?:#\[[^\]]*\]\s*)+)(?:pub(?:\([^)]*\))?\s+)?struct\s+' + Raw, text)
            if not m:
                return ob.done([], 'inconclusive', f'declaration of {Raw} (with its attributes) not found in {getattr(rf, "found_in", src)}')
            attrs = m.group(1)
            if 'serde::Serialize' not in attrs or 'serde::Deserialize' not in attrs or re.search(r'serde\s*\(', attrs):
                o = ob.done([], 'violated', f'{Raw} is not a plain derive(Serialize, Deserialize) struct: {attrs.strip()}', {'attrs': attrs}, key=f'raw-derive-{kind}')
                o.replay = write_replay(PROP, o.name, {'attrs': attrs})
                return o
            body_ = re.search(r'struct\s+' + Raw + r'\s*\{(.*?)\n\}', text, re.S).group(1)
            if re.search(r'#\s*\[\s*serde', body_):
                o = ob.done([], 'violated', f'{Raw} has per-field serde attributes (layout changed)', {'body': body_}, key=f'raw-field-attrs-{kind}')
                o.replay = write_replay(PROP, o.name, {'body': body_})
                return o
            out[Raw] = rf
        # the MIR of the derived Serialize impl serializes exactly those fields in order
        prog, _ = mirdump.program('anemo')
        for Raw, fields in out.items():
            fs = [f for fl in prog.fns.values() for f in fl if f.raw.endswith('::serialize') and f.args and Raw in f.decl.get(f.args[0], '')]
            if len(fs) != 1:
                return ob.done([], 'inconclusive', f'derived Serialize::serialize of {Raw} not found in MIR ({len(fs)})')
            names = []
            for sts in fs[0].blocks.values():
                for st, _ in sts:
                    if st[0] == 'call' and isinstance(st[2], str) and 'serialize_field' in st[2]:
                        for a in st[3]:
                            if a[0] == 'const' and a[1].startswith('"'):
                                names.append(a[1].strip('"'))
            if names != fields:
                o = ob.done([], 'violated', f'derived serializer of {Raw} writes fields {names}, expected {fields}', {'names': names}, key=f'raw-ser-order-{Raw}')
                o.replay = write_replay(PROP, o.name, {'names': names})
                return o
        ob.done([], 'held', '', {'layout': out}, paths=2)
    return guarded(report, 'raw_header_fields', 'RawRequestHeader = (route, headers), RawResponseHeader = (status, headers): plain serde derives, in that field order',
                   ['RawRequestHeader', 'RawResponseHeader', 'derived Serialize::serialize'], {}, body)


# ----------------------------------------------------------------------------- preamble bytes from the MIR (twin of the Kani harnesses)
PREAMBLE = [0x61, 0x6e, 0x65, 0x6d, 0x6f, 0x00, 0x01, 0x00]


def ob_preamble_reader(report):
    def body(ob):
        def m_read_exact(ex, p, call, k):
            k(p, Sym('read_exact_future', 'ReadExact').with_ov('buf', call.args[1]))

        def m_poll_re(ex, p, call, k):
            fut = ex.deref(p, call.args[0])
            buf = fut.get_ov('buf') if isinstance(fut, Sym) else None
            if not isinstance(buf, Ptr):
                raise Unmodelled('read_exact buffer')
            cur = MD.as_array(ex, p, buf)
            n = len(cur.fields) if cur is not None else 8
            q, r = p.clone(), p.clone()
            tgt = buf
            while isinstance(ex.read_loc(p, None, tgt.key, tgt.projs), Ptr):
                tgt = ex.read_loc(p, None, tgt.key, tgt.projs)
            ex.store(p, tgt, Agg('[]', None, [z3.BitVec(f'b{i}', 8) for i in range(n)], 'array'))
            p.events.append(Event('read', 'filled', (z3.BitVecVal(n, 64),)))
            k(p, Agg('Poll', 'Ready', (MD.ok(z3.BitVecVal(n, 64)),)))
            q.events.append(Event('read', 'short', ()))
            k(q, Agg('Poll', 'Ready', (MD.err(Sym('io_error', 'std::io::Error')),)))
            r.events.append(Event('read', 'pending', ()))
            k(r, Agg('Poll', 'Pending', ()))
        ex = e2.executor('anemo', [(r'AsyncReadExt>::read_exact$', m_read_exact), (r'ReadExact as Future>::poll$', m_poll_re)], max_depth=3)
        fn = find_fn(ex.prog, r'^read_version_frame::\{closure#0\}$')
        p, args = coroutine_start(ex, fn)
        res = ex.run(fn, args, p)
        bs = [z3.BitVec(f'b{i}', 8) for i in range(8)]
        spec = z3.And([b == v for b, v in zip(bs, PREAMBLE)])
        filled = [r for r in res if any(e.kind == 'read' and e.name == 'filled' for e in r.events)]
        short = [r for r in res if any(e.kind == 'read' and e.name == 'short' for e in r.events)]
        if not filled or not short:
            return ob.done([ex], 'inconclusive', 'vacuity: no complete / short read path', paths=len(res))
        for r in filled:
            if r.tag != 'return':
                return viol(ob, ex, f'preamble reader can {r.tag} on 8 input bytes', 'preamble-read-panic', r, len(res))
            if any(e.kind == 'read' and e.name == 'filled' and e.args[0].as_long() != 8 for e in r.events):
                return viol(ob, ex, 'preamble reader does not read exactly 8 bytes', 'preamble-read-len', r, len(res))
        okc = z3.Or([r.path.cond() for r in filled if is_ready_ok(r)] or [z3.BoolVal(False)])
        errc = z3.Or([r.path.cond() for r in filled if is_ready_err(r)] or [z3.BoolVal(False)])
        q1, m1, t1 = solve([okc != spec])
        q2, m2, t2 = solve([errc != z3.Not(spec)])
        for r in filled:
            if is_ready_ok(r):
                v = r.ret.fields[0].fields[0]
                if not (isinstance(v, Agg) and v.name == 'Version' and v.variant == 'V1'):
                    return viol(ob, ex, f'accepted preamble yields {vrepr(v)}, not Version::V1', 'preamble-read-version', r, len(res))
        for r in short:
            if not is_ready_err(r):
                return viol(ob, ex, 'a truncated preamble (read_exact failed) is not an error', 'preamble-read-short', r, len(res))
        sample = {'paths': len(res), 'accepting_paths': sum(1 for r in filled if is_ready_ok(r))}
        if 'unknown' in (q1, q2):
            return ob.done([ex], 'inconclusive', 'solver unknown', sample, paths=len(res), extra_queries=2, extra_solver=t1 + t2)
        if q1 == 'sat' or q2 == 'sat':
            m = m1 or m2
            cex = [m.eval(b, True).as_long() for b in bs]
            sample['counterexample_bytes'] = ' '.join('%02x' % x for x in cex)
            sample['code_accepts'] = z3.is_true(m.eval(okc, True))
            o = ob.done([ex], 'violated', f'preamble reader {"accepts" if sample["code_accepts"] else "rejects"} the 8 bytes {sample["counterexample_bytes"]}', sample,
                        key='preamble-read-set', paths=len(res), extra_queries=2, extra_solver=t1 + t2)
            o.replay = write_replay(report.prop, o.name, sample)
            # replay the solver's 8 bytes against the real build before reporting
            import kani
            kani.confirm_natively(o, report.prop, 'wire', 'verif_replay_c07_preamble_bytes', {'VERIF_CEX_BYTES': sample['counterexample_bytes']}, 'preamble bytes')
            return o
        ob.done([ex], 'held', '', sample, paths=len(res), extra_queries=2, extra_solver=t1 + t2)
    o = guarded(report, 'preamble_reader_mir', 'read_version_frame (MIR): among all 2^64 inputs exactly 61 6e 65 6d 6f 00 01 00 is accepted, as Version::V1; a failed read_exact is an error',
                ['read_version_frame', 'Version::new'], {'inputs': '8 symbolic bytes', 'inline_depth': 3}, body)
    o.claim = 'preamble-decode'
    return o


def ob_preamble_writer(report):
    def body(ob):
        def m_write_all(ex, p, call, k):
            arr = MD.as_array(ex, p, call.args[1])
            p.events.append(Event('write_all', 'write_all', (arr,) if arr is not None else (call.args[1],)))
            k(p, Sym('write_all_future', 'WriteAll'))
        ex = e2.executor('anemo', [(r'AsyncWriteExt>::write_all$', m_write_all)], max_depth=3)
        fn = find_fn(ex.prog, r'^write_version_frame::\{closure#0\}$')
        ver = Sym('ver', 'types::Version')
        p, args = coroutine_start(ex, fn, [None, ver])
        res = ex.run(fn, args, p)
        d = z3.BitVec('ver.discr', 16)
        n = 0
        for r in res:
            if r.tag != 'return':
                return viol(ob, ex, f'preamble writer can {r.tag}', 'preamble-write-panic', r, len(res))
            ws = [e for e in r.events if e.kind == 'write_all']
            if is_ready_ok(r) or ws:
                if len(ws) != 1 or not isinstance(ws[0].args[0], Agg) or len(ws[0].args[0].fields) != 8:
                    return viol(ob, ex, f'preamble writer does not emit one 8-byte buffer: {[vrepr(w.args[0]) for w in ws]}', 'preamble-write-shape', r, len(res))
                bytes_ = ws[0].args[0].fields
                want = [z3.BitVecVal(x, 8) for x in PREAMBLE[:5]] + [z3.Extract(15, 8, d), z3.Extract(7, 0, d), z3.BitVecVal(0, 8)]
                q, m, _ = solve(r.pc + [z3.Or([a != b for a, b in zip(bytes_, want)])])
                ex.queries += 1
                if q != 'unsat':
                    got = ' '.join('%02x' % m.eval(b, True).as_long() for b in bytes_) if m is not None else '?'
                    return viol(ob, ex, f'preamble writer emits {got} for version {m.eval(d, True) if m is not None else "?"} - not "anemo", big-endian version, 00',
                                'preamble-write-bytes', r, len(res))
                n += 1
        if not n:
            return ob.done([ex], 'inconclusive', 'vacuity: no write observed', paths=len(res))
        ob.done([ex], 'held', '', {'paths': len(res)}, paths=len(res))
    o = guarded(report, 'preamble_writer_mir', 'write_version_frame (MIR): emits exactly "anemo" ++ big-endian u16 version ++ 00 in one write, for every version value',
                ['write_version_frame', 'Version::to_u16'], {'inputs': 'version discriminant symbolic (u16)', 'inline_depth': 3}, body)
    o.claim = 'preamble-layout'
    return o


def check(report, tier, only=None):
    report.trusted += ['bincode::serialize_into / bincode::deserialize = bincode 1.x default options: fixed-int little-endian (LE64 length | bytes; LE64 count | entries; LE16 status) - contract model',
                       'futures SinkExt::send / StreamExt::next on Framed{Write,Read} move exactly one frame']
    obs = [lambda rep: ob_write(rep, 'request'), lambda rep: ob_write(rep, 'response'), lambda rep: ob_read(rep, 'request'), lambda rep: ob_read(rep, 'response'), ob_serde_fields,
           ob_preamble_reader, ob_preamble_writer, lambda rep: ob_read_total_dbg(rep, 'request'), lambda rep: ob_read_total_dbg(rep, 'response')]
    names = ['write_request', 'write_response', 'read_request', 'read_response', 'raw_header_fields', 'preamble_reader_mir', 'preamble_writer_mir', 'read_request_dbg', 'read_response_dbg']
    for f, n in zip(obs, names):
        if only and not any(s in n for s in only):
            continue
        f(report)
    report.extra['mir_sha'] = mirdump.mir_sha('anemo')
