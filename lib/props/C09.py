"""C09 - connection views are eventually mutual; disconnects propagate (local steps; QUIC timers outside)."""
import re, z3
from common import *
import e2, mirdump, kani
from e2 import *
from mirsym import models as MD
from mirsym.sym import derives_from
from props import C04, C12, handler
from props.cmodels import *

PROP = 'C09'


def viol(ob, exs, detail, key, sample, n):
    o = ob.done(exs, 'violated', detail, sample, key=key, paths=n)
    o.replay = write_replay(PROP, o.name, {'detail': detail, 'sample': sample})
    return o


def ob_disconnect(report):
    def body(ob):
        def m_upgrade(ex, p, call, k):
            k(p, Sym('upgraded', 'Option<ActivePeers>'))

        def m_remove(ex, p, call, k):
            p.events.append(Event('remove', 'ActivePeers::remove', (ex.deref(p, call.args[0]), ex.deref(p, call.args[1]), call.args[2])))
            k(p, UNIT)

        def m_get(ex, p, call, k):
            p.events.append(Event('get', 'ActivePeers::get', (ex.deref(p, call.args[0]), ex.deref(p, call.args[1]))))
            k(p, Sym('found', 'Option<Connection>'))
        models = [(r'ActivePeersRef::upgrade$', m_upgrade), (r'ActivePeers::remove$', m_remove), (r'ActivePeers::get$', m_get)]
        ex = e2.executor('anemo', models, max_depth=2)
        fn = find_method(ex.prog, 'NetworkInner', 'disconnect')
        pid = z3.BitVec('peer', 256)
        res = ex.run(fn, [Ptr(('H', 'net', 'NetworkInner')), pid])
        n_ok = 0
        for r in res:
            if r.tag == 'panic' and poison_panic(r):
                continue
            if r.tag != 'return':
                return viol(ob, [ex], f'disconnect can {r.tag}', 'disc-abnormal', path_summary(r), len(res))
            rm = [e for e in r.events if e.kind == 'remove']
            if isinstance(r.ret, Agg) and r.ret.variant == 'Ok':
                n_ok += 1
                okd = (len(rm) == 1 and vname(rm[0].args[0]) == 'upgraded@Some.0' and isinstance(rm[0].args[1], z3.ExprRef) and str(rm[0].args[1]) == 'peer'
                       and isinstance(rm[0].args[2], Agg) and rm[0].args[2].variant == 'Requested')
                if not okd:
                    return viol(ob, [ex], f'disconnect(p) does not remove exactly p from the live active set with reason Requested: {[vrepr(a)[:40] for e in rm for a in e.args]}', 'disc-remove', path_summary(r), len(res))
            elif rm:
                return viol(ob, [ex], 'disconnect reports an error after removing', 'disc-err', path_summary(r), len(res))
        if not n_ok:
            return ob.done([ex], 'inconclusive', 'no Ok path', paths=len(res))
        # peer(): only through the active set; absent => None (rpc then fails "not connected")
        fn2 = find_method(ex.prog, 'NetworkInner', 'peer')
        res2 = ex.run(fn2, [Ptr(('H', 'net', 'NetworkInner')), pid])
        fd = z3.BitVec('found.discr', 64)
        for r in res2:
            if r.tag == 'panic' and poison_panic(r):
                continue
            if r.tag != 'return':
                return viol(ob, [ex], f'NetworkInner::peer can {r.tag}', 'peer-abnormal', path_summary(r), len(res2))
            g = [e for e in r.events if e.kind == 'get']
            some = isinstance(r.ret, Agg) and r.ret.variant == 'Some'
            if some:
                if len(g) != 1 or str(g[0].args[1]) != 'peer' or e2.solve(r.pc + [fd != 1], want_model=False)[0] != 'unsat':
                    return viol(ob, [ex], 'a Peer handle is produced for an identity that is not in the active set', 'peer-not-listed', path_summary(r), len(res2))
                if not derives_from(r.ret, lambda v: isinstance(v, Sym) and v.name == 'found@Some.0', ex=ex, p=r.path):
                    return viol(ob, [ex], 'the Peer handle is not bound to the listed connection', 'peer-conn', path_summary(r), len(res2))
        ob.done([ex], 'held', '', {'paths': len(res) + len(res2)}, paths=len(res) + len(res2))
    return guarded(report, 'disconnect_is_requested_removal', 'NetworkInner::disconnect(p) = ActivePeers::remove(p, Requested) (entry gone, connection closed, LostPeer(Requested) under the lock - C04 remove_transition); '
                   'NetworkInner::peer(p) yields a handle only for a listed connection, so later RPCs fail until a new connection is added', ['NetworkInner::disconnect', 'NetworkInner::peer'], {}, body)


def ob_reason_mapping(report):
    def body(ob):
        ex = e2.executor('anemo', [], max_depth=1)
        fn = find_method(ex.prog, 'DisconnectReason', 'from_quinn_error')
        err = Sym('err', 'quinn::ConnectionError')
        p = Path()
        p.mem[('H', 'err', 'ConnectionError')] = err
        res = ex.run(fn, [Ptr(('H', 'err', 'ConnectionError'))], p)
        table = ex.enums.variants('ConnectionError', 'quinn')
        if not table:
            return ob.done([ex], 'inconclusive', 'quinn::ConnectionError variants not found in the vendored source', paths=len(res))
        d = z3.BitVec('err.discr', 64)
        want = {v: ('TransportError' if v == 'CidsExhausted' else v) for v in table}
        got = {}
        for r in res:
            if r.tag != 'return':
                return viol(ob, [ex], f'from_quinn_error can {r.tag}', 'reason-abnormal', path_summary(r), len(res))
            for v, idx in table.items():
                if ex.feasible(r.pc + [d == idx]):
                    got[v] = r.ret.variant if isinstance(r.ret, Agg) else vrepr(r.ret)
        bad = {v: got.get(v) for v in table if got.get(v) != want[v]}
        if bad:
            return viol(ob, [ex], f'close reasons are not mapped to their namesakes: {bad}', 'reason-map:' + sorted(bad)[0], {'mapping': got}, len(res))
        ob.done([ex], 'held', '', {'mapping': got}, paths=len(res))
    return guarded(report, 'disconnect_reason_mapping', 'DisconnectReason::from_quinn_error is total and maps every quinn ConnectionError variant to its namesake (CidsExhausted -> TransportError)',
                   ['DisconnectReason::from_quinn_error'], {'variants': 'all, from the vendored quinn-proto source'}, body)


def ob_transport_config(report):
    def body(ob):
        def setter(name):
            def m(ex, p, call, k):
                p.events.append(Event('transport-set', name, (call.args[1],)))
                k(p, call.args[0])
            return m
        models = [(rf'TransportConfig::{n}$', setter(n)) for n in ('max_idle_timeout', 'keep_alive_interval')]
        models += [(r'Duration::from_millis$', lambda ex, p, call, k: k(p, z3.BV2Int(call.args[0]) * 1000000))]
        ex = e2.executor('anemo', models, max_depth=3)
        fn = find_method(ex.prog, 'QuicConfig', 'transport_config')
        qf = struct_fields('crates/anemo/src/config.rs', 'QuicConfig')
        res = ex.run(fn, [Ptr(('H', 'qc', 'QuicConfig'))])
        ii, ki = qf.index('max_idle_timeout_ms'), qf.index('keep_alive_interval_ms')
        idl_d, ka_d = z3.BitVec(f'qc.{ii}.discr', 64), z3.BitVec(f'qc.{ki}.discr', 64)
        ka_v = z3.BitVec(f'qc.{ki}@Some.0', 64)
        n = 0
        for r in res:
            if r.tag != 'return':
                continue
            sets = {e.name: e for e in r.events if e.kind == 'transport-set'}
            dom = [z3.ULT(idl_d, 2), z3.ULT(ka_d, 2)]
            if not ex.feasible(r.pc + dom):
                continue
            n += 1
            has_idle = e2.solve(r.pc + dom + [idl_d != 1], want_model=False)[0] == 'unsat'
            has_ka = e2.solve(r.pc + dom + [ka_d != 1], want_model=False)[0] == 'unsat'
            if has_idle != ('max_idle_timeout' in sets):
                return viol(ob, [ex], 'a configured max_idle_timeout_ms is not applied to the QUIC transport (silent loss would be detected late or never)', 'transport-idle', path_summary(r), len(res))
            if has_idle and not derives_from(sets['max_idle_timeout'].args[0], lambda v: (isinstance(v, z3.ExprRef) and f'qc.{ii}@Some.0' in str(v)) or (isinstance(v, Sym) and f'qc.{ii}@Some.0' in v.name)
                                                or (isinstance(v, Const) and 'VarInt::MAX' in v.text and any('try_from' in str(c) for c in r.pc))):
                return viol(ob, [ex], 'the idle timeout applied is not derived from the configured value', 'transport-idle-value', path_summary(r), len(res))
            if has_ka != ('keep_alive_interval' in sets):
                return viol(ob, [ex], 'a configured keep_alive_interval_ms is not applied to the QUIC transport', 'transport-keepalive', path_summary(r), len(res))
            if has_ka:
                v = sets['keep_alive_interval'].args[0]
                inner = v.fields[0] if isinstance(v, Agg) and v.variant == 'Some' else None
                if not (isinstance(inner, z3.ExprRef) and e2.solve(r.pc + [inner != z3.BV2Int(ka_v) * 1000000], want_model=False)[0] == 'unsat'):
                    return viol(ob, [ex], 'the keep-alive interval applied is not the configured number of milliseconds', 'transport-keepalive-value', path_summary(r), len(res))
        if n < 4:
            return ob.done([ex], 'inconclusive', f'only {n} feasible paths', paths=len(res))
        # every quinn config anemo builds carries the endpoint's transport config
        ex2 = e2.executor('anemo', [], max_depth=1)
        total = len(res)
        for meth, how in (('client_config_with_expected_server_identity', 'call'), ('client_config', 'call'), ('server_config', 'field')):
            fns = [f for f in find_fns(ex2.prog, rf'^config::<impl>::{meth}$') if len(f.args) >= 2]
            if len(fns) != 1:
                return ob.done([ex, ex2], 'inconclusive', f'EndpointConfig(Builder)::{meth} not found', paths=total)
            rs = ex2.run(fns[0], [])
            total += len(rs)
            for r in rs:
                if r.tag != 'return':
                    continue
                ret = r.ret
                val = ret.fields[0] if isinstance(ret, Agg) and ret.variant == 'Ok' else ret
                if isinstance(ret, Agg) and ret.variant == 'Err':
                    continue
                tc = [e for e in r.events if e.kind == 'call' and e.name.endswith('ClientConfig::transport_config')]
                if how == 'call' or meth != 'server_config':
                    src = 'in_1.*' if meth == 'client_config_with_expected_server_identity' else 'in_4'
                    if len(tc) != 1 or not derives_from(tc[0].args[1], lambda v: isinstance(v, Sym) and v.name.startswith(src), ex=ex2, p=r.path):
                        return viol(ob, [ex, ex2], f'{meth}: the quinn client config is built without the endpoint\'s transport config (idle timeout / keep-alive not applied on this dial path)',
                                    f'transport-not-applied:{meth}', path_summary(r), total)
                else:
                    if not derives_from(val, lambda v: isinstance(v, Sym) and v.name == 'in_4', ex=ex2, p=r.path):
                        return viol(ob, [ex, ex2], 'server_config: the quinn server config does not carry the endpoint\'s transport config', 'transport-not-applied:server', path_summary(r), total)
        ob.done([ex, ex2], 'held', '', {'paths': total}, paths=total)
    return guarded(report, 'idle_timeout_and_keepalive_applied', 'QuicConfig::transport_config applies max_idle_timeout_ms / keep_alive_interval_ms exactly when configured; the default client config, the '
                   'identity-pinned client config and the server config are all built with the endpoint\'s transport config', ['QuicConfig::transport_config', 'EndpointConfigBuilder::{client_config,server_config}',
                                                                                                                           'EndpointConfig::client_config_with_expected_server_identity'], {}, body)


def ob_transport_limits(report):
    """a configured stream/window limit reaches the QUIC transport as min(n, 2^62-1): a value beyond the varint range means "as large as possible",
    never a small number (a zero window or zero stream budget leaves a listed peer that no RPC can reach)"""
    LIM = 1 << 62
    NAMES = ('max_concurrent_bidi_streams', 'max_concurrent_uni_streams', 'stream_receive_window', 'receive_window')

    def body(ob):
        def setter(name):
            def m(ex, p, call, k):
                p.events.append(Event('transport-set', name, (call.args[1],)))
                k(p, call.args[0])
            return m

        def m_try_from(ex, p, call, k):
            n = call.args[0]
            if not (isinstance(n, z3.ExprRef) and z3.is_bv(n) and n.size() == 64):
                return k(p, Sym(f'varint_try_from{p.seq("vtf")}', 'Result<VarInt, VarIntBoundsExceeded>'))
            q = p.clone()
            p.pc.append(z3.ULT(n, z3.BitVecVal(LIM, 64)))
            k(p, MD.ok(n))
            q.pc.append(z3.UGE(n, z3.BitVecVal(LIM, 64)))
            k(q, MD.err(Sym('bounds_exceeded', 'VarIntBoundsExceeded')))

        def m_from_u32(ex, p, call, k):
            n = call.args[0]
            k(p, z3.ZeroExt(32, n) if isinstance(n, z3.ExprRef) and z3.is_bv(n) and n.size() == 32 else n)
        models = [(rf'TransportConfig::{n}$', setter(n)) for n in NAMES]
        models += [(r'VarInt as TryFrom>::try_from$', m_try_from), (r'VarInt as Default>::default$', lambda ex, p, call, k: k(p, z3.BitVecVal(0, 64))),
                   (r'VarInt::from_u32$|VarInt as From>::from$', m_from_u32), (r'VarInt::from_u64$', m_try_from),
                   (r'VarInt::into_inner$', lambda ex, p, call, k: k(p, call.args[0]))]
        ex = e2.executor('anemo', models, max_depth=3)
        fn = find_method(ex.prog, 'QuicConfig', 'transport_config')
        qf = struct_fields('crates/anemo/src/config.rs', 'QuicConfig')
        missing = [n for n in NAMES if n not in qf]
        if missing:
            return ob.done([ex], 'inconclusive', f'QuicConfig has no field(s) {missing}: the limits are configured differently', paths=0)
        p0 = Path()
        for i, f_ in enumerate(qf):
            if f_ not in NAMES:         # the other settings are not the subject here: left unset
                p0.pc.append(z3.BitVec(f'qc.{i}.discr', 64) == 0)
        res = ex.run(fn, [Ptr(('H', 'qc', 'QuicConfig'))], p0)

        def val(v):
            if isinstance(v, Const) and re.search(r'VarInt::MAX$', v.text.strip()):
                return z3.BitVecVal(LIM - 1, 64)
            if isinstance(v, z3.ExprRef) and z3.is_bv(v) and v.size() == 64:
                return v
            return None
        n_ok, unknown = 0, None
        for r in res:
            if r.tag != 'return':
                if r.tag in ('panic', 'diverge'):
                    return viol(ob, [ex], 'QuicConfig::transport_config can panic on a configured value', 'transport-limit-panic', path_summary(r), len(res))
                continue
            sets = {}
            for e in r.events:
                if e.kind == 'transport-set':
                    sets.setdefault(e.name, []).append(e)
            dom = [z3.ULT(z3.BitVec(f'qc.{qf.index(n)}.discr', 64), 2) for n in NAMES]
            if not ex.feasible(r.pc + dom):
                continue
            for name in NAMES:
                i = qf.index(name)
                d, x = z3.BitVec(f'qc.{i}.discr', 64), z3.BitVec(f'qc.{i}@Some.0', 64)
                ex.queries += 1
                configured = e2.solve(r.pc + dom + [d != 1], want_model=False)[0] == 'unsat'
                es = sets.get(name, [])
                if not configured:
                    if es and e2.solve(r.pc + dom + [d == 1], want_model=False)[0] == 'unsat':
                        unknown = unknown or f'{name} is set although not configured'
                    continue
                if len(es) != 1:
                    return viol(ob, [ex], f'a configured {name} is applied {len(es)} times to the QUIC transport (expected once)', f'transport-limit-applied:{name}', path_summary(r), len(res))
                v = val(es[0].args[0])
                if v is None:
                    unknown = unknown or f'{name}: applied value {vrepr(es[0].args[0])[:60]} not understood'
                    continue
                want = z3.If(z3.ULT(x, z3.BitVecVal(LIM, 64)), x, z3.BitVecVal(LIM - 1, 64))
                ex.queries += 1
                q, m, _ = e2.solve(r.pc + dom + [v != want])
                if q != 'unsat':
                    cex = m.eval(x, model_completion=True).as_long() if m is not None else None
                    got = m.eval(v, model_completion=True).as_long() if m is not None else None
                    sample = path_summary(r)
                    sample['counterexample'] = {name: cex, 'applied': got, 'expected': min(cex, LIM - 1) if cex is not None else None}
                    return viol(ob, [ex], f'{name} = {cex} is applied to the transport as {got}, not min(n, 2^62-1) = {min(cex, LIM - 1) if cex is not None else "?"}: '
                                'a limit beyond the varint range must saturate ("unlimited"), not collapse', f'transport-limit-value:{name}', sample, len(res))
                n_ok += 1
        if unknown:
            return ob.done([ex], 'inconclusive', unknown, paths=len(res))
        if not n_ok:
            return ob.done([ex], 'inconclusive', 'no path applies a configured limit', paths=len(res))
        ob.done([ex], 'held', '', {'paths': len(res), 'limit_checks': n_ok}, paths=len(res))
    return guarded(report, 'transport_limits_saturate', 'QuicConfig::transport_config: each configured stream/window limit n (all 2^64 values) is applied exactly once as min(n, 2^62-1)',
                   ['QuicConfig::transport_config'], {'values': 'all u64', 'VarInt::try_from': 'exact contract: Ok(n) iff n < 2^62'}, body)


def check(report, tier, only=None):
    report.trusted += ['quinn: idle timeout / keep-alive detect silent loss; close is observed by the remote', 'std RwLock / HashMap contracts', 'z3 5.1']
    report.outside += ['eventual mutuality of the two views and loss detection within the idle timeout (QUIC timers, network)', 'histories of partitions and healing']
    jobs = [kani.KaniJob('root', 'c09_varint_contract', 'quinn VarInt on the real code: try_from(n) Ok(n) iff n < 2^62, MAX = 2^62-1, Default = 0, try_from(n).unwrap_or(MAX) = min(n, 2^62-1) '
                         '(the contract the mirsym obligation transport_limits_saturate assumes)', ['quinn::VarInt::try_from', 'quinn::VarInt::MAX'], {'inputs': 'n: u64 (all 2^64)'})]
    jobs = [j for j in jobs if not only or any(s_ in j.harness for s_ in only)]
    if jobs:
        kani.build_and_run(PROP, ['root'], jobs, report)
    obs = [('disconnect', ob_disconnect), ('remove_transition', C04.ob_remove), ('add_transition', C04.ob_add), ('reason', ob_reason_mapping), ('idle_timeout', ob_transport_config), ('transport_limits', ob_transport_limits),
           ('handler_exit', lambda rep: handler.ob_handler_tail(rep, PROP)), ('connection_end', C12.ob_tail_aborts_tasks),
           # a listed connection always has the handler whose exit delists it (without one a closed connection stays listed for ever)
           ('add_peer_wiring', lambda rep: handler.ob_add_peer(rep, PROP)),
           ('handler_failure', lambda rep: handler.ob_handler_failure_not_ignored(rep, PROP)),
           # an entry leaves the set only through its own handler's exit, a replacement, or an explicit disconnect
           ('removal_entry_points', C04.ob_removal_entry_points), ('lock_bracketing', C04.ob_wrappers)]
    for n, f in obs:
        if only and not any(s in n for s in only):
            continue
        f(report)
    report.extra['mir_sha'] = mirdump.mir_sha('anemo')


def replay(path):
    print(open(path).read())
    return 0
