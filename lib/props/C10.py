"""C10 - inbound admission follows peer affinity and the connection limit (E2: mirsym + z3)."""
import re, z3
from common import *
import e2, mirdump
from e2 import *
from mirsym import models as MD
from props import dial
from props.cmodels import *

PROP = 'C10'


KNOWN_TY = 'HashMap<PeerId, PeerInfo>'
CM = 'crates/anemo/src/network/connection_manager.rs'


def admission_cells():
    """the two lock-guarded tables the admission decision reads, found by the guarded *type* (not by accessor names)"""
    def mk_active(p):
        f = struct_fields(CM, 'ActivePeersInner').by_type(r'^HashMap<PeerId,Connection>$')
        return Sym('active_inner', 'ActivePeersInner').with_ov(('f', f), Sym('conns', 'HashMap<PeerId, connection::Connection>'))
    return [(r'^(\w+::)*HashMap<(\w+::)*PeerId,(\w+::)*PeerInfo>$', 'known_map', lambda p: Sym('known', KNOWN_TY)),
            (r'^(\w+::)*ActivePeersInner$', 'active_inner', mk_active)]


def _admission_paths(ex_holder):
    """symbolically execute handle_incoming_task (the whole async fn body, including whatever helpers / inner futures it
    awaits) from its start state"""
    def m_connecting_poll(ex, p, call, k):
        # schedule: `connecting.await` is Ready(Ok(conn)) | Ready(Err(e)); Pending is explored too
        conn = Sym('conn', 'connection::Connection')
        q = p.clone()
        r = p.clone()
        p.events.append(Event('connecting', 'Ready(Ok)', (conn,)))
        k(p, Agg('Poll', 'Ready', (MD.ok(conn),)))
        q.events.append(Event('connecting', 'Ready(Err)', ()))
        k(q, Agg('Poll', 'Ready', (MD.err(Sym('connect_err', 'anyhow::Error')),)))
        r.events.append(Event('connecting', 'Pending', ()))
        k(r, Agg('Poll', 'Pending', ()))

    def m_limit(ex, p, call, k):
        p.events.append(Event('limit-read', 'max_concurrent_connections', ()))
        k(p, Sym('limit', 'std::option::Option<usize>'))

    def m_handshake(ex, p, call, k):
        p.events.append(Event('ADMIT', 'handshake', (ex.deref(p, call.args[0]),)))     # by value or by reference
        k(p, Sym('handshake_future', 'fut'))

    models = [(r'^<endpoint::Connecting as Future>::poll$', m_connecting_poll),
              (r'Config::max_concurrent_connections$', m_limit),
              (r'(^|::)handshake$', m_handshake)] + CONNECTION_MODELS + lock_models(admission_cells()) + timeout_models()
    ex = e2.executor('anemo', models, max_depth=7)
    ex.explore_pending = True
    ex_holder.append(ex)
    parent = find_method(ex.prog, 'ConnectionManager', 'handle_incoming_task')
    fn = find_closure(ex.prog, parent, [0])
    # the configured limit may be read inside the task (pinned: Config::max_concurrent_connections on the Arc<Config> it was given) or be handed to
    # the task as a value read by the spawner: an `Option<usize>` parameter of the task is that limit
    uv = ex.upvar_types(fn)
    lims = [i for i, t in uv.items() if re.fullmatch(r'(std::option::|core::option::)?Option<usize>', (t or '').strip())]
    cfgs = [i for i, t in uv.items() if re.search(r'\bConfig\b', t or '')]
    ups = None
    if len(lims) == 1 and not cfgs:
        ups = [None] * (max(uv) + 1)
        ups[lims[0]] = Sym('limit', 'std::option::Option<usize>')
    p, args = coroutine_start(ex, fn, ups)
    res = ex.run(fn, args, p)
    return ex, fn, res


def _apps(e, fname, out):
    """all applications of the uninterpreted function `fname` inside a z3 term"""
    if z3.is_app(e):
        if e.decl().name() == fname and e.num_args() == 1:
            out.append(e.arg(0))
        for c in e.children():
            _apps(c, fname, out)
    return out


def ob_admission(report):
    fnname = 'ConnectionManager::handle_incoming_task'

    def body(ob):
        exs = []
        ex, fn, res = _admission_paths(exs)
        en = ex.enums
        HIGH, ALLOWED, NEVER = (en.index('PeerAffinity', v) for v in ('High', 'Allowed', 'Never'))
        if None in (HIGH, ALLOWED, NEVER):
            return ob.done(exs, 'inconclusive', 'PeerAffinity variants not found in source')
        conn_ok = [r for r in res if any(e.kind == 'connecting' and e.name == 'Ready(Ok)' for e in r.events)]
        conn_err = [r for r in res if any(e.kind == 'connecting' and e.name == 'Ready(Err)' for e in r.events)]
        admit = [r for r in conn_ok if any(e.kind == 'ADMIT' for e in r.events)]
        reject = [r for r in conn_ok if not any(e.kind == 'ADMIT' for e in r.events) and r.tag == 'return' and not any(e.kind == 'elapsed' for e in r.events)]
        late = [r for r in conn_ok if not any(e.kind == 'ADMIT' for e in r.events) and r.tag == 'return' and any(e.kind == 'elapsed' for e in r.events)]
        def _real(r):
            # a path that needs a collection to hold >= 2^62 elements (overflow of `len + 1` and the like) does not exist
            lens = [v for c in r.pc for v in e2.z3vars(c) if z3.is_bv(v) and v.size() == 64 and re.match(r'len[<(]', str(v))]
            return not lens or ex.feasible(r.pc + [z3.ULT(v, z3.BitVecVal(1 << 62, 64)) for v in lens])
        other = [r for r in conn_ok if r.tag != 'return' and not poison_panic(r) and _real(r)]
        if not admit or not reject:
            return ob.done(exs, 'inconclusive', f'vacuity: admit paths={len(admit)} reject paths={len(reject)}', paths=len(res))
        if other:
            return ob.done(exs, 'violated', f'path ends with {other[0].tag} (panic/diverge) inside the admission block',
                           sample=path_summary(other[0]), key='admission-panics', paths=len(res))
        if late:
            return ob.done(exs, 'violated', 'the connect timeout elapses after `connecting` completed but before the admission decision (the decision awaits something)',
                           sample=path_summary(late[0]), key='admission-awaits', paths=len(res))
        key = z3.BitVec('pid(conn)', 256)
        has = MD.map_has_initial(Sym('known', KNOWN_TY), key)
        aff = struct_fields('crates/anemo/src/types/mod.rs', 'PeerInfo').index('affinity')
        affd = z3.BitVec(f'known[{key}].{aff}.discr', 64)
        lim = Sym('limit', 'std::option::Option<usize>')
        ld = ex.discriminant(lim, 'isize')
        limv = z3.BitVec('limit@Some.0', 64)
        ln = z3.BitVec('len<conns>', 64)
        dom = [z3.Or(affd == HIGH, affd == ALLOWED, affd == NEVER), z3.ULT(ld, 2)]
        spec = z3.Or(z3.And(has, z3.Or(affd == HIGH, affd == ALLOWED)),
                     z3.And(z3.Not(has), z3.Or(ld == 0, z3.ULT(ln, limv))))
        # every completed-connecting path is classified admit / reject (late / other are refused above) and the executor explores
        # every feasible branch, so  admit => spec  and  reject => not spec  together give  admit <=> spec
        A = z3.Or([r.path.cond() for r in admit])
        Rj = z3.Or([r.path.cond() for r in reject])
        q1, m1, t1 = solve(dom + [A, z3.Not(spec)])
        q2, m2, t2 = solve(dom + [Rj, spec])
        # the admission decision is taken for the connection's own authenticated id, on the admitted connection
        idbad = None
        looked = 0
        for r in conn_ok:
            for c in r.pc:
                for arg in _apps(c, 'has<known>', []):
                    looked += 1
                    qq, mm, _ = solve(r.path.pc + [arg != key])
                    if qq != 'unsat':
                        idbad = f'the known-peers table is consulted under {arg}, not under connection.peer_id()'
            for e in r.events:
                if e.kind == 'ADMIT' and vname(e.args[0]) != 'conn':
                    idbad = f'handshake is applied to {vrepr(e.args[0])}, not to the admitted connection'
        if not looked:
            return ob.done(exs, 'inconclusive', 'the known-peers table (RwLock<HashMap<PeerId, PeerInfo>>) is never consulted on any path', paths=len(res))
        errbad = [r for r in conn_err if any(e.kind == 'ADMIT' for e in r.events) or r.tag != 'return']
        sample = {'paths': len(res), 'admit_paths': len(admit), 'reject_paths': len(reject),
                  'example_admit': path_summary(admit[0]), 'example_reject': path_summary(reject[0]),
                  'spec': 'admit <=> known in {High,Allowed} or (known = None and (limit = None or len < limit))'}
        nq = 2
        if q1 == 'unknown' or q2 == 'unknown':
            return ob.done(exs, 'inconclusive', 'solver unknown', sample, paths=len(res), extra_queries=nq, extra_solver=t1 + t2)
        if q1 == 'sat' or q2 == 'sat':
            m = m1 or m2
            cex = {'known': 'Some' if z3.is_true(m.eval(has, True)) else 'None',
                   'affinity': {HIGH: 'High', ALLOWED: 'Allowed', NEVER: 'Never'}.get(m.eval(affd, True).as_long(), '?'),
                   'limit': ('Some(%d)' % m.eval(limv, True).as_long()) if m.eval(ld, True).as_long() == 1 else 'None',
                   'active_len': m.eval(ln, True).as_long(),
                   'code_admits': z3.is_true(m.eval(A, True)), 'spec_admits': z3.is_true(m.eval(spec, True))}
            sample['counterexample'] = cex
            o = ob.done(exs, 'violated', f'admission decision differs from the specification for {cex}', sample,
                        key=f'admission:{cex["known"]}/{cex["affinity"] if cex["known"] == "Some" else "-"}/'
                            f'{"limited" if cex["limit"] != "None" else "unlimited"}', paths=len(res), extra_queries=nq, extra_solver=t1 + t2)
            o.replay = write_replay(PROP, 'admission', {'obligation': 'admission', 'counterexample': cex, 'function': fn.name})
            return o
        if idbad:
            o = ob.done(exs, 'violated', idbad, sample, key='admission-identity', paths=len(res), extra_queries=nq, extra_solver=t1 + t2)
            o.replay = write_replay(PROP, 'admission-identity', {'detail': idbad})
            return o
        if errbad:
            o = ob.done(exs, 'violated', 'a failed `connecting` is handed to the handshake / does not return', path_summary(errbad[0]),
                        key='admission-connect-err', paths=len(res))
            o.replay = write_replay(PROP, 'admission-connect-err', path_summary(errbad[0]))
            return o
        ob.done(exs, 'held', '', sample, paths=len(res), extra_queries=nq, extra_solver=t1 + t2)
    return guarded(report, 'admission_equiv_spec', 'admit <=> spec and reject <=> not spec for all affinity x limit x len (2^64 each); '
                   'lookup key = connection.peer_id(); failed connecting => no handshake',
                   [fnname], {'loops': 'none (loop-free)', 'inline_depth': 7}, body)


def ob_dials_not_limited(report):
    def body(ob):
        hits = []
        exs = []
        total = 0
        for tname, meth, clo in (('ConnectionManager', 'dial_peer_task', [0]),
                                 ('ConnectionManager', 'handle_connectivity_check', None), ('ConnectionManager', 'dial_peer', None),
                                 ('ConnectionManager', 'handle_connect_request', None)):
            ex = e2.executor('anemo', timeout_models(), max_depth=5)
            exs.append(ex)
            fn = find_method(ex.prog, tname, meth)
            if clo:
                fn = find_closure(ex.prog, fn, clo)
                p, args = coroutine_start(ex, fn)
                res = ex.run(fn, args, p)
            else:
                res = ex.run(fn, [])
            total += len(res)
            for r in res:
                for e in r.events:
                    if isinstance(e.name, str) and 'max_concurrent_connections' in e.name:
                        hits.append((fn.name, repr(e)))
        if hits:
            o = ob.done(exs, 'violated', f'{hits[0][0]} consults max_concurrent_connections: explicit/background dials are limited',
                        {'hits': hits[:4]}, key='dial-limited', paths=total)
            o.replay = write_replay(PROP, 'dial-limited', {'hits': hits[:10]})
            return o
        ob.done(exs, 'held', '', {'functions': 4, 'paths': total}, paths=total)
    return guarded(report, 'dials_never_limited', 'explicit and background dials never read max_concurrent_connections',
                   ['ConnectionManager::dial_peer_task', 'ConnectionManager::handle_connectivity_check', 'ConnectionManager::dial_peer',
                    'ConnectionManager::handle_connect_request'], {'inline_depth': 3, 'loop_unroll': 2}, body)


def ob_known_get(report):
    def body(ob):
        ex = e2.executor('anemo', max_depth=4)
        fn = find_method(ex.prog, 'KnownPeers', 'get')
        key = z3.BitVec('k', 256)
        p = Path()
        p.mem[('H', 'karg', 'PeerId')] = key
        res = ex.run(fn, [Sym('kp', 'KnownPeers').with_ov(('f', 0), Sym('kp.arc', 'Arc<RwLock<HashMap<PeerId, PeerInfo>>>')) and Ptr(('H', 'kp', 'KnownPeers')), Ptr(('H', 'karg', 'PeerId'))], p)
        ok_some = ok_none = False
        bad = None
        for r in res:
            if r.tag != 'return':
                continue
            pcs = ' '.join(str(c) for c in r.pc)
            if isinstance(r.ret, Agg) and r.ret.variant == 'Some':
                ok_some = True
                if 'has<' not in pcs or '(k)' not in pcs or 'Not(has<' in pcs:
                    bad = 'Some returned without the map containing the key'
                if '[k]' not in vname(r.ret.fields[0]):
                    bad = f'value returned is not the map entry of the key: {vrepr(r.ret)}'
            elif isinstance(r.ret, Agg) and r.ret.variant == 'None':
                ok_none = True
                if 'Not(has<' not in pcs:
                    bad = 'None returned although the key is present'
            else:
                bad = f'unexpected return {vrepr(r.ret)}'
        if not (ok_some and ok_none):
            return ob.done([ex], 'inconclusive', 'vacuity: Some/None paths missing', paths=len(res))
        if bad:
            o = ob.done([ex], 'violated', bad, key='known-get', paths=len(res))
            o.replay = write_replay(PROP, 'known-get', {'detail': bad})
            return o
        ob.done([ex], 'held', '', {'paths': len(res)}, paths=len(res))
    return guarded(report, 'known_peers_get_is_map_lookup', 'KnownPeers::get(k) = map.get(k).cloned() under the read lock',
                   ['KnownPeers::get'], {'inline_depth': 4}, body)


def ob_known_insert(report):
    def body(ob):
        ex = e2.executor('anemo', max_depth=4)
        fn = find_method(ex.prog, 'KnownPeers', 'insert')
        pf = struct_fields('crates/anemo/src/types/mod.rs', 'PeerInfo')
        info = struct_sym('info', 'types::PeerInfo', pf, {'peer_id': z3.BitVec('info.peer_id', 256)})
        res = ex.run(fn, [Ptr(('H', 'kp', 'KnownPeers')), info])
        n = 0
        for r in res:
            if r.tag == 'panic':
                continue
            ins = [e for e in r.events if e.kind == 'map']
            if r.tag != 'return' or len(ins) != 1 or ins[0].name != 'insert' or str(ins[0].args[1]) != 'info.peer_id' or vname(ins[0].args[2]) != 'info':
                o = ob.done([ex], 'violated', 'KnownPeers::insert(info) does not store exactly `info` under info.peer_id (affinity/addresses of a re-inserted peer would be stale)',
                            path_summary(r), key='known-insert', paths=len(res))
                o.replay = write_replay(PROP, 'known-insert', path_summary(r))
                return o
            n += 1
        if not n:
            return ob.done([ex], 'inconclusive', 'no normal path', paths=len(res))
        ob.done([ex], 'held', '', {'paths': len(res)}, paths=len(res))
    return guarded(report, 'known_peers_insert_replaces', 'KnownPeers::insert(info): the table maps info.peer_id to exactly `info` afterwards (re-inserting a peer replaces its affinity)',
                   ['KnownPeers::insert'], {'inline_depth': 4}, body)


def ob_incoming_always_admission(report):
    """every incoming connection attempt gets the admission task: nothing is refused before the peer is identified (a pre-TLS shortcut such as
    "we are full anyway" refuses peers whose affinity lets them bypass the limit)"""
    def body(ob):
        def m_spawn(ex_, p, call, k):
            p.events.append(Event('spawn', 'JoinSet::spawn', (call.args[1],)))
            k(p, Sym(f'abort_handle{p.seq("ah")}', 'AbortHandle'))
        ex = e2.executor('anemo', [(r'JoinSet::spawn$', m_spawn)] + CONNECTION_MODELS + lock_models(admission_cells()), max_depth=2)
        fn = find_method(ex.prog, 'ConnectionManager', 'handle_incoming')
        task = find_method(ex.prog, 'ConnectionManager', 'handle_incoming_task')
        res = ex.run(fn, [Ptr(('H', 'cm', 'ConnectionManager'), (), True), Sym('incoming', 'endpoint::Connecting')])
        n = 0
        for r in res:
            if r.tag == 'panic' and poison_panic(r):
                continue
            if r.tag != 'return':
                return ob.done([ex], 'violated', f'handle_incoming can {r.tag}', path_summary(r), key='incoming-abnormal', paths=len(res))
            sp = [e for e in r.events if e.kind == 'spawn']
            ok_ = len(sp) == 1 and derives_from(sp[0].args[0], lambda v: isinstance(v, Sym) and v.name == 'incoming', ex=ex, p=r.path)
            if not ok_:
                o = ob.done([ex], 'violated', f'an incoming connection attempt does not always get the admission task ({len(sp)} tasks spawned on this path): it is dropped before the peer '
                            'is identified, so a High/Allowed peer can be refused by a shortcut that only looks at counts', path_summary(r), key='incoming-not-admitted', paths=len(res))
                o.replay = write_replay(PROP, 'incoming_admission', path_summary(r))
                return o
            n += 1
        if not n:
            return ob.done([ex], 'inconclusive', 'no path', paths=len(res))
        ob.done([ex], 'held', '', {'paths': len(res)}, paths=len(res))
    return guarded(report, 'incoming_always_gets_admission_task', 'ConnectionManager::handle_incoming spawns exactly one task holding the incoming connection attempt on every path (the admission '
                   'decision of admission_equiv_spec is the only place where an inbound connection is refused)', ['ConnectionManager::handle_incoming'], {'inline_depth': 2}, body)


def ob_endpoint_accepts(report):
    """the admission rule can only be applied to connections the endpoint accepts: the QUIC endpoint is always created with its server half, whatever the
    configured limit (with a limit of 0 known High/Allowed peers still get in - so the listener must exist)"""
    def body(ob):
        ex = e2.executor('anemo', [], max_depth=3)
        fn = find_method(ex.prog, 'Endpoint', 'new', file_re=r'anemo/src/endpoint\.rs')
        res = ex.run(fn, [])
        n = 0
        for r in res:
            if r.tag != 'return':
                continue
            mk = [e for e in r.events if e.kind == 'call' and re.search(r'quinn::(endpoint::)?Endpoint::(new|new_with_abstract_socket|server|client)$', str(e.name))]
            okret = isinstance(r.ret, Agg) and r.ret.variant == 'Ok'
            if not mk:
                if okret:
                    return ob.done([ex], 'inconclusive', 'Endpoint::new succeeds without a recognised quinn::Endpoint constructor', paths=len(res))
                continue
            e = mk[0]
            last = str(e.name).rsplit('::', 1)[-1]
            if last == 'server':
                n += 1
                continue
            sc = e.args[1] if last != 'client' and len(e.args) > 1 else None
            some = isinstance(sc, Agg) and sc.variant == 'Some'
            if not some and isinstance(sc, (Sym,)) :
                d = ex.discriminant(sc, 'isize')
                ex.queries += 1
                some = e2.solve(r.pc + [d != z3.BitVecVal(1, d.size())], want_model=False)[0] == 'unsat'
            if not some:
                o = ob.done([ex], 'violated', f'the QUIC endpoint can be created without a server configuration ({last}({vrepr(sc)[:40] if sc is not None else ""})): such a node accepts no inbound '
                            'connection at all, so known High/Allowed peers are refused like everybody else', path_summary(r), key='endpoint-no-server', paths=len(res))
                o.replay = write_replay(PROP, o.name, path_summary(r))
                return o
            n += 1
        if not n:
            return ob.done([ex], 'inconclusive', 'no path creates the quinn endpoint', paths=len(res))
        ob.done([ex], 'held', '', {'paths': len(res), 'constructions': n}, paths=len(res))
    return guarded(report, 'endpoint_always_has_server_half', 'Endpoint::new: on every path the quinn endpoint is created with Some(server config)', ['Endpoint::new', 'EndpointConfig::server_config'],
                   {'inline_depth': 3, 'configuration': 'arbitrary'}, body)


def check(report, tier, only=None):
    report.trusted += ['z3 5.1 (python API)', 'rustc 1.97-nightly MIR dump of the scratch copy of /repo',
                       'contract models: Future::poll of `Connecting` = symbolic Poll<Result<Connection>>; HashMap::{get,len}; RwLock::read returns the guarded value; tracing disabled']
    report.outside += ['truly simultaneous arrivals (excluded by the property)', 'that the dialer observes the failure (QUIC close)',
                       'TLS identity of the connection (C01)']
    report.assumptions += ['the admission code is executed down to std: RwLock::<T>::read/write return a guard on ONE canonical cell per guarded type '
                           '(HashMap<PeerId, PeerInfo> = the known-peers table, ActivePeersInner = the connection map; locks not poisoned); '
                           'HashMap::{get,len,contains_key} fork-based finite-map contract; tokio::time::timeout contract (inner future polled, Elapsed only while it is pending); '
                           'Config::max_concurrent_connections and Connection::peer_id are interface points (public accessors)']
    from props import C03
    # an acknowledged (admitted) connection is always registered: nothing after the admission decision may drop it
    from props import handler as _handler

    def add_peer_wiring(rep):
        return _handler.ob_add_peer(rep, PROP)
    obs = [ob_admission, ob_incoming_always_admission, ob_endpoint_accepts, C03.ob_connecting_result, add_peer_wiring, ob_dials_not_limited, ob_known_get, ob_known_insert, lambda rep: dial.ob_dial_task(rep, PROP)]
    for f in obs:
        if only and not any(s in getattr(f, '__name__', 'dial') for s in only):
            continue
        f(report)
    report.extra['mir_sha'] = mirdump.mir_sha('anemo')
    report.extra['source_tree'] = tree_hash()[:16]


def replay(path):
    print(open(path).read())
    return 0
