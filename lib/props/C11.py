"""C11 - request deadline = min(local default, timeout header), end to end.
E2 (mirsym): header parsing, shorter-of-two selection, poll order/outcomes, wiring of the two
timeout layers in Builder::start; E1 (Kani): the decimal-u64 grammar of str::parse::<u64>."""
import re, z3
from common import *
import e2, mirdump, kani
from e2 import *
from mirsym import models as MD
from mirsym.sym import derives_from

PROP = 'C11'
TM = 'crates/anemo/src/middleware/timeout'


def viol(ob, exs, detail, key, sample, n, **kw):
    o = ob.done(exs, 'violated', detail, sample, key=key, paths=n, **kw)
    o.replay = write_replay(PROP, o.name, {'detail': detail, 'sample': sample})
    return o


# ----------------------------------------------------------------------------- shared models
def m_headers_get(ex, p, call, k):
    """HeaderMap::get(map, key): symbolic presence; the key must be the `timeout` header constant"""
    key = ex.deref(p, call.args[1])
    p.events.append(Event('hdr-get', 'HashMap::get', (key,)))
    q = p.clone()
    present = z3.Bool('hdr_present')
    p.pc.append(present)
    cell = ('H', 'hdr_val', 'String')
    p.mem[cell] = Sym('hdr_text', 'std::string::String')
    k(p, MD.some(Ptr(cell)))
    q.pc.append(z3.Not(present))
    k(q, MD.NONE)


def m_parse(ex, p, call, k):
    s = ex.deref(p, call.args[0])
    p.events.append(Event('parse', 'str::parse::<u64>', (s,)))
    k(p, Sym('parse', 'Result<u64, ParseIntError>'))


def m_from_nanos(ex, p, call, k):
    a = call.args[0]
    k(p, z3.BV2Int(a))


def m_from_millis(ex, p, call, k):
    a = call.args[0]
    k(p, z3.BV2Int(a) * 1000000)


def m_sleep(ex, p, call, k):
    p.events.append(Event('sleep', 'tokio::time::sleep', (call.args[0],)))
    k(p, Sym(f'sleep{p.seq("sleep")}', 'Sleep').with_ov('dur', call.args[0]))


def m_inner_call(ex, p, call, k):
    p.events.append(Event('inner-call', 'Service::call', (ex.deref(p, call.args[0]), call.args[1])))
    k(p, Sym('inner_future', 'F'))


def m_req_headers(ex, p, call, k):
    r = ex.deref(p, call.args[0])
    k(p, Ptr(('H', f'headers({vname(r)})', 'HeaderMap')))


def m_as_ref(ex, p, call, k):
    k(p, call.args[0])


TIMEOUT_MODELS = [(r'HashMap::get$', m_headers_get), (r'str::parse$', m_parse), (r'Duration::from_nanos$', m_from_nanos), (r'Duration::from_millis$', m_from_millis),
                  (r'tokio::time::sleep$|(^|::)time::sleep::sleep$|^sleep$', m_sleep), (r'<S as Service>::call$', m_inner_call),
                  (r'Request::headers$', m_req_headers), (r'as AsRef>::as_ref$|String::as_ref$|String as Deref>::deref$', m_as_ref)]

PARSE_D = z3.BitVec('parse.discr', 64)
PARSE_N = z3.BitVec('parse@Ok.0', 64)
PRESENT = z3.Bool('hdr_present')


def header_duration():
    """(is_some, value in ns) of the header's contribution: present, parses, value n"""
    return z3.And(PRESENT, PARSE_D == 0), z3.BV2Int(PARSE_N)


def ob_try_parse(report):
    def body(ob):
        ex = e2.executor('anemo', TIMEOUT_MODELS, max_depth=3)
        fn = find_fn(ex.prog, r'^try_parse_timeout$')
        t0 = (fn.decl.get(fn.args[0], '') if fn.args else '').strip()
        by_value = re.fullmatch(r"(std::option::|core::option::)?Option<&('\w+ )?(str|String|std::string::String)>", t0) is not None
        if by_value:
            # the caller looks the header up and hands over the raw text (if any): absent | present with an arbitrary text
            p1, p2 = Path(), Path()
            p1.pc.append(z3.Not(PRESENT))
            p2.pc.append(PRESENT)
            cell = ('H', 'hdr_text', 'String')
            p2.mem[cell] = Sym('hdr_text', 'std::string::String')
            res = ex.run(fn, [MD.NONE], p1) + ex.run(fn, [MD.some(Ptr(cell))], p2)
        else:
            res = ex.run(fn, [Ptr(('H', 'headers', 'HeaderMap'))])
        seen = set()
        for r in res:
            if r.tag != 'return':
                return viol(ob, [ex], f'try_parse_timeout can {r.tag}', 'parse-abnormal', path_summary(r), len(res))
            g = [e for e in r.events if e.kind == 'hdr-get']
            if not by_value and (len(g) != 1 or not (isinstance(g[0].args[0], Str) and g[0].args[0].s == 'timeout')):
                return viol(ob, [ex], f'header looked up is {[vrepr(x.args[0]) for x in g]}, not "timeout"', 'parse-key', path_summary(r), len(res))
            ret = r.ret
            pres = implied(ex, r.pc, PRESENT)
            absent = implied(ex, r.pc, z3.Not(PRESENT))
            if absent:
                seen.add('absent')
                ok = isinstance(ret, Agg) and ret.variant == 'Ok' and isinstance(ret.fields[0], Agg) and ret.fields[0].variant == 'None'
                if not ok:
                    return viol(ob, [ex], f'absent header yields {vrepr(ret)}, not Ok(None)', 'parse-absent', path_summary(r), len(res))
                continue
            pe = [e for e in r.events if e.kind == 'parse']
            if len(pe) != 1 or vname(pe[0].args[0]) != 'hdr_text':
                return viol(ob, [ex], 'present header is not parsed as a whole with str::parse::<u64>', 'parse-arg', path_summary(r), len(res))
            if implied(ex, r.pc, PARSE_D == 1):
                seen.add('garbage')
                if not (isinstance(ret, Agg) and ret.variant == 'Err'):
                    return viol(ob, [ex], f'unparsable header yields {vrepr(ret)}, not Err(text)', 'parse-garbage', path_summary(r), len(res))
                continue
            if not implied(ex, r.pc, PARSE_D == 0):
                return viol(ob, [ex], 'path neither parse-ok nor parse-err', 'parse-split', path_summary(r), len(res))
            # parsed: must be Ok(Some(from_nanos(n))) for EVERY n (0 included)
            okv = (isinstance(ret, Agg) and ret.variant == 'Ok' and isinstance(ret.fields[0], Agg) and ret.fields[0].variant == 'Some'
                   and isinstance(ret.fields[0].fields[0], z3.ExprRef))
            if not okv:
                q, m, _ = e2.solve(r.pc)
                n = m.eval(PARSE_N, True).as_long() if m is not None else '?'
                return viol(ob, [ex], f'header "{n}" (a valid u64) yields {vrepr(ret)}, not Some({n} ns): the remote deadline is dropped', f'parse-value-dropped', path_summary(r), len(res))
            if e2.solve(r.pc + [ret.fields[0].fields[0] != z3.BV2Int(PARSE_N)], want_model=False)[0] != 'unsat':
                return viol(ob, [ex], 'parsed header value is not converted with Duration::from_nanos(value)', 'parse-unit', path_summary(r), len(res))
            seen.add('value')
        # completeness over n: the union of `value` paths must cover all n
        cover = z3.Or([r.path.cond() for r in res if implied(ex, r.pc, z3.And(PRESENT, PARSE_D == 0))] or [z3.BoolVal(False)])
        if e2.solve([PRESENT, PARSE_D == 0, z3.Not(cover)], want_model=False)[0] != 'unsat':
            return ob.done([ex], 'inconclusive', 'value paths do not cover all u64', paths=len(res))
        if seen != {'absent', 'garbage', 'value'}:
            return ob.done([ex], 'inconclusive', f'vacuity: {seen}', paths=len(res))
        ob.done([ex], 'held', '', {'paths': len(res), 'cases': sorted(seen)}, paths=len(res))
    return guarded(report, 'try_parse_timeout_table', 'try_parse_timeout: absent -> Ok(None); unparsable -> Err; any u64 n (0 and u64::MAX included) -> Ok(Some(n ns)); key = "timeout"',
                   ['try_parse_timeout'], {'str::parse::<u64>': 'uninterpreted Result<u64> of the text (grammar decided by Kani c11_parse_u64_*)', 'n': 'all 2^64'}, body)


def ob_duration_header(report):
    """duration_to_timeout: the header a caller sends for a deadline d is min(d in ns, u64::MAX) in decimal"""
    def body(ob):
        nanos = z3.BitVec('nanos', 128)

        def m_as_nanos(ex, p, call, k):
            k(p, nanos)

        def m_to_string(ex, p, call, k):
            v = ex.deref(p, call.args[0]) if isinstance(call.args[0], Ptr) else call.args[0]
            p.events.append(Event('rendered', call.short, (v,)))
            k(p, Sym('header_text', 'String'))
        ex = e2.executor('anemo', [(r'Duration::as_nanos$', m_as_nanos), (r'as ToString>::to_string$', m_to_string)], max_depth=2)
        fn = find_fn(ex.prog, r'(^|::)duration_to_timeout$')
        res = ex.run(fn, [Sym('d', 'std::time::Duration')])
        n = 0
        for r in res:
            if r.tag != 'return':
                return viol(ob, [ex], f'duration_to_timeout can {r.tag}', 'header-abnormal', path_summary(r), len(res))
            rd = [e for e in r.events if e.kind == 'rendered']
            if len(rd) != 1 or not (isinstance(rd[0].args[0], z3.ExprRef) and z3.is_bv(rd[0].args[0]) and rd[0].args[0].size() == 64) or vname(r.ret) != 'header_text':
                return ob.done([ex], 'inconclusive', f'the header text is not the decimal rendering of one u64: {[vrepr(e.args[0]) for e in rd]}', paths=len(res))
            v = rd[0].args[0]
            mx = z3.BitVecVal(2**64 - 1, 128)
            want = z3.If(z3.ULE(nanos, mx), z3.Extract(63, 0, nanos), z3.BitVecVal(2**64 - 1, 64))
            dmax = z3.BitVecVal((2**64 - 1) * 10**9 + 999_999_999, 128)        # Duration::MAX in ns
            q, m, _ = e2.solve(r.pc + [z3.ULE(nanos, dmax), v != want])
            ex.queries += 1
            if q != 'unsat':
                cex = {'duration_ns': str(m.eval(nanos, True)), 'header_value': str(m.eval(v, True))} if m is not None else {}
                o = viol(ob, [ex], f'the timeout header for a deadline of {cex.get("duration_ns")} ns is {cex.get("header_value")}, not min(ns, u64::MAX): a very long deadline wraps to a short one',
                         'header-saturation', {'counterexample': cex, **path_summary(r)}, len(res))
                if cex:
                    kani.confirm_natively(o, PROP, 'timeout', 'verif_replay_c11_timeout_header', {'VERIF_CEX_NANOS': cex['duration_ns']}, 'duration')
                return o
            n += 1
        if not n:
            return ob.done([ex], 'inconclusive', 'no path', paths=len(res))
        ob.done([ex], 'held', '', {'paths': len(res)}, paths=len(res))
    return guarded(report, 'timeout_header_value', 'duration_to_timeout(d) renders min(d.as_nanos(), u64::MAX) for every Duration (128-bit nanoseconds)', ['duration_to_timeout'],
                   {'nanos': 'all 2^128'}, body)


def ob_selection(report, side):
    def body(ob):
        ex = e2.executor('anemo', TIMEOUT_MODELS, max_depth=4)
        fn = find_method(ex.prog, 'Timeout', 'call', trait='Service', file_re=f'timeout/{side}\\.rs')
        tf = struct_fields(f'{TM}/{side}.rs', 'Timeout')
        dflt = Sym('default', 'std::option::Option<std::time::Duration>')
        svc = struct_sym('svc', 'Timeout<S>', tf, {'default_timeout': dflt, 'inner': Sym('inner', 'S')})
        p = Path()
        p.mem[('H', 'svc', 'Timeout')] = svc
        req = Sym('req', 'Request')
        res = ex.run(fn, [Ptr(('H', 'svc', 'Timeout'), (), True), req], p)
        dd = z3.BitVec('default.discr', 64)
        dv = z3.Int('default@Some.0')
        hs, hv = header_duration()
        want_some = z3.Or(hs, dd == 1)
        want_val = z3.If(z3.And(hs, dd == 1), z3.If(hv <= dv, hv, dv), z3.If(hs, hv, dv))
        n = 0
        for r in res:
            if r.tag != 'return':
                return viol(ob, [ex], f'{side} Timeout::call can {r.tag}', f'{side}-call-abnormal', path_summary(r), len(res))
            dom = [z3.ULT(dd, 2), z3.ULT(PARSE_D, 2), dv >= 0]
            if not ex.feasible(r.pc + dom):
                continue
            sl = [e for e in r.events if e.kind == 'sleep']
            ic = [e for e in r.events if e.kind == 'inner-call']
            if len(ic) != 1 or vname(ic[0].args[0]) != 'inner' or vname(ic[0].args[1]) != 'req':
                return viol(ob, [ex], f'{side}: the wrapped service is not called exactly once with the original request', f'{side}-inner-call', path_summary(r), len(res))
            # the request handed on is the request received: the middleware only *reads* it (delivery integrity, C02)
            muts = [e for e in r.events if e.kind == 'call' and re.search(r'Request::(headers_mut|extensions_mut|route_mut|body_mut|version_mut|map|with_\w+)$|(HashMap|HeaderMap)::(insert|remove|clear|extend|entry|retain|drain)$', str(e.name))]
            muts += [e for e in r.events if e.kind == 'map' and e.name in ('insert', 'remove') and str(e.args[0].s).startswith('req')]
            muts += [e for e in r.events if e.kind in ('call', 'enter') and re.search(r'Request::set_\w+$', str(e.name))]
            if muts:
                return viol(ob, [ex], f'{side}: the timeout middleware modifies the request it passes on ({muts[0].name}): the handler would see headers/extensions the caller never sent',
                            f'{side}-request-modified', path_summary(r), len(res))
            if len(sl) > 1:
                return viol(ob, [ex], f'{side}: more than one deadline armed', f'{side}-multi-sleep', path_summary(r), len(res))
            if not sl:
                q, m, _ = e2.solve(r.pc + dom + [want_some])
                ex.queries += 1
                if q != 'unsat':
                    cex = _cex(m, dd, dv)
                    return viol(ob, [ex], f'{side}: no deadline is armed although one applies: {cex}', f'{side}-deadline-missing:' + _cls(cex), {'counterexample': cex, **path_summary(r)}, len(res))
            else:
                d = sl[0].args[0]
                if not isinstance(d, z3.ExprRef):
                    return viol(ob, [ex], f'{side}: sleep argument is {vrepr(d)}', f'{side}-sleep-arg', path_summary(r), len(res))
                q, m, _ = e2.solve(r.pc + dom + [z3.Not(z3.And(want_some, d == want_val))])
                ex.queries += 1
                if q != 'unsat':
                    cex = _cex(m, dd, dv)
                    cex['armed_ns'] = str(m.eval(d, True))
                    return viol(ob, [ex], f'{side}: deadline armed is not min(header, default): {cex}', f'{side}-deadline-wrong:' + _cls(cex), {'counterexample': cex, **path_summary(r)}, len(res))
                # the future returned carries that sleep
            n += 1
        if n < 4:
            return ob.done([ex], 'inconclusive', f'vacuity: only {n} feasible paths', paths=len(res))
        ob.done([ex], 'held', '', {'paths': len(res), 'feasible': n, 'spec': 'deadline = min?(parse-ok(header) ns, default)'}, paths=len(res))
    return guarded(report, f'{side}_deadline_selection', f'{side} Timeout::call: the duration given to tokio::time::sleep is exactly min(header, default) (either may be absent; '
                   'unparsable header = absent); no sleep iff both absent; inner service called once with the request', [f'{side}::Timeout::call', 'try_parse_timeout'],
                   {'header': 'absent | unparsable | any u64 ns', 'default': 'None | any Duration', 'inline_depth': 4}, body)


def _cex(m, dd, dv):
    if m is None:
        return {}
    pres = z3.is_true(m.eval(PRESENT, True))
    pok = m.eval(PARSE_D, True).as_long() == 0
    return {'header': ('absent' if not pres else ('unparsable' if not pok else f'{m.eval(PARSE_N, True).as_long()} ns')),
            'default': (f'{m.eval(dv, True)} ns' if m.eval(dd, True).as_long() == 1 else 'None')}


def _cls(cex):
    h = cex.get('header', '?')
    h = 'value' if h.endswith(' ns') else h
    return f'{h}/{"default" if cex.get("default") != "None" else "nodefault"}'


def ob_poll(report, side):
    def body(ob):
        def m_poll_inner(ex, p, call, k):
            fut = ex.deref(p, call.args[0])
            nm = vname(fut)
            kind = 'sleep' if re.search(r'Sleep as Future', call.short) or 'sleep' in nm.lower() else 'inner'
            q = p.clone()
            p.events.append(Event('polled', kind, (), 'ready'))
            k(p, Agg('Poll', 'Ready', (Sym(f'{kind}_output', ''),)) if kind == 'inner' else Agg('Poll', 'Ready', (UNIT,)))
            q.events.append(Event('polled', kind, (), 'pending'))
            k(q, Agg('Poll', 'Pending', ()))
        ex = e2.executor('anemo', [(r' as Future>::poll$', m_poll_inner)], max_depth=4)
        fn = find_method(ex.prog, 'ResponseFuture', 'poll', trait='Future', file_re=f'timeout/{side}\\.rs')
        ff = struct_fields(f'{TM}/{side}.rs', 'ResponseFuture')
        seen = set()
        total = 0
        for has_sleep in (True, False):
            fut = struct_sym('rf', 'ResponseFuture<F>', ff, {'inner': Sym('inner_future', 'F'),
                                                           'sleep': MD.some(Sym('the_sleep', 'Sleep')) if has_sleep else MD.NONE})
            p = Path()
            p.mem[('H', 'rf', 'ResponseFuture')] = fut
            res = ex.run(fn, [Ptr(('H', 'rf', 'ResponseFuture'), (), True), Sym('cx', 'Context')], p)
            total += len(res)
            for r in res:
                if r.tag != 'return':
                    return viol(ob, [ex], f'{side} ResponseFuture::poll can {r.tag}', f'{side}-poll-abnormal', path_summary(r), total)
                pl = [(e.name, e.ret) for e in r.events if e.kind == 'polled']
                if not pl or pl[0][0] != 'inner':
                    return viol(ob, [ex], f'{side}: the handler future is not polled first ({pl})', f'{side}-poll-order', path_summary(r), total)
                ret = r.ret
                if pl[0][1] == 'ready':
                    seen.add('inner-ready')
                    if not (isinstance(ret, Agg) and ret.variant == 'Ready' and _contains(ret, 'inner_output')):
                        return viol(ob, [ex], f'{side}: a finished handler is not answered with its own result: {vrepr(ret)}', f'{side}-poll-inner-ready', path_summary(r), total)
                    continue
                if not has_sleep:
                    seen.add('no-deadline')
                    if len(pl) != 1 or not (isinstance(ret, Agg) and ret.variant == 'Pending'):
                        return viol(ob, [ex], f'{side}: without a deadline a pending handler must stay pending, got {vrepr(ret)}', f'{side}-poll-nodeadline', path_summary(r), total)
                    continue
                if len(pl) != 2 or pl[1][0] != 'sleep':
                    return viol(ob, [ex], f'{side}: the deadline is not checked after a pending handler ({pl})', f'{side}-poll-sleep-unchecked', path_summary(r), total)
                if pl[1][1] == 'pending':
                    seen.add('both-pending')
                    if not (isinstance(ret, Agg) and ret.variant == 'Pending'):
                        return viol(ob, [ex], f'{side}: handler and deadline pending but poll returns {vrepr(ret)}', f'{side}-poll-pending', path_summary(r), total)
                else:
                    seen.add('deadline')
                    if side == 'inbound':
                        okr = False
                        if isinstance(ret, Agg) and ret.variant == 'Ready' and isinstance(ret.fields[0], Agg) and ret.fields[0].variant == 'Ok':
                            resp = ret.fields[0].fields[0]
                            try:
                                rf_ = struct_fields('crates/anemo/src/types/response.rs', 'Response')
                                hf_ = struct_fields('crates/anemo/src/types/response.rs', 'ResponseHeader')
                                head = ex.project(resp, ('field', rf_.index('head'), ''))
                                st = ex.project(head, ('field', hf_.index('status'), ''))
                                okr = isinstance(st, Agg) and st.variant == 'RequestTimeout'
                            except Exception:
                                okr = False
                        if not okr:
                            return viol(ob, [ex], f'inbound: expired deadline does not answer RequestTimeout: {vrepr(ret)[:200]}', 'inbound-poll-timeout-status', path_summary(r), total)
                    else:
                        okr = isinstance(ret, Agg) and ret.variant == 'Ready' and isinstance(ret.fields[0], Agg) and ret.fields[0].variant == 'Err'
                        if not okr or not any(e.kind in ('call', 'enter') and 'TimeoutExpired' in vrepr(e) or 'TimeoutExpired' in str(e.name) for e in r.events) and 'TimeoutExpired' not in vrepr(ret):
                            return viol(ob, [ex], f'outbound: expired deadline does not return the timeout error: {vrepr(ret)[:200]}', 'outbound-poll-timeout-error', path_summary(r), total)
        if seen != {'inner-ready', 'no-deadline', 'both-pending', 'deadline'}:
            return ob.done([ex], 'inconclusive', f'vacuity: {seen}', paths=total)
        ob.done([ex], 'held', '', {'cases': sorted(seen), 'paths': total}, paths=total)
    return guarded(report, f'{side}_poll_outcomes', f'{side} ResponseFuture::poll: handler polled first; Ready => its result; else deadline Ready => '
                   + ('RequestTimeout response' if side == 'inbound' else 'Err(TimeoutExpired)') + '; else Pending; no deadline => never times out',
                   [f'{side}::ResponseFuture::poll'], {'poll outcomes': 'symbolic (both futures, both outcomes)'}, body)


def _contains(v, name, depth=0):
    if depth > 8:
        return False
    if isinstance(v, Sym):
        return name in v.name or any(_contains(x, name, depth + 1) for _, x in v.ov if not isinstance(x, str))
    if isinstance(v, Agg):
        return any(_contains(x, name, depth + 1) for x in v.fields)
    return False


def ob_config_accessors(report):
    def body(ob):
        ex = e2.executor('anemo', [(r'Duration::from_millis$', m_from_millis)], max_depth=3)
        cf = struct_fields('crates/anemo/src/config.rs', 'Config')
        n = 0
        for meth, fld in (('inbound_request_timeout', 'inbound_request_timeout_ms'), ('outbound_request_timeout', 'outbound_request_timeout_ms')):
            fn = find_method(ex.prog, 'Config', meth)
            res = ex.run(fn, [Ptr(('H', 'cfg', 'config::Config'))])
            i = cf.index(fld)
            d = z3.BitVec(f'cfg.{i}.discr', 64)
            v = z3.BitVec(f'cfg.{i}@Some.0', 64)
            for r in res:
                n += 1
                if r.tag != 'return' or not isinstance(r.ret, Agg):
                    return viol(ob, [ex], f'Config::{meth} returns {vrepr(r.ret)}', f'cfg-{meth}', path_summary(r), n)
                if r.ret.variant == 'None':
                    okc = implied(ex, r.pc + [z3.ULT(d, 2)], d == 0)
                else:
                    x = r.ret.fields[0]
                    okc = isinstance(x, z3.ExprRef) and implied(ex, r.pc + [z3.ULT(d, 2)], z3.And(d == 1, x == z3.BV2Int(v) * 1000000))
                if not okc:
                    return viol(ob, [ex], f'Config::{meth} is not `{fld}.map(Duration::from_millis)`', f'cfg-{meth}', path_summary(r), n)
        ob.done([ex], 'held', '', {'paths': n}, paths=n)
    return guarded(report, 'config_timeout_accessors', 'Config::{inbound,outbound}_request_timeout = the configured milliseconds as a Duration, None when unset',
                   ['Config::inbound_request_timeout', 'Config::outbound_request_timeout'], {}, body)


def ob_wiring(report):
    def body(ob):
        def m_cfg(ex, p, call, k):
            k(p, Sym('CFG_' + call.short.split('::')[-1], 'Option<Duration>'))
        ex = e2.executor('anemo', [(r'Config::(inbound|outbound)_request_timeout$', m_cfg)], max_depth=1, unroll=1, fixed_bounds=True)
        e2.require_methods(ex.prog, ('Config', 'inbound_request_timeout'), ('Config', 'outbound_request_timeout'))
        ex.path_limit = 20000
        fn = find_method(ex.prog, 'Builder', 'start')
        bf = struct_fields('crates/anemo/src/network/mod.rs', 'Builder')
        res = ex.run(fn, [])
        oks = [r for r in res if r.tag == 'return' and isinstance(r.ret, Agg) and r.ret.variant == 'Ok']
        if not oks:
            return ob.done([ex], 'inconclusive', 'no successful path through Builder::start', paths=len(res))

        def layer_pred(side):
            def pred(v):
                if isinstance(v, Agg) and v.name == 'TimeoutLayer' and v.fields and any(
                        derives_from(f_, lambda x: isinstance(x, Sym) and x.name == f'CFG_{side}_request_timeout') for f_ in v.fields):
                    return True         # the configured value itself, or a private representation computed from it
                if isinstance(v, Sym):
                    fr = v.get_ov('from')
                    if fr is not None and re.search(side + r'::TimeoutLayer::new$', fr[0]) and fr[1] and vname(fr[1][0]) == f'CFG_{side}_request_timeout':
                        return True
                return False
            return pred
        is_out_layer = layer_pred('outbound')
        user_seen = set()
        nf = struct_fields('crates/anemo/src/network/mod.rs', 'NetworkInner')
        is_in_layer = layer_pred('inbound')
        cache = {}
        exs = [ex]
        n_closure_paths = 0
        for r in oks:
            cy = [e for e in r.events if e.kind == 'call' and e.name.endswith('new_cyclic')]
            if len(cy) != 1:
                return viol(ob, exs, 'NetworkInner is not built through Arc::new_cyclic exactly once', 'wiring-cyclic', path_summary(r), len(res))
            clo = cy[0].args[0]
            caps = [v for kk, v in clo.ov if isinstance(kk, tuple) and kk[0] == 'f'] if isinstance(clo, Sym) else []
            sig = '|'.join(vname(x) for x in caps)
            if sig not in cache:
                if ex.closure_fn(clo) is None:
                    return ob.done(exs, 'inconclusive', 'new_cyclic closure body not found', paths=len(res))
                ex2 = e2.executor('anemo', [(r'Config::(inbound|outbound)_request_timeout$', m_cfg)], max_depth=1, unroll=1, fixed_bounds=True)
                exs.append(ex2)
                outs = []
                p = Path()
                p.mem = dict(r.path.mem)
                call = Call('new_cyclic-closure', [], '', None, fn, 0, None)
                ex2.results = []
                ex2.call_closure(p, clo, [Ptr(('H', 'weak', 'Weak'))], call, lambda q, ret: outs.append((q, ret)))
                cache[sig] = (ex2, outs)
                n_closure_paths += len(outs)
            ex2, outs = cache[sig]
            n_ok = 0
            for q, ret in outs:
                rr = Result(q, ret, 'return')
                cm = [e for e in q.events if e.kind == 'call' and e.name.endswith('ConnectionManager::new')]
                if len(cm) != 1:
                    return viol(ob, exs, 'ConnectionManager::new is not called exactly once', 'wiring-cm', path_summary(rr), len(res))
                svc = cm[0].args[4]
                if not derives_from(svc, is_in_layer, ex=ex2, p=q):
                    return viol(ob, exs, 'the service handed to the connection manager is not wrapped in TimeoutLayer(config.inbound_request_timeout())',
                                'wiring-inbound-timeout-missing', path_summary(rr), len(res))
                if isinstance(ret, Agg) and ret.name == 'NetworkInner':
                    n_ok += 1
                    ol = ret.fields[nf.index('outbound_request_layer')]
                    if not derives_from(ol, is_out_layer, ex=ex2, p=q):
                        return viol(ob, exs, 'the outbound request layer stored in the network does not contain TimeoutLayer(config.outbound_request_timeout()): '
                                    'the outbound default and the timeout header are not enforced at the caller (path: '
                                    + ('user layer configured' if any('discr == 1' in str(z3.simplify(c)) for c in r.pc) else 'no user layer') + ')',
                                    'wiring-outbound-timeout-missing', path_summary(r), len(res))
                    user_seen.add(derives_from(ol, lambda v: isinstance(v, Sym) and v.name == f'in_1.{bf.index("outbound_request_layer")}@Some.0', ex=ex2, p=q))
            if not n_ok:
                return ob.done(exs, 'inconclusive', 'NetworkInner construction not observed', paths=len(res))
        if user_seen != {True, False}:
            return ob.done(exs, 'inconclusive', f'vacuity: user layer cases {user_seen}', paths=len(res))
        ob.done(exs, 'held', '', {'start_paths': len(res), 'ok_paths': len(oks), 'distinct_captures': len(cache), 'closure_paths': n_closure_paths}, paths=len(res) + n_closure_paths)
    return guarded(report, 'timeout_layers_wired', 'Builder::start: the outbound layer stored in the network always contains TimeoutLayer(config.outbound_request_timeout()) '
                   '(with or without a user layer); the service given to the connection manager is wrapped in TimeoutLayer(config.inbound_request_timeout())',
                   ['Builder::start', 'Builder::start::{closure}'], {'inline_depth': 1, 'loop_unroll': 1}, body)


def ob_peer_uses_layer(report):
    def body(ob):
        ex = e2.executor('anemo', [], max_depth=1)
        fn = find_method(ex.prog, 'Peer', 'call', trait='Service')
        pf = struct_fields('crates/anemo/src/network/peer.rs', 'Peer')
        res = ex.run(fn, [])
        n = 0
        for r in res:
            if r.tag != 'return':
                continue
            ly = [e for e in r.events if e.kind == 'call' and re.search(r'as Layer>::layer$', e.name)]
            cl = [e for e in r.events if e.kind == 'call' and re.search(r'as Service>::call$', e.name)]
            if len(ly) != 1 or f'in_1.*.{pf.index("outbound_request_layer")}' not in vname(ly[0].args[0]):
                return viol(ob, [ex], 'Peer::call does not wrap the RPC in the network\'s outbound request layer', 'peer-layer', path_summary(r), len(res))
            if len(cl) != 1 or vname(cl[0].args[0]).find(vname(ly[0].ret)) < 0 and not derives_from(ex.deref(r.path, cl[0].args[0]), lambda v: isinstance(v, Sym) and v.name == vname(ly[0].ret)):
                return viol(ob, [ex], 'Peer::call does not send the request through the layered service', 'peer-layer-call', path_summary(r), len(res))
            # what the caller gets is the layered service's own outcome, untouched
            fut = cl[0].ret
            rv = r.ret
            if vname(rv) != vname(fut):
                clo = [None]

                def grab(v):
                    if clo[0] is None and isinstance(v, Sym) and v.get_ov('head') is not None and ex.closure_fn(v) is not None:
                        clo[0] = v
                    return False
                derives_from(rv, grab, ex=ex, p=r.path)
                if clo[0] is None:
                    return viol(ob, [ex], f'Peer::call returns {vrepr(rv)[:80]}, not the future of the layered service', 'peer-layer-result', path_summary(r), len(res))
                body_fn = ex.closure_fn(clo[0])
                q = Path()
                q.mem = dict(r.path.mem)
                cell = ('H', 'wrap.cell', '')
                q.mem[cell] = clo[0]
                ex.explore_pending = False
                outs = ex.run(body_fn, [Ptr(cell, (), True), Sym('cx', 'Context')], q)
                for o_ in outs:
                    lvl = [e for e in o_.events if e.kind == 'close' or (e.kind == 'call' and re.search(r'Connection::close$|ActivePeers::remove(_with_stable_id)?$|(^|::)disconnect$', str(e.name)))]
                    if lvl:
                        return viol(ob, [ex], f'Peer::call reacts to the outcome of one RPC with a connection-level operation ({str(lvl[0].name)[:60]}): an RPC that merely timed out or failed '
                                    'takes the sibling RPCs on that connection down with it', 'peer-layer-closes-connection', path_summary(o_), len(res) + len(outs))
                    if o_.tag != 'return' or not (isinstance(o_.ret, Agg) and o_.ret.variant == 'Ready'):
                        continue
                    val = o_.ret.fields[0]
                    if not re.fullmatch(r'poll\(' + re.escape(vname(fut)) + r'\)#\d+', vname(val)):
                        return viol(ob, [ex], f'Peer::call post-processes the outcome of the RPC ({vrepr(val)[:100]}): the caller can be handed a response or an error that neither the remote '
                                    'handler nor the layered service produced (e.g. a local timeout turned into a successful response)', 'peer-layer-result', path_summary(o_), len(res) + len(outs))
            n += 1
        if not n:
            return ob.done([ex], 'inconclusive', 'no path', paths=len(res))
        ob.done([ex], 'held', '', {'paths': len(res)}, paths=len(res))
    return guarded(report, 'peer_call_through_outbound_layer', 'every RPC made through a Peer goes through the outbound request layer stored in the network',
                   ['<Peer as Service>::call'], {'inline_depth': 1}, body)


def kani_jobs(tier):
    F = ['core::str::<impl str>::parse::<u64>']
    jobs = [kani.KaniJob('root', 'c11_parse_u64_len_0_to_4', 'str::parse::<u64> = decimal grammar (+?[0-9]+, no overflow) on all ASCII strings of length 0..4', F, {'len': '0..=4', 'unwind': 8})]
    if tier == 'thorough':
        jobs.append(kani.KaniJob('root', 'c11_parse_u64_len_5_to_8', 'same, all ASCII strings of length 5..8', F, {'len': '5..=8', 'unwind': 12}, timeout_s=1500))
        jobs.append(kani.KaniJob('root', 'c11_parse_u64_overflow_boundary', 'same at the overflow boundary: the 10^4 strings "1844674407370955dddd" around u64::MAX = 18446744073709551615 '
                                 '(fully symbolic 20-digit strings do not finish in 25 min: outside the claim)', F, {'len': 20, 'symbolic': 'last 4 digits', 'unwind': 24}, timeout_s=1500))
    return jobs


def check(report, tier, only=None):
    report.trusted += ['z3 5.1', 'HeaderMap::get as symbolic presence', 'tokio::time::sleep fires at its deadline', 'Kani for the parse grammar']
    report.outside += ['end-to-end latency; that tokio timers fire on time', 'duration_to_timeout formatting (integer formatting loop)']
    jobs = [j for j in kani_jobs(tier) if not only or any(s in j.harness for s in only)]
    if jobs:
        kani.build_and_run(PROP, ['root'], jobs, report)
    obs = [('try_parse', ob_try_parse), ('timeout_header', ob_duration_header), ('inbound_deadline', lambda rep: ob_selection(rep, 'inbound')), ('outbound_deadline', lambda rep: ob_selection(rep, 'outbound')),
           ('inbound_poll', lambda rep: ob_poll(rep, 'inbound')), ('outbound_poll', lambda rep: ob_poll(rep, 'outbound')),
           ('config', ob_config_accessors), ('wired', ob_wiring), ('peer_call', ob_peer_uses_layer),
           # the RequestTimeout status produced by the inbound layer reaches the caller only if the stream handler writes what the service returned
           ('timeout_reply_written', lambda rep: __import__('props.rpcpath', fromlist=['x']).ob_do_handle(rep, PROP)),
           ('typed_client', ob_typed_client_forwards_request), ('rpc_entry_points', ob_rpc_only_through_layer)]
    for n, f in obs:
        if only and not any(s in n for s in only):
            continue
        f(report)
    report.extra['mir_sha'] = mirdump.mir_sha('anemo')


def implied(ex, pc, c):
    ex.queries += 1
    return e2.solve(list(pc) + [z3.Not(c)], want_model=False)[0] == 'unsat'


def replay(path):
    print(open(path).read())
    return 0


def ob_rpc_only_through_layer(report, prop=None):
    """the outbound default and the timeout header are enforced by a layer wrapped around `Peer`'s service: they apply to an RPC only if the RPC is issued through
    `<Peer as Service>::call`.  Every crate-local caller of the raw stream-level RPC (`Peer::do_rpc`) must therefore be the future `Service::call` builds - a
    convenience entry point (`Peer::rpc`, `Network::rpc`) that calls it directly skips the whole outbound stack, the deadline included."""
    prop = prop or PROP

    def body(ob):
        ex = e2.executor('anemo', [], max_depth=1)
        prog = ex.prog
        target = find_method(prog, 'Peer', 'do_rpc')
        svc_call = find_method(prog, 'Peer', 'call', trait='Service')
        # call graph of the crate (a closure / async block counts as called by the function containing it)
        edges = {}          # callee raw -> set(caller raw)
        for raw, fs in prog.fns.items():
            for f in fs:
                if not f.blocks:
                    continue
                m = re.match(r'^(.*)::\{closure#\d+\}$', raw)
                if m:
                    edges.setdefault(raw, set()).add(m.group(1))
                for blk in f.blocks.values():
                    for st, _ in blk:
                        if st and st[0] == 'call' and isinstance(st[2], str):
                            g = ex.resolve(st[2])
                            if g is not None and g.blocks:
                                edges.setdefault(g.raw, set()).add(raw)
        if not edges.get(target.raw):
            return ob.done([ex], 'inconclusive', 'Peer::do_rpc has no caller in the crate', paths=0)
        in_svc = lambda r: r == svc_call.raw or r.startswith(svc_call.raw + '::{closure#')
        # functions from which do_rpc is reachable WITHOUT passing through <Peer as Service>::call
        reach, todo, via = {target.raw}, [target.raw], {}
        while todo:
            x = todo.pop()
            for c in edges.get(x, ()):
                if c not in reach and not in_svc(c):
                    reach.add(c)
                    via[c] = x
                    todo.append(c)
        entries = [r for r in reach if r != target.raw and not (edges.get(r, set()) - {r})]      # nothing in the crate calls them: API entry points
        names = lambda r: prog.fns[r][0].name
        if entries:
            e0 = sorted(entries)[0]
            chain, x = [names(e0)], e0
            while x in via:
                x = via[x]
                chain.append(names(x))
            o = ob.done([ex], 'violated', f'{chain[0]} reaches Peer::do_rpc without going through <Peer as Service>::call ({" -> ".join(chain)}): RPCs issued that way bypass the outbound request layer - '
                        'neither the configured outbound timeout nor the request\'s timeout header bounds them at the caller', {'chain': chain, 'entry_points': sorted(names(e) for e in entries)},
                        key='rpc-bypasses-layer', paths=len(reach))
            o.replay = write_replay(prop, o.name, {'chain': chain})
            return o
        ob.done([ex], 'held', '', {'direct_callers': sorted(names(c) for c in edges.get(target.raw, ())), 'functions_reaching_do_rpc_outside_service_call': sorted(names(r) for r in reach if r != target.raw)},
                paths=len(reach))
    return guarded(report, 'rpc_only_through_outbound_layer', 'call graph (MIR): every chain of crate-local calls from an API entry point to Peer::do_rpc passes through <Peer as Service>::call (which wraps it in the outbound layer, '
                   'checked by peer_call_through_outbound_layer)', ['Peer::do_rpc', '<Peer as Service>::call', 'every crate function (call sites)'], {'call graph': 'static calls as the executor resolves them'}, body)


def ob_typed_client_forwards_request(report, prop=None):
    """rpc::client::Rpc::unary (behind every generated client): the request handed to the transport is the caller's request - its route, its headers (the
    `timeout` header among them) and its extensions - with only the content type added and the body encoded"""
    prop = prop or PROP

    def body(ob):
        ex = e2.executor('anemo', [], max_depth=3)
        parent = [f for f in find_fns(ex.prog, r'(^|::)<impl>::unary$') if 'client' in f.name or 'client' in (f.impl_span or '')]
        if len(parent) != 1:
            return ob.done([ex], 'inconclusive', 'client::Rpc::unary not found', paths=0)
        fn = find_closure(ex.prog, parent[0], [0])
        ut = ex.upvar_types(fn)
        idx = [i for i, t in ut.items() if re.search(r'(^|::)Request<', (t or '').strip())]
        if len(idx) != 1:
            return ob.done([ex], 'inconclusive', f'the request parameter of client::Rpc::unary was not identified among its captures {ut}', paths=0)
        base = e2.upvar_base(ex, fn, idx[0])
        hf = struct_fields('crates/anemo/src/types/request.rs', 'RequestHeader')
        rq = struct_fields('crates/anemo/src/types/request.rs', 'Request')
        head_i = [i for i, t in enumerate(rq.types) if 'RequestHeader' in t]
        if len(head_i) != 1:
            return ob.done([ex], 'inconclusive', 'Request has no RequestHeader field', paths=0)
        hbase = f'{base}.{head_i[0]}'
        p, args = coroutine_start(ex, fn)
        res = ex.run(fn, args, p)
        # what the (generic) codec does decides the body and the content type only: where route, headers and extensions come from does not depend on it
        ex.unresolved_local = {u for u in getattr(ex, 'unresolved_local', ()) if not re.search(r'Codec>::|Encoder>::|Decoder>::', u)}
        n = 0
        for r in res:
            called = [e for e in r.events if e.kind == 'call' and re.search(r'<T as Service>::call$|Service>::call$', str(e.name))]
            if not called:
                continue
            n += 1
            req = called[0].args[1]
            req = ex.deref(r.path, req) if isinstance(req, Ptr) else req
            head = None
            if isinstance(req, Agg) and len(req.fields) > head_i[0]:
                head = req.fields[head_i[0]]
            elif isinstance(req, Sym) and vname(req).startswith(base):
                continue            # the caller's request itself
            if head is None:
                return ob.done([ex], 'inconclusive', f'request passed to the transport not understood: {vrepr(req)[:80]}', paths=len(res))
            if isinstance(head, Sym) and vname(head).startswith(hbase):
                continue            # the caller's header block (content type inserted in place)
            if not isinstance(head, Agg):
                return ob.done([ex], 'inconclusive', f'request head not understood: {vrepr(head)[:80]}', paths=len(res))
            for fname in ('route', 'headers', 'extensions'):
                if fname not in hf:
                    continue
                i = hf.index(fname)
                fv = head.fields[i] if i < len(head.fields) else None
                want = f'{hbase}.{i}'
                if fv is None or not derives_from(fv, lambda v: isinstance(v, Sym) and (v.name.startswith(want) or v.name == hbase), ex=ex, p=r.path):
                    what = {'headers': 'the caller\'s headers - a `timeout` set with Request::with_timeout included - are dropped: neither the outbound deadline nor the serving side sees them',
                            'route': 'the caller\'s route is dropped', 'extensions': 'the caller\'s extensions are dropped'}[fname]
                    sample = path_summary(r)
                    sample['sent_head'] = vrepr(head)[:300]
                    return viol(ob, [ex], f'typed client: the request sent to the transport has `{fname}` = {vrepr(fv)[:60]}, not derived from the caller\'s request ({what})',
                                f'typed-client-drops-{fname}', sample, len(res))
        if not n:
            return ob.done([ex], 'inconclusive', 'no path reaches the transport service', paths=len(res))
        ob.done([ex], 'held', '', {'paths': len(res), 'calls_checked': n}, paths=len(res))
    return guarded(report, 'typed_client_forwards_request', 'rpc::client::Rpc::unary: route, headers and extensions of the request given to the transport service derive from the caller\'s request',
                   ['rpc::client::Rpc::unary'], {'inline_depth': 3, 'codec': 'generic (opaque)'}, body)
