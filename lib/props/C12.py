"""C12 - abandoned RPCs are cancelled remotely and leak nothing (mechanism steps; stream credit is quinn's)."""
import re, z3
from common import *
import e2, mirdump
from e2 import *
from props import rpcpath, handler, C06

PROP = 'C12'


def ob_tail_aborts_tasks(report):
    def body(ob):
        ex, fn, res = handler.run_handler_start()
        n = 0
        for r in res:
            done = r.tag == 'return' and isinstance(r.ret, Agg) and r.ret.variant == 'Ready'
            if not done:
                continue
            evs = r.events
            rm = [i for i, e in enumerate(evs) if e.kind == 'remove']
            sh = [i for i, e in enumerate(evs) if e.kind == 'call' and e.name.endswith('JoinSet::shutdown')]
            shp = [i for i, e in enumerate(evs) if e.kind == 'poll' and 'shutdown' in str(e.name)]
            if len(sh) != 1 or not shp:
                o = ob.done([ex], 'violated', 'the connection handler ends without aborting and awaiting its in-flight request tasks (JoinSet::shutdown): handlers of abandoned RPCs outlive the connection',
                            path_summary(r), key='tail-no-shutdown', paths=len(res))
                o.replay = write_replay(PROP, o.name, path_summary(r))
                return o
            if not rm or rm[0] > sh[0]:
                o = ob.done([ex], 'violated', 'the connection is removed from the active set only after the request tasks were torn down: the loss is announced late', path_summary(r),
                            key='tail-order', paths=len(res))
                o.replay = write_replay(PROP, o.name, path_summary(r))
                return o
            n += 1
        if not n:
            return ob.done([ex], 'inconclusive', 'no completed path', paths=len(res))
        ob.done([ex], 'held', '', {'paths': len(res), 'tail_paths': n}, paths=len(res))
    return guarded(report, 'connection_end_aborts_request_tasks', 'InboundRequestHandler::start: after the accept loop ends it removes its connection and then aborts + awaits all in-flight request tasks (JoinSet::shutdown)',
                   ['InboundRequestHandler::start'], {'loop_unroll': 1}, body)


def ob_handle_no_connection_ops(report, prop=None):
    def body(ob):
        from props.cmodels import CONNECTION_MODELS
        ex = e2.executor('anemo', CONNECTION_MODELS, max_depth=2, opaque=[r'do_handle$'])
        parent = find_method(ex.prog, 'BiStreamRequestHandler', 'handle')
        fn = find_closure(ex.prog, parent, [0])
        p, args = coroutine_start(ex, fn)
        res = ex.run(fn, args, p)
        for r in res:
            bad = [e for e in r.events if e.kind == 'close' or (e.kind == 'call' and re.search(r'Connection::(close|closed)$|ActivePeers::remove', e.name))]
            if bad:
                o = ob.done([ex], 'violated', f'a failing/abandoned request closes or removes the whole connection ({bad[0].name}): abandoning one RPC affects the other RPCs in flight',
                            path_summary(r), key='handle-closes-connection', paths=len(res))
                o.replay = write_replay(prop or PROP, o.name, path_summary(r))
                return o
        # ... and holds on to nothing: once do_handle has returned (served, failed or cancelled) the task ends - its stream halves are dropped, the slot goes back to the peer.
        # Anything awaited afterwards (a "linger" sleep on the error path) keeps the slot of every cancelled RPC occupied for that long.
        for r in res:
            polls = [e for e in r.events if e.kind == 'poll']
            dh = [i for i, e in enumerate(polls) if re.search(r'do_handle', vrepr(e.args[0]) if e.args else '') or re.search(r'do_handle', str(e.name))]
            later = [e for e in (polls[dh[-1] + 1:] if dh else polls) if not re.search(r'do_handle', vrepr(e.args[0]) if e.args else '')]
            sl = [e for e in r.events if e.kind == 'call' and re.search(r'tokio::time::(sleep|sleep_until|timeout)$|(^|::)sleep$', str(e.name))]
            if later or sl:
                what = (sl[0].name if sl else later[0].name)
                o = ob.done([ex], 'violated', f'after the stream handler has finished (or failed, or was cancelled) the request task still awaits {str(what)[:70]} while owning both stream halves: the '
                            'stream slot of every abandoned RPC stays occupied for that long, and enough abandoned RPCs block later ones', path_summary(r), key='handle-lingers', paths=len(res))
                o.replay = write_replay(prop or PROP, o.name, path_summary(r))
                return o
        ob.done([ex], 'held', '', {'paths': len(res)}, paths=len(res))
    return guarded(report, 'request_failure_touches_only_its_stream', 'BiStreamRequestHandler::handle performs no connection-level operation whatever do_handle returns',
                   ['BiStreamRequestHandler::handle'], {}, body)


def check(report, tier, only=None):
    report.trusted += ['quinn: reset/stop propagation and stream credit', 'tokio::select! fairness/poll contract', 'tokio JoinSet::shutdown aborts and awaits every task']
    report.outside += ['that stream capacity is actually returned (quinn flow control)', 'timing of cancellation delivery', 'every instant of abandonment (the schedule is covered per poll outcome, not per time)']
    obs = [('cancellation_race', lambda rep: rpcpath.ob_select_race(rep, PROP)), ('one_request', lambda rep: rpcpath.ob_do_handle(rep, PROP)),
           ('send_stream_drop', lambda rep: rpcpath.ob_send_stream_drop(rep, PROP)), ('connection_end', ob_tail_aborts_tasks), ('request_failure', ob_handle_no_connection_ops),
           ('rpc_not_detached', lambda rep: rpcpath.ob_rpc_not_detached(rep, PROP)),
           ('rpc_state_on_drop', lambda rep: rpcpath.ob_rpc_state_released_on_drop(rep, PROP)),
           ('peer_call', lambda rep: __import__('props.C11', fromlist=['x']).ob_peer_uses_layer(rep)),
           ('removal_entry_points', lambda rep: __import__('props.C04', fromlist=['x']).ob_removal_entry_points(rep)),
           ('stream_errors', C06.ob_handle_confines_errors)]
    for n, f in obs:
        if only and not any(s in n for s in only):
            continue
        f(report)
    report.extra['mir_sha'] = mirdump.mir_sha('anemo')


def replay(path):
    print(open(path).read())
    return 0
