"""C13 - background dialing: who is dialed, how often (safety parts).
E1: DialBackoffState::{new,update} arithmetic (Kani).  E2: eligibility closure, retain closure,
dial loop of handle_connectivity_check (mirsym + z3)."""
import re, z3
from common import *
import e2, mirdump, kani
from e2 import *
from mirsym import models as MD
from props.cmodels import *
from mirsym import iters as IT

PROP = 'C13'
CM = 'crates/anemo/src/network/connection_manager.rs'
TY = 'crates/anemo/src/types/mod.rs'


def violation(ob, exs, detail, key, sample, paths, **kw):
    o = ob.done(exs, 'violated', detail, sample, key=key, paths=paths, **kw)
    o.replay = write_replay(PROP, o.name, {'obligation': o.name, 'detail': detail, 'sample': sample})
    return o


def m_own(ex, p, call, k):
    k(p, z3.BitVec('own', 256))


def m_is_empty(ex, p, call, k):
    v = ex.deref(p, call.args[0])
    k(p, z3.Bool(f'empty({vname(v)})'))


def m_vec_len(ex, p, call, k):
    v = ex.deref(p, call.args[0])
    p.events.append(Event('call', 'Vec::len', (v,), None, call.span, call.depth))
    k(p, z3.BitVec(f'len({vname(v)})', 64))


def table_cells():
    """the two lock-guarded tables the connectivity check reads, identified by the guarded type"""
    def mk_active(p):
        f = struct_fields(CM, 'ActivePeersInner').by_type(r'^HashMap<PeerId,Connection>$')
        return Sym('active_inner', 'ActivePeersInner').with_ov(('f', f), Sym('conns', 'HashMap<PeerId, connection::Connection>'))
    return [(r'^(\w+::)*HashMap<(\w+::)*PeerId,(\w+::)*PeerInfo>$', 'known_map', lambda p: Sym('known', 'HashMap<PeerId, PeerInfo>')),
            (r'^(\w+::)*ActivePeersInner$', 'active_inner', mk_active)]


BASE_MODELS = [(r'Endpoint::peer_id$', m_own), (r'Vec::is_empty$', m_is_empty), (r'Vec::len$', m_vec_len)] + lock_models(table_cells())


def cm_state(p):
    cm = struct_sym_deep('cm', 'ConnectionManager', CM, 'ConnectionManager', {
        'pending_dials': Sym('pending_dials', 'HashMap<PeerId, tokio::sync::oneshot::Receiver<Result<PeerId, anyhow::Error>>>'),
        'dial_backoff_states': Sym('backoff', 'HashMap<PeerId, DialBackoffState>'),
        'pending_connections': Sym('pending_connections', 'JoinSet<ConnectingOutput>'),
        'config': Sym('config_arc', 'Arc<config::Config>'),
    })
    p.mem[('H', 'cm', 'ConnectionManager')] = cm
    return Ptr(('H', 'cm', 'ConnectionManager'), (), True, 'ConnectionManager')


def run_check_fn(extra_models=(), unroll=2, depth=2):
    ex = e2.executor('anemo', list(extra_models) + BASE_MODELS, max_depth=depth, unroll=unroll, fixed_bounds=True)
    fn = find_method(ex.prog, 'ConnectionManager', 'handle_connectivity_check')
    p = Path()
    selfp = cm_state(p)
    res = ex.run(fn, [selfp, z3.Int('now')], p)
    return ex, fn, res


def ob_eligibility(report):
    def body(ob):
        outs = []
        pf = struct_fields(TY, 'PeerInfo')
        bf = struct_fields(CM, 'DialBackoffState')
        holder = {}

        def m_filter(ex_, p, call, k):
            if 'done' not in holder:
                holder['done'] = True
                info = struct_sym('info', 'types::PeerInfo', pf, {'peer_id': z3.BitVec('info.peer_id', 256), 'affinity': Sym('info.affinity', 'types::PeerAffinity'),
                                                                 'address': Sym('info.address', 'Vec<Address>')})
                q = p.clone()
                q.pc = []          # the closure is analysed for every state of the tables, not only those reaching this call
                q.mem[('H', 'info', 'PeerInfo')] = info
                q.mem[('H', 'info_ref', '&PeerInfo')] = Ptr(('H', 'info', 'PeerInfo'))
                saved = ex_.results
                ex_.results = []
                ex_.call_closure(q, call.args[1], [Ptr(('H', 'info_ref', '&PeerInfo'))], call, lambda q2, ret: outs.append((q2, ret)))
                holder['side'] = ex_.results
                ex_.results = saved
            ex_.opaque_call(p, call, k)
        ex, fn, res = run_check_fn([(r"as Iterator>::filter$", m_filter)], depth=7)
        ex2 = ex
        if 'done' not in holder:
            return ob.done([ex], 'inconclusive', 'no Iterator::filter over the known-peer table found', paths=len(res))
        bad = [r for r in holder.get('side', []) if r.tag in ('panic', 'diverge', 'loop-bound')]
        if bad:
            return violation(ob, [ex], f'eligibility closure can {bad[0].tag}', 'eligibility-abnormal', path_summary(bad[0]), len(outs))
        HIGH = ex.enums.index('PeerAffinity', 'High')
        aff = z3.BitVec('info.affinity.discr', 64)
        pid, own, now = z3.BitVec('info.peer_id', 256), z3.BitVec('own', 256), z3.Int('now')
        empty = z3.Bool('empty(info.address)')
        act = MD.map_has_initial(Sym('conns'), pid)
        pend = MD.map_has_initial(Sym('pending_dials'), pid)
        hasb = MD.map_has_initial(Sym('backoff'), pid)
        bo = z3.Int(f'backoff[{pid}]' + _bo_suffix('backoff'))
        spec = z3.And(aff == HIGH, pid != own, z3.Not(empty), z3.Not(act), z3.Not(pend), z3.Or(z3.Not(hasb), now > bo))
        code = z3.Or([z3.And(q.pc + [ret]) for q, ret in outs if isinstance(ret, z3.BoolRef)] or [z3.BoolVal(False)])
        if any(not isinstance(ret, z3.BoolRef) for _, ret in outs):
            return ob.done([ex], 'inconclusive', 'closure result is not boolean on some path', paths=len(outs))
        dom = [z3.ULT(aff, 3)]
        qv, m, t = solve(dom + [code != spec])
        sample = {'paths': len(outs), 'spec': 'High & id != own & addresses != {} & !connected & !pending & (no backoff state | now > backoff)',
                  'example_path': [str(z3.simplify(c))[:100] for c in outs[0][0].pc]}
        if qv == 'unknown':
            return ob.done([ex], 'inconclusive', 'solver unknown', sample, paths=len(outs), extra_queries=1, extra_solver=t)
        if qv == 'sat':
            cex = {'affinity': {v: k for k, v in ex.enums.variants('PeerAffinity').items()}.get(m.eval(aff, True).as_long(), '?'),
                   'is_self': z3.is_true(m.eval(pid == own, True)), 'addresses_empty': z3.is_true(m.eval(empty, True)),
                   'connected': z3.is_true(m.eval(act, True)), 'pending_dial': z3.is_true(m.eval(pend, True)),
                   'has_backoff_state': z3.is_true(m.eval(hasb, True)), 'now': str(m.eval(now, True)), 'backoff': str(m.eval(bo, True)),
                   'code_dials': z3.is_true(m.eval(code, True)), 'spec_dials': z3.is_true(m.eval(spec, True))}
            sample['counterexample'] = cex
            return violation(ob, [ex], f'eligibility differs from the specification: {cex}', 'eligibility:' + ('over' if cex['code_dials'] else 'under'),
                             sample, len(outs), extra_queries=1, extra_solver=t)
        ob.done([ex], 'held', '', sample, paths=len(outs), extra_queries=1, extra_solver=t)
    return guarded(report, 'eligibility_equiv_spec', 'the filter closure of handle_connectivity_check returns true exactly for: High affinity, not self, has an address, '
                   'not connected, no pending dial, and (no backoff state or now > backoff) - all ids, instants, table rows',
                   ['ConnectionManager::handle_connectivity_check::{closure#1}', 'ActivePeersInner::contains'], {'inline_depth': 3}, body)


def ob_dial_loop(report):
    def body(ob):
        def m_dial_peer(ex, p, call, k):
            p.events.append(Event('dial', 'dial_peer', tuple(e2.flatten_args(call.args[1:])), None, call.span, call.depth))     # (address, id, sender), bundled in a struct or not
            k(p, UNIT)

        def m_channel(ex, p, call, k):
            n = p.seq('chan')
            k(p, Agg('()', None, (Sym(f'tx{n}', 'Sender'), Sym(f'rx{n}', 'Receiver')), 'tuple'))

        def m_jlen(ex, p, call, k):
            k(p, z3.BitVec('len(pending_connections)', 64))

        def m_addr_pick(ex, p, call, k):
            # Vec::remove(&mut v, i) / v[i] / v.swap_remove(i) / v.get(i) on an address list: which address is dialed
            v = ex.deref(p, call.args[0])
            if 'ddress' not in (getattr(v, 'ty', '') or '') and 'address' not in vname(v) and not re.search(r'\.\d+$', vname(v)):
                return NotImplemented
            p.events.append(Event('addr-pick', call.short, (v, call.args[1]), None, call.span, call.depth))
            a = Sym(f'addr({vname(v)})', 'Address')
            if re.search(r'Index>::index$', call.short):
                cell = ('H', f'addrcell{p.seq("addrcell")}', 'Address')
                p.mem[cell] = a
                return k(p, Ptr(cell))
            if call.short.endswith('::get'):
                cell = ('H', f'addrcell{p.seq("addrcell")}', 'Address')
                p.mem[cell] = a
                return k(p, MD.some(Ptr(cell)))
            k(p, a)
        models = [(r'ConnectionManager::dial_peer$', m_dial_peer), (r'oneshot::channel$', m_channel), (r'JoinSet::len$', m_jlen),
                  (r'Vec::(remove|swap_remove)$|<Vec as Index>::index$', m_addr_pick)] + IT.ITER_MODELS
        ex = e2.executor('anemo', models + BASE_MODELS, max_depth=6, unroll=2, fixed_bounds=True)
        ex.opaque_filters = True        # the eligibility predicate is decided by eligibility_equiv_spec
        fn = find_method(ex.prog, 'ConnectionManager', 'handle_connectivity_check')
        p = Path()
        selfp = cm_state(p)
        res = ex.run(fn, [selfp, z3.Int('now')], p)
        bf = struct_fields(CM, 'DialBackoffState')
        pf = struct_fields(TY, 'PeerInfo')
        n_iter = n_count = 0
        mx = _config_max(ex)
        plen = z3.BitVec('len(pending_connections)', 64)
        budget = z3.If(z3.UGE(mx, plen), mx - plen, z3.BitVecVal(0, 64))
        # the oracle below is phrased over `known.values().filter(eligible)...take(budget)`: without a filter stage over the known-peer
        # table (the selection was rewritten as an explicit loop building a vector) it cannot tell selection from dialing
        def _filters_known(r):
            for e in r.events:
                if e.kind == 'next' and e.name == 'begin':
                    it = e.args[0] if e.args else None
                    for _ in range(6):
                        if not (isinstance(it, Agg) and it.name == 'AIter'):
                            break
                        if any(getattr(st, 'variant', None) in ('filter', 'filter_map') for st in IT.parts(it)[2]):
                            return True
                        try:
                            c = IT._coll(ex, r.path, it.fields[0])
                        except Exception:
                            break
                        it = c.get_ov('collected') if isinstance(c, Sym) else None
            return False
        if res and not any(_filters_known(r) for r in res) and any(e.kind == 'dial' for r in res for e in r.events):
            return ob.done([ex], 'inconclusive', 'the eligible peers are not selected by an Iterator::filter pipeline over the known-peer table '
                           '(explicit loop?): selection and dialing cannot be told apart by this obligation', paths=len(res))
        for r in res:
            if r.tag == 'panic' and cmodels_poison(r):
                continue
            evs = r.events
            # dial iterations: segments between consecutive `next begin` markers that contain a dial
            begins = [i for i, e in enumerate(evs) if e.kind == 'next' and e.name == 'begin']
            walked = bool(begins) or any(e.kind in ('next', 'collect', 'collect-item', 'elem') or (e.kind == 'drop' and e.args and isinstance(e.args[0], Agg) and e.args[0].name == 'AIter')
                                         for e in evs)
            if r.tag == 'return' and not walked:
                # the check ended without walking the eligible peers: only allowed when nothing could be dialed anyway (no budget left)
                ex.queries += 1
                qv, m, _ = solve(r.pc + [z3.UGT(budget, 0)])
                if qv != 'unsat':
                    sample = path_summary(r)
                    sample['counterexample'] = model_dict(m, 8)
                    return violation(ob, [ex], 'a connectivity check returns without looking at the known peers although dials could be started (budget > 0): under that condition '
                                     'eligible peers are not dialed in this tick - e.g. while an earlier dial to an unresponsive address is still pending', 'loop-skipped', sample, len(res))
            segs = [(b, (begins[n + 1] if n + 1 < len(begins) else len(evs))) for n, b in enumerate(begins)]
            stray = [e for i, e in enumerate(evs) if e.kind == 'dial' and not any(a <= i < b for a, b in segs)]
            if stray:
                return violation(ob, [ex], 'a background dial is started outside the per-peer loop over the eligible peers', 'loop-stray-dial', path_summary(r), len(res))
            for a, b in segs:
                it = evs[a].args[0]
                seg = evs[a:b]
                dl = [x for x in seg if x.kind == 'dial']
                if not dl:
                    continue
                # (1) how many peers this loop dials in total: min(|eligible|, max_outstanding (-) |pending connections|)
                cnt, cons, fsyms = IT.aiter_count(ex, r.path, it)
                root = _root_source(ex, r.path, it)
                if len(fsyms) != 1 or root != 'known':
                    return violation(ob, [ex], f'the dial loop does not run over the eligible (filtered) known peers: source={root}, filters={len(fsyms)}', 'loop-source', path_summary(r), len(res))
                # the eligibility filter sees the whole table: nothing may truncate the traversal before it (a budget applied in front of
                # the filter lets ineligible entries use up the window; eligible peers behind it would never be dialed)
                chain, cur_it = [], it
                for _ in range(6):
                    if not (isinstance(cur_it, Agg) and cur_it.name == 'AIter'):
                        break
                    chain = [getattr(st, 'variant', None) for st in IT.parts(cur_it)[2]] + chain
                    c_ = IT._coll(ex, r.path, cur_it.fields[0])
                    cur_it = c_.get_ov('collected') if isinstance(c_, Sym) else None
                fpos = next((i for i, st in enumerate(chain) if st in ('filter', 'filter_map')), None)
                if fpos is not None and any(st in ('take', 'skip', 'take_while', 'skip_while', 'step_by') for st in chain[:fpos]):
                    return violation(ob, [ex], f'the known-peer table is truncated before the eligibility filter is applied (pipeline {chain}): eligible peers behind the '
                                     'window are never considered', 'loop-filter-after-take', path_summary(r), len(res))
                E = fsyms[0]
                want = z3.If(z3.ULE(E, budget), E, budget)
                qv, m, _ = solve(r.pc + cons + [cnt != want])
                ex.queries += 1
                if qv != 'unsat':
                    return violation(ob, [ex], f'number of peers dialed != min(|eligible|, max_outstanding (-) |pending_connections|): {model_dict(m, 8)}', 'loop-number', path_summary(r), len(res))
                n_count += 1
                # (2) per dialed peer
                el = [x for x in seg if x.kind == 'elem' and x.name == 'known']
                if len(el) != 1:
                    return violation(ob, [ex], f'one loop iteration consumes {len(el)} eligible peers', 'loop-body-shape', path_summary(r), len(res))
                info = ex.deref(r.path, el[0].args[0]) if isinstance(el[0].args[0], Ptr) else el[0].args[0]
                if r.tag in ('panic', 'diverge'):
                    continue        # `% address.len()` with an empty list: excluded by the eligibility filter
                pid = z3.BitVec(f'{info.name}.{pf.index("peer_id")}', 256)
                pk = [x for x in seg if x.kind == 'addr-pick']
                ins = [x for x in seg if x.kind == 'map' and x.name == 'insert' and x.args[0].s == 'pending_dials']
                if r.tag == 'loop-bound' and not (pk and ins):
                    continue
                if len(pk) != 1 or len(dl) != 1 or len(ins) != 1:
                    return violation(ob, [ex], f'loop body does not perform exactly one address pick, one dial and one pending_dials insert ({len(pk)},{len(dl)},{len(ins)})',
                                     'loop-body-shape', path_summary(r), len(res))
                n_iter += 1
                addrs = f'{info.name}.{pf.index("address")}'
                alen = z3.BitVec(f'len({addrs})', 64)
                hasb = MD.map_has_initial(Sym('backoff'), pid)
                att = z3.BitVec(f'backoff[{pid}]' + _bo_suffix('attempts'), 64)
                want_idx = z3.URem(z3.If(hasb, att, z3.BitVecVal(0, 64)), alen)
                idx = pk[0].args[1]
                if vname(pk[0].args[0]) != addrs or not isinstance(idx, z3.ExprRef):
                    return violation(ob, [ex], f'address is not taken from the peer\'s own address list: {vrepr(pk[0].args[0])}', 'loop-address-list', path_summary(r), len(res))
                qv, m, _ = solve(r.pc + [alen != 0, idx != want_idx])
                ex.queries += 1
                if qv != 'unsat':
                    return violation(ob, [ex], f'address index != attempts mod |addresses| (0 attempts without backoff state): {model_dict(m, 8)}', 'loop-address-index', path_summary(r), len(res))
                d = dl[0]
                a0 = ex.deref(r.path, d.args[0]) if isinstance(d.args[0], Ptr) else d.args[0]
                okd = (len(d.args) == 3 and vname(a0) == f'addr({addrs})' and isinstance(d.args[1], Agg) and d.args[1].variant == 'Some'
                       and same(ex, r.pc, d.args[1].fields[0], pid) and vname(d.args[2]).startswith('tx'))
                if not okd:
                    return violation(ob, [ex], f'dial_peer is not called with (picked address, Some(peer id), fresh sender): {[vrepr(x) for x in d.args]}', 'loop-dial-args', path_summary(r), len(res))
                i0 = ins[0]
                if not same(ex, r.pc, i0.args[1], pid) or vname(i0.args[2]) != vname(d.args[2]).replace('tx', 'rx'):
                    return violation(ob, [ex], f'pending_dials does not record (peer id -> receiver of the same channel): {[vrepr(x) for x in i0.args]}', 'loop-pending-insert', path_summary(r), len(res))
        if not n_iter or not n_count:
            return ob.done([ex], 'inconclusive', f'vacuity: iterations analysed={n_iter}, count checks={n_count}', paths=len(res))
        ob.done([ex], 'held', '', {'iterations_checked': n_iter, 'paths': len(res)}, paths=len(res))
    return guarded(report, 'dial_loop', 'number of peers dialed per tick = min(|eligible|, max_outstanding (-) |pending_connections|); per dialed peer: address index = attempts mod |addresses| '
                   '(0 without backoff state), dial_peer(address, Some(peer id)), pending_dials[peer id] = receiver of that dial',
                   ['ConnectionManager::handle_connectivity_check', 'Config::max_concurrent_outstanding_connecting_connections'],
                   {'loop_unroll': 2, 'inline_depth': 6, 'iterators': 'abstract lazy-iterator contract (mirsym/iters.py): generic element, symbolic counts'}, body)


def _root_source(ex, p, it):
    """name of the collection at the bottom of a (possibly collected and re-iterated) pipeline"""
    for _ in range(6):
        c = IT._coll(ex, p, it.fields[0])
        inner = c.get_ov('collected') if isinstance(c, Sym) else None
        if inner is None:
            return vname(c)
        it = inner
    return None


def cmodels_poison(r):
    return poison_panic(r)


def _consts_in(e):
    return []


def _config_max(ex):
    """symbolic value of Config::max_concurrent_outstanding_connecting_connections(): field or default"""
    ex2 = e2.executor('anemo', max_depth=2, fixed_bounds=True)
    fn = find_method(ex2.prog, 'Config', 'max_concurrent_outstanding_connecting_connections')
    cf = struct_fields('crates/anemo/src/config.rs', 'Config')
    idx = cf.index('max_concurrent_outstanding_connecting_connections')
    p = Path()
    res = ex2.run(fn, [Ptr(('H', 'config_arc.deref', 'config::Config'))], p)
    d = z3.BitVec(f'config_arc.deref.{idx}.discr', 64)
    v = z3.BitVec(f'config_arc.deref.{idx}@Some.0', 64)
    e = None
    for r in res:
        if r.tag != 'return' or not isinstance(r.ret, z3.ExprRef):
            raise Unmodelled('Config accessor path')
        e = r.ret if e is None else z3.If(z3.And(r.pc), r.ret, e)
    ex.queries += ex2.queries
    return e


def ob_config_default(report):
    def body(ob):
        ex = e2.executor('anemo', max_depth=2, fixed_bounds=True)
        mx = _config_max(ex)
        cf = struct_fields('crates/anemo/src/config.rs', 'Config')
        idx = cf.index('max_concurrent_outstanding_connecting_connections')
        d = z3.BitVec(f'config_arc.deref.{idx}.discr', 64)
        v = z3.BitVec(f'config_arc.deref.{idx}@Some.0', 64)
        want = z3.If(d == 1, v, z3.BitVecVal(100, 64))
        qv, m, t = solve([z3.ULT(d, 2), mx != want])
        if qv == 'sat':
            return violation(ob, [ex], f'max_concurrent_outstanding_connecting_connections() != configured value or documented default 100: {model_dict(m)}', 'config-max', {}, 2)
        ob.done([ex], 'held' if qv == 'unsat' else 'inconclusive', '', {'expr': str(z3.simplify(mx))[:200]}, paths=2, extra_queries=1, extra_solver=t)
    return guarded(report, 'max_outstanding_accessor', 'Config::max_concurrent_outstanding_connecting_connections() = configured value, else 100',
                   ['Config::max_concurrent_outstanding_connecting_connections'], {}, body)


SATMUL = z3.Function('saturating_mul', z3.IntSort(), z3.IntSort(), z3.IntSort())


def ob_retain(report):
    def body(ob):
        outs = []
        holder = {}
        pid = z3.BitVec('dialed', 256)

        def m_try_recv(ex_, p, call, k):
            k(p, Sym('recv', 'Result<Result<PeerId, anyhow::Error>, tokio::sync::oneshot::error::TryRecvError>'))

        def m_from_millis(ex_, p, call, k):
            a = call.args[0]
            k(p, z3.BV2Int(a) * 1000000 if z3.is_bv(a) else a)

        def m_sat_mul(ex_, p, call, k):
            d, n = call.args
            # Duration::saturating_mul as an uninterpreted function of (duration, factor): its machine arithmetic is
            # decided by the Kani harness c13_backoff_update_*; here only the data flow matters
            k(p, SATMUL(d, z3.BV2Int(n)))

        def m_add(ex_, p, call, k):
            k(p, call.args[0] + call.args[1])

        def m_try_into(ex_, p, call, k):
            a = call.args[0]
            fits = z3.ULE(a, z3.BitVecVal(0xffffffff, 64))
            k(p, Sym('tryinto', 'Result<u32, TryFromIntError>').with_ov('discr', z3.If(fits, z3.BitVecVal(0, 64), z3.BitVecVal(1, 64)))
              .with_ov(('v', 'Ok', 0), z3.Extract(31, 0, a)))

        def m_retain(ex_, p, call, k):
            if 'done' not in holder:
                holder['done'] = True
                q = p.clone()
                q.pc = []
                q.mem[('H', 'dialed', 'PeerId')] = pid
                q.mem[('H', 'rxcell', 'Receiver')] = Sym('rx', 'Receiver')
                saved = ex_.results
                ex_.results = []
                ex_.call_closure(q, call.args[1], [Ptr(('H', 'dialed', 'PeerId')), Ptr(('H', 'rxcell', 'Receiver'), (), True)], call,
                                 lambda q2, ret: outs.append((q2, ret)))
                holder['side'] = ex_.results
                ex_.results = saved
            ex_.opaque_call(p, call, k)
        models = [(r'oneshot::Receiver::try_recv$', m_try_recv), (r'Duration::from_millis$', m_from_millis), (r'Duration::saturating_mul$', m_sat_mul),
                  (r'Instant as Add>::add$', m_add), (r'<usize as TryInto>::try_into$', m_try_into), (r'HashMap::retain$', m_retain)]
        ex, fn, res = run_check_fn(models, depth=7)
        ex2 = ex
        if 'done' not in holder:
            return ob.done([ex], 'inconclusive', 'pending_dials.retain(..) not found', paths=len(res))
        bf = struct_fields(CM, 'DialBackoffState')
        rd = z3.BitVec('recv.discr', 64)
        inner = z3.BitVec('recv@Ok.0.discr', 64)
        terr = z3.BitVec('recv@Err.0.discr', 64)
        EMPTY, CLOSED = ex.enums.index('TryRecvError', 'Empty', 'tokio'), ex.enums.index('TryRecvError', 'Closed', 'tokio')
        if EMPTY is None or CLOSED is None:
            return ob.done([ex], 'inconclusive', 'TryRecvError variants not found', paths=len(outs))
        seen = {'success': 0, 'failure-new': 0, 'failure-update': 0, 'inflight': 0}
        now = z3.Int('now')
        cfgstep, cfgmax = None, None
        for q, ret in outs:
            r = Result(q, ret, 'return')
            mapev = [e for e in q.events if e.kind == 'map' and e.args[0].s == 'backoff']
            def is_(c):
                return implied(ex2, q.pc, c)
            if is_(z3.And(rd == 0, inner == 0)):
                # success: backoff state of that peer removed (if any), entry dropped from pending
                if not (z3.is_false(z3.simplify(ret)) if isinstance(ret, z3.ExprRef) else False):
                    return violation(ob, [ex], 'completed (successful) dial is kept in pending_dials', 'retain-success-kept', path_summary(r), len(outs))
                bmap = read_role(ex2, ex2.read_loc(q, None, ('H', 'cm', 'ConnectionManager'), ()), CM, 'ConnectionManager', 'dial_backoff_states')
                pres = MD.map_present_expr(ex2, bmap, pid)
                if not implied(ex2, q.pc, z3.Not(pres)):
                    return violation(ob, [ex], 'backoff state survives a successful dial', 'retain-success-backoff', path_summary(r), len(outs))
                seen['success'] += 1
            elif is_(z3.And(rd == 0, inner == 1)):
                if not (z3.is_false(z3.simplify(ret)) if isinstance(ret, z3.ExprRef) else False):
                    return violation(ob, [ex], 'failed dial is kept in pending_dials', 'retain-failure-kept', path_summary(r), len(outs))
                st = _backoff_state_after(ex2, q, pid, bf)
                if st is None:
                    return violation(ob, [ex], 'no backoff state recorded after a failed dial', 'retain-failure-nostate', path_summary(r), len(outs))
                att_new, bo_new, att_old, fresh = st
                step, mx = _cfg_durations(ex2, q)
                k_ = z3.BV2Int(att_new)
                want_bo = now + z3.If(mx <= SATMUL(step, k_), mx, SATMUL(step, k_))
                conds = [att_new == (z3.BitVecVal(1, 64) if fresh else att_old + 1), bo_new == want_bo]
                dom = [z3.ULT(att_old, z3.BitVecVal(0xfffffffe, 64))] if not fresh else []
                qv, m, _ = solve(q.pc + dom + [z3.Not(z3.And(conds))])
                ex2.queries += 1
                if qv != 'unsat':
                    return violation(ob, [ex], f'after a failed dial: attempts/backoff != (attempts+1, now + min(max, step*attempts)): {model_dict(m, 10)}',
                                     'retain-failure-formula', path_summary(r), len(outs))
                seen['failure-new' if fresh else 'failure-update'] += 1
            elif is_(z3.And(rd == 1, terr == EMPTY)):
                if not (z3.is_true(z3.simplify(ret)) if isinstance(ret, z3.ExprRef) else False) or mapev:
                    return violation(ob, [ex], 'in-flight dial is dropped from pending_dials or its backoff state touched', 'retain-inflight', path_summary(r), len(outs))
                seen['inflight'] += 1
        for r in holder.get('side', []):
            if r.tag in ('panic', 'diverge'):
                if not implied(ex2, r.pc, z3.And(rd == 1, terr == CLOSED)) and not implied(ex2, r.pc, z3.Not(z3.ULT(z3.BitVec(f'backoff[{pid}]' + _bo_suffix('attempts'), 64), z3.BitVecVal(2**64 - 1, 64)))):
                    qv, m, _ = solve(r.pc)
                    return violation(ob, [ex], f'retain closure can panic outside the documented `Closed` case: {r.path.tags}', 'retain-panic', path_summary(r), len(outs))
        if not all(seen.values()):
            return ob.done([ex], 'inconclusive', f'vacuity: {seen}', paths=len(outs))
        ob.done([ex], 'held', '', {'cases': seen}, paths=len(outs) + len(holder.get('side', [])))
    return guarded(report, 'retain_outcomes', 'draining pending dials: success => entry dropped and backoff state removed; failure => entry dropped and state := '
                   '(attempts+1, now + min(max_backoff, step*attempts)) with the tick\'s `now` (new state: attempts = 1); still in flight => kept untouched',
                   ['ConnectionManager::handle_connectivity_check::{closure#0}', 'DialBackoffState::new', 'DialBackoffState::update',
                    'Config::connection_backoff', 'Config::max_connection_backoff'],
                   {'inline_depth': 4, 'Duration': 'mathematical integers of ns; saturation at Duration::MAX outside; machine arithmetic checked by Kani harness c13_backoff_update_*',
                    'attempts': '< 2^32-1 for the formula'}, body)


def _bo_suffix(role):
    """name suffix of a DialBackoffState role (`attempts`, `backoff`) inside a stored state: `.i`, or `.i.j` when the value sits in a private newtype"""
    return ''.join(f'.{i}' for _, i in role_path(CM, 'DialBackoffState', role))


def _bo_project(ex, st, role, ty):
    v = st
    for _, i in role_path(CM, 'DialBackoffState', role):
        v = ex.project(v, ('field', i, ''))
    return e2.peel(v)


def _backoff_state_after(ex, q, pid, bf):
    """(attempts', backoff', attempts_old, fresh?) of the peer's DialBackoffState after the closure"""
    ia, ib = bf.index('attempts'), bf.index('backoff')
    ins = [e for e in q.events if e.kind == 'map' and e.args[0].s == 'backoff' and e.name == 'insert']
    if ins:
        st = ins[-1].args[2]
        # a `&mut` to the freshly inserted value may have been written through afterwards (`.or_insert_with(..).update(..)`)
        cells = [e for e in q.events if e.kind == 'entry-cell' and e.name == 'backoff']
        if cells:
            st = ex.deref(q, cells[-1].args[1])
        a, b = _bo_project(ex, st, 'attempts', 'usize'), _bo_project(ex, st, 'backoff', 'std::time::Instant')
        return a, b, None, True
    # updated in place through entry.get_mut(): the entry-val cell
    for key, v in q.mem.items():
        if key[0] == 'H' and str(key[1]).startswith('entry-val') and isinstance(v, Sym) and v.name.startswith('backoff['):
            a, b = _bo_project(ex, v, 'attempts', 'usize'), _bo_project(ex, v, 'backoff', 'std::time::Instant')
            old = z3.BitVec(f'{v.name}' + _bo_suffix('attempts'), 64)
            if v.ov:
                return a, b, old, False
    return None


def _cfg_durations(ex, q):
    """(step, max) in ns as the two Config accessors compute them (inlined: from_millis(field.unwrap_or(default)))"""
    cf = struct_fields('crates/anemo/src/config.rs', 'Config')

    def one(fld, default_ms):
        i = cf.index(fld)
        d = z3.BitVec(f'config_arc.deref.{i}.discr', 64)
        v = z3.BitVec(f'config_arc.deref.{i}@Some.0', 64)
        return z3.If(d == 1, z3.BV2Int(v), z3.IntVal(default_ms)) * 1000000
    return one('connection_backoff_ms', 10000), one('max_connection_backoff_ms', 60000)


def ob_tick_not_lost(report):
    """the connectivity check runs for every tick that is consumed: `Interval::tick` is a select! arm of the manager's loop by itself
    (cancel safe: a tick is only consumed when the arm completes), or awaited by a helper future that cannot suspend after it"""
    def body(ob):
        def m_tick(ex_, p, call, k):
            p.events.append(Event('tick-created', 'Interval::tick', ()))
            k(p, Sym('tick_future', 'Tick'))
        ex = e2.executor('anemo', [(r'(^|::)Interval::tick$', m_tick)], max_depth=2, fixed_bounds=True)
        ex.explore_pending = True
        start = find_method(ex.prog, 'ConnectionManager', 'start')
        start_body = find_closure(ex.prog, start, [0])
        users = []
        for fs in ex.prog.fns.values():
            for f in fs:
                if not f.blocks:
                    continue
                for blk in f.blocks.values():
                    if any(st and st[0] == 'call' and isinstance(st[2], str) and re.search(r'(^|::)Interval::tick$', M_strip(st[2])) for st, _ in blk):
                        users.append(f)
                        break
        users = list({f.raw: f for f in users}.values())
        if not users:
            return ob.done([ex], 'inconclusive', 'no caller of tokio::time::Interval::tick in the crate (the periodic check is driven differently)', paths=0)
        total = 0
        helpers = 0
        for f in users:
            if f.raw.startswith(start.raw + '::{closure#'):
                continue                    # the tick future is created in the loop body itself: a select! arm (or a plain await) of its own
            if not re.search(r'\{closure#\d+\}$', f.raw) or not f.decl.get(f.args[0], '').startswith('Pin<&mut'):
                return ob.done([ex], 'inconclusive', f'Interval::tick is called from {f.name}, which is not a coroutine body this obligation can run', paths=total)
            helpers += 1
            p, args = coroutine_start(ex, f)
            res = ex.run(f, args, p)
            total += len(res)
            for r in res:
                evs = r.events
                ready = [i for i, e in enumerate(evs) if e.kind == 'poll' and e.args and vname(e.args[0]) == 'tick_future' and isinstance(e.ret, Agg) and e.ret.variant == 'Ready']
                if not ready:
                    continue
                suspended = r.tag == 'return' and isinstance(r.ret, Agg) and r.ret.name == 'Poll' and r.ret.variant == 'Pending'
                if suspended:
                    later = [e for e in evs[ready[0] + 1:] if e.kind == 'poll' and isinstance(e.ret, Agg) and e.ret.variant == 'Pending']
                    o = ob.done([ex], 'violated', f'{f.name}: after a tick of the connectivity interval was consumed the future can still suspend '
                                f'(on {str(later[0].name)[:60] if later else "another await"}): as a select! arm of the connection manager loop it is dropped whenever another event '
                                'arrives first, and that tick\'s connectivity check never happens', path_summary(r), key='tick-lost-after-consume', paths=total)
                    o.replay = write_replay(PROP, 'tick_not_lost', {'function': f.name, 'path': path_summary(r)})
                    return o
        ob.done([ex], 'held', '', {'callers_of_tick': [f.name for f in users], 'helper_futures_run': helpers}, paths=total)
    return guarded(report, 'tick_is_not_lost', 'every consumed tick of the connectivity interval is followed by the check: Interval::tick is polled as a select! arm of its own, or '
                   'inside a helper future that has no suspension point after the tick (a future that sleeps after the tick loses the tick when select! drops it)',
                   ['ConnectionManager::start', 'callers of tokio::time::Interval::tick'], {'inline_depth': 2, 'schedule': 'every poll may be Pending'}, body)


def M_strip(t):
    from mirsym import mir as _M
    return _M.strip_generics(t)



def check(report, tier, only=None):
    report.trusted += ['Kani 0.68/CBMC 6.11', 'z3 5.1', 'finite-map model of HashMap', 'Instant/Duration as mathematical integers in E2 (machine arithmetic in E1)']
    report.outside += ['temporal guarantees (connected within interval + jitter, behaviour over long virtual time) - need the runtime clock',
                       'that the interval timer fires; DNS resolution']
    jobs = []
    FN = ['DialBackoffState::update', 'DialBackoffState::new']
    if tier == 'quick':
        jobs.append(kani.KaniJob('backoff', 'c13_backoff_update_quick', 'attempts+1; backoff = now + min(max, step*attempts); never before now', FN,
                                 {'step,max': '<= 2^16 ms', 'attempts': '< 64', 'now': 'any Instant < 2^40 s'}, timeout_s=900))
    else:
        jobs.append(kani.KaniJob('backoff', 'c13_backoff_update_thorough', 'attempts+1; backoff = now + min(max, step*attempts); never before now', FN,
                                 {'step,max': '<= 10^8 ms', 'attempts': '< 1000', 'now': 'any Instant < 2^40 s'}, timeout_s=2400))
    jobs.append(kani.KaniJob('backoff', 'c13_backoff_new_is_first_update', 'new(now) = one update from zero attempts', FN, {'step,max': '<= 2^16 ms'}))
    jobs = [j for j in jobs if not only or any(s in j.harness for s in only)]
    if jobs:
        kani.build_and_run(PROP, ['backoff'], jobs, report)
    for f in (ob_eligibility, ob_dial_loop, ob_config_default, ob_retain, ob_tick_not_lost):
        if only and not any(s in f.__name__ for s in only):
            continue
        f(report)
    report.extra['mir_sha'] = mirdump.mir_sha('anemo')


def replay(path):
    print(open(path).read())
    return 0
