"""C14 - networks with different names never connect (anemo's name plumbing; rustls SNI selection and webpki name matching trusted)."""
from common import *
import mirdump
from props import tlsglue

PROP = 'C14'


def check(report, tier, only=None):
    report.trusted += ['rustls: SNI-based certificate selection, handshake', 'webpki: verify_is_valid_for_subject_name, verify_for_usage', 'rcgen: certificate generated for the given name']
    report.outside += ['what rustls/webpki accept as a matching name', 'adversarial handshakes beyond the verifier callbacks']
    obs = [('server_cert', tlsglue.ob_server_cert_verifier), ('client_cert', tlsglue.ob_client_cert_verifier), ('pinned', tlsglue.ob_expected_verifier),
           ('listener_cert_by_sni', tlsglue.ob_server_config_sni), ('network_name_plumbing', tlsglue.ob_build_names), ('dialer_offers', tlsglue.ob_dial_name)]
    for n, f in obs:
        if only and not any(s in n for s in only):
            continue
        f(report, PROP)
    report.extra['mir_sha'] = mirdump.mir_sha('anemo')


def replay(path):
    print(open(path).read())
    return 0
