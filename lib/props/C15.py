"""C15 - message size limits are exact, symmetric and confined to the RPC.
E1: the real codec returned by network_message_frame_codec (compiled tokio-util) for every
configured maximum / every 4-byte declared length; E2: both stream ends are built from the
network's own configuration, senders add no refusal of their own."""
import re, z3
from common import *
import kani, e2, mirdump
from e2 import *
from mirsym import models as MD
from props import rpcpath, C07_e2

PROP = 'C15'
SIZES_QUICK = [0, 1, 3, 8]
SIZES_THOROUGH = [0, 1, 2, 3, 4, 5, 8, 16]
C = ['network::wire::network_message_frame_codec', 'tokio_util::codec::length_delimited::{Builder,LengthDelimitedCodec}']


def kani_jobs(tier):
    jobs = [
        kani.KaniJob('wire', 'c15_decode_head_with_limit', 'for every configured maximum m and every 4-byte declared length n (> buffered): refused iff n > m; never a frame, never a panic', C,
                     {'inputs': 'm: usize (all), prefix: [u8;4] (all with n > 64)', 'unwind': 6}),
        kani.KaniJob('wire', 'c15_decode_head_unlimited', 'no maximum configured: no 4-byte declared length is refused on arrival', C, {'inputs': 'prefix: [u8;4] (all with n > 64)', 'unwind': 6}),
        kani.KaniJob('wire', 'c15_unlimited_codec_max', 'max_frame_size None => codec limit >= 2^32-1; Some(m) => exactly m', C, {'inputs': 'm: usize (all)'}),
    ]
    for n in (SIZES_QUICK if tier == 'quick' else SIZES_THOROUGH):
        jobs.append(kani.KaniJob('wire', f'c15_encode_limit_{n}', f'{n}-byte body: sender refuses iff {n} > m, else emits prefix+body intact', C, {'body_len': n, 'inputs': 'm: usize (all), body symbolic'}))
        jobs.append(kani.KaniJob('wire', f'c15_decode_limit_{n}', f'{n}-byte frame: receiver refuses iff {n} > m, else yields the body intact', C, {'body_len': n, 'inputs': 'm: usize (all), body symbolic'}))
    return jobs


NATIVE = {'c15_decode_head_unlimited': ('verif_replay_c15_unlimited_decode', 'max_frame_size=None:declared-length>8MiB:refused'),
          'c15_unlimited_codec_max': ('verif_replay_c15_unlimited_encode', 'max_frame_size=None:body>8MiB:refused-by-sender')}


def replay_kani(o, job, scratch, out):
    """native confirmation of a Kani counterexample on the real (dev) build"""
    os.makedirs(REPLAY_DIR, exist_ok=True)
    p = os.path.join(REPLAY_DIR, f'{PROP}-{job.harness}.txt')
    if job.harness in NATIVE:
        test, key = NATIVE[job.harness]
        res, log = kani.native_replay(PROP, 'wire', [test])
        with open(p, 'w') as f:
            f.write(f'Kani harness {job.harness} failed: {o.detail}\n\nnative replay `{test}` on the real build: {res}\n\n{log[-4000:]}\n\n--- CBMC report ---\n{out[-6000:]}')
        if res.get(test) == 'fail':
            o.key = key
        elif res.get(test) == 'pass':
            o.status = 'inconclusive'
            o.detail = 'solver counterexample did not reproduce natively (encoding or stub is wrong?): ' + o.detail
        else:
            o.status = 'inconclusive'
            o.detail = 'native replay could not be built/run: ' + o.detail
    else:
        res, log = kani.native_replay(PROP, 'wire', ['verif_replay_c15_boundary'])
        with open(p, 'w') as f:
            f.write(f'Kani harness {job.harness} failed: {o.detail}\n\nnative boundary replay: {res}\n{log[-3000:]}\n\n--- CBMC report ---\n{out[-6000:]}')
        o.key = f'{job.harness}'
    o.replay = p
    kf = known_finding_for(PROP, o.key) if o.status == 'violated' else None
    if kf:
        o.status = 'known'


def codec_models():
    """tokio-util's LengthDelimitedCodec builder as a record of the calls made on it: the codec handed to FramedRead/FramedWrite
    carries every builder call (name, argument) that shaped it, through whatever helper built it"""
    def m_builder(ex, p, call, k):
        k(p, Sym(f'ldc_builder{p.seq("ldc_builder")}', 'length_delimited::Builder').with_ov('calls', ()))

    def m_set(ex, p, call, k):
        name = call.short.rsplit('::', 1)[-1]
        ptr = call.args[0]
        b = ex.deref(p, ptr)
        if not isinstance(b, Sym) or b.get_ov('calls') is None:
            raise Unmodelled(f'builder call {name} on {vrepr(b)}')
        arg = call.args[1] if len(call.args) > 1 else None
        p.events.append(Event('builder', name, (arg,)))
        ex.store(p, ptr, b.with_ov('calls', b.get_ov('calls') + ((name, arg),)))
        k(p, ptr)

    def m_new_codec(ex, p, call, k):
        b = ex.deref(p, call.args[0])
        if not isinstance(b, Sym) or b.get_ov('calls') is None:
            raise Unmodelled(f'new_codec on {vrepr(b)}')
        k(p, Sym(f'codec{p.seq("codec")}', 'LengthDelimitedCodec').with_ov('calls', b.get_ov('calls')))

    def m_default_codec(ex, p, call, k):
        k(p, Sym(f'codec{p.seq("codec")}', 'LengthDelimitedCodec').with_ov('calls', ()))

    def m_clone(ex, p, call, k):
        k(p, ex.deref(p, call.args[0]))

    def m_framed(ex, p, call, k):
        kind = 'write' if 'FramedWrite' in call.short else 'read'
        p.events.append(Event('framed', kind, (call.args[0], call.args[1])))
        k(p, Sym(f'framed_{kind}{p.seq("framed")}', call.retty))
    def m_wire_io(ex, p, call, k):
        # what is written / read through the framed streams is not this obligation's subject (C07 decides it): opaque futures
        ex.opaque_call(p, call, k)
    B = r'length_delimited::Builder::'
    return [(r'(^|::)(write_request|write_response|read_request|read_response|write_version_frame|read_version_frame)$', m_wire_io),(r'LengthDelimitedCodec::builder$|' + B + r'new$', m_builder),
            (B + r'(max_frame_length|length_field_length|length_field_type|length_field_offset|length_adjustment|num_skip|big_endian|little_endian|native_endian)(::<.*>)?$', m_set),
            (B + r'new_codec$', m_new_codec), (r'LengthDelimitedCodec::new$', m_default_codec),
            (r'<LengthDelimitedCodec as (std::clone::)?Clone>::clone$|<length_delimited::Builder as (std::clone::)?Clone>::clone$', m_clone),
            (r'Framed(Read|Write)::(new|with_capacity)$', m_framed)]


U32MAX = (1 << 32) - 1


def codec_verdict(ex, r, codec, own_d, own_v):
    """None if `codec` is 'u32 big-endian length prefix, no offsets, limit = own max_frame_size (None = no limit the prefix can express)'
    on path r; otherwise (kind, text) with kind in {'violated', 'inconclusive'}"""
    calls = codec.get_ov('calls') if isinstance(codec, Sym) else None
    if calls is None:
        return 'inconclusive', f'the codec {vrepr(codec)} is not built by a LengthDelimitedCodec builder this obligation can follow'
    names = [n for n, _ in calls]
    lf = [a for n, a in calls if n in ('length_field_length', 'length_field_type')]
    if any(n in names for n in ('little_endian', 'native_endian', 'length_adjustment', 'length_field_offset', 'num_skip')) or 'length_field_type' in names:
        return 'violated', f'frame codec is not "4-byte big-endian length prefix, no offset/adjustment": builder calls {names}'
    if len(lf) != 1 or not isinstance(lf[0], z3.ExprRef) or e2.solve(r.pc + [lf[0] != 4], want_model=False)[0] != 'unsat':
        return 'violated', f'frame codec is not "4-byte big-endian length prefix, no offset/adjustment": builder calls {names}'
    mf = [a for n, a in calls if n == 'max_frame_length']
    if not mf:
        return 'violated', 'the codec keeps tokio-util\'s default limit (8 MiB): the configured max_frame_size is not applied'
    lim = mf[-1]
    if not isinstance(lim, z3.ExprRef):
        return 'inconclusive', f'max_frame_length({vrepr(lim)})'
    if e2.solve(r.pc + [own_d == 1, lim != own_v], want_model=False)[0] != 'unsat':
        if not any(str(own_v) == str(x) or str(own_d) == str(x) for x in e2.z3vars(lim) + [y for c in r.pc for y in e2.z3vars(c)]) and not z3.is_bv_value(z3.simplify(lim)):
            return 'inconclusive', f'the limit {vrepr(lim)} does not visibly stem from the own configuration\'s max_frame_size (different representation?)'
        return 'violated', f'the configured max_frame_size (Some(m)) is not what the codec enforces: max_frame_length({vrepr(z3.simplify(lim))})'
    if e2.solve(r.pc + [own_d == 0, z3.ULT(lim, z3.BitVecVal(U32MAX, 64))], want_model=False)[0] != 'unsat':
        return 'violated', f'max_frame_size = None (no limit) still enforces a limit below what the 4-byte prefix can express: max_frame_length({vrepr(z3.simplify(lim))})'
    return None


def ob_codec_wiring(report):
    def body(ob):
        exs, total = [], 0

        def bad(ex, kind, detail, key, r):
            if kind == 'inconclusive':
                return ob.done(exs, 'inconclusive', detail, paths=total)
            o = ob.done(exs, 'violated', detail, path_summary(r) if r else {}, key=key, paths=total)
            o.replay = write_replay(PROP, 'codec_wiring', {'detail': detail})
            return o
        cidx = struct_fields('crates/anemo/src/config.rs', 'Config').index('max_frame_size')
        # caller side
        ex = e2.executor('anemo', codec_models(), max_depth=3)
        exs.append(ex)
        parent = find_method(ex.prog, 'Peer', 'do_rpc')
        fn = find_closure(ex.prog, parent, [0])
        p, args = coroutine_start(ex, fn)
        res = ex.run(fn, args, p)
        total += len(res)
        pf = struct_fields('crates/anemo/src/network/peer.rs', 'Peer')
        own = f'{e2.upvar_base(ex, fn)}.{pf.index("config")}.deref.{cidx}'
        own_d, own_v = z3.BitVec(own + '.discr', 64), z3.BitVec(own + '@Some.0', 64)
        seen = 0
        for r in res:
            fr = [e for e in r.events if e.kind == 'framed']
            if not fr:
                continue
            seen += 1
            kinds = sorted(e.name for e in fr)
            if kinds != ['read', 'write']:
                return bad(ex, 'violated', f'do_rpc builds framed streams {kinds}, expected one writer and one reader', 'wiring-do_rpc-shape', r)
            for e in fr:
                v = codec_verdict(ex, r, e.args[1], own_d, own_v)
                if v:
                    return bad(ex, v[0], f'do_rpc, {e.name} side: {v[1]}', f'wiring-do_rpc-{e.name}', r)
        if not seen:
            return ob.done(exs, 'inconclusive', 'vacuity: do_rpc never builds framed streams', paths=total)
        # callee side
        ex2 = e2.executor('anemo', codec_models(), max_depth=3)
        exs.append(ex2)
        fn2 = find_method(ex2.prog, 'BiStreamRequestHandler', 'new')
        cfgs = [a for a in fn2.args if re.search(r'\bConfig\b', fn2.decl.get(a, ''))]
        lims = [a for a in fn2.args if re.fullmatch(r'(std::option::|core::option::)?Option<usize>', fn2.decl.get(a, '').strip())]
        if len(cfgs) != 1 and not (not cfgs and len(lims) == 1):
            return ob.done(exs, 'inconclusive', f'BiStreamRequestHandler::new takes neither exactly one configuration nor exactly one Option<usize> limit ({len(cfgs)}, {len(lims)})', paths=total)
        cell = ('H', 'cfg', 'config::Config')
        a2 = []
        for a in fn2.args:
            if cfgs and a == cfgs[0]:
                t = fn2.decl[a].strip()
                a2.append(Ptr(cell) if t.startswith('&') else Sym('cfg', 'config::Config'))
            elif not cfgs and a == lims[0]:
                a2.append(Sym('own_limit', 'std::option::Option<usize>'))       # the caller passes config.max_frame_size() itself
            else:
                a2.append(ex2.fresh('in_' + a.lstrip('_'), fn2.decl.get(a, '')))
        res2 = ex2.run(fn2, a2)
        total += len(res2)
        if cfgs:
            own_d2, own_v2 = z3.BitVec(f'cfg.{cidx}.discr', 64), z3.BitVec(f'cfg.{cidx}@Some.0', 64)
        else:
            own_d2, own_v2 = z3.BitVec('own_limit.discr', 64), z3.BitVec('own_limit@Some.0', 64)
        from props.rpcpath import framed_state_touched
        for r in res2:
            fr = [e for e in r.events if e.kind == 'framed']
            fs_ = framed_state_touched(r)
            if fs_:
                return bad(ex2, 'violated', f'BiStreamRequestHandler::new reaches into a framed stream\'s internal buffer/codec state ({fs_.split("::")[-1]}): every stream must start from an empty '
                           'buffer and the configured codec', 'wiring-handler-framed-state', r)
            if r.tag != 'return' or sorted(e.name for e in fr) != ['read', 'write']:
                return bad(ex2, 'violated', 'BiStreamRequestHandler::new does not build one writer and one reader', 'wiring-handler-shape', r)
            for e in fr:
                v = codec_verdict(ex2, r, e.args[1], own_d2, own_v2)
                if v:
                    return bad(ex2, v[0], f'BiStreamRequestHandler::new, {e.name} side: {v[1]}', f'wiring-handler-{e.name}', r)
        # the handler is constructed with the network's own config in InboundRequestHandler::start
        ob.done(exs, 'held', '', {'do_rpc_paths': len(res), 'handler_paths': len(res2)}, paths=total)
    o = guarded(report, 'codec_built_from_own_config', 'Peer::do_rpc and BiStreamRequestHandler::new: the codec given to the FramedWrite and the FramedRead of every stream is a '
                'LengthDelimitedCodec built with length_field_length(4), big endian, no offsets, and max_frame_length = the own configuration\'s max_frame_size '
                '(None => at least 2^32-1, all the prefix can express), through whatever helper builds it', ['Peer::do_rpc', 'BiStreamRequestHandler::new', 'network_message_frame_codec (inlined)'],
                {'inline_depth': 3, 'limit': 'all usize'}, body)
    o.claim = 'C15-codec-parameters'
    return o


def ob_codec_builder(report):
    def body(ob):
        ex = e2.executor('anemo', [], max_depth=2)
        fn = find_fn(ex.prog, r'^network_message_frame_codec$')
        cf = struct_fields('crates/anemo/src/config.rs', 'Config')
        idx = cf.index('max_frame_size')
        res = ex.run(fn, [Ptr(('H', 'cfg', 'config::Config'))])
        d = z3.BitVec(f'cfg.{idx}.discr', 64)
        v = z3.BitVec(f'cfg.{idx}@Some.0', 64)
        seen = set()
        for r in res:
            if r.tag != 'return':
                o = ob.done([ex], 'violated', f'network_message_frame_codec can {r.tag}', path_summary(r), key='builder-abnormal', paths=len(res))
                o.replay = write_replay(PROP, 'codec_builder', path_summary(r))
                return o
            calls = [e for e in r.events if e.kind == 'call']
            names = [e.name.rsplit('::', 1)[-1] for e in calls]
            mf = [e for e in calls if e.name.endswith('max_frame_length')]
            lf = [e for e in calls if e.name.endswith('length_field_length')]
            some = implied_(ex, r.pc, d == 1)
            none = implied_(ex, r.pc, d == 0)
            seen.add('some' if some else 'none' if none else '?')
            okl = len(lf) == 1 and isinstance(lf[0].args[1], z3.ExprRef) and z3.is_bv_value(z3.simplify(lf[0].args[1])) and z3.simplify(lf[0].args[1]).as_long() == 4
            if not okl or 'big_endian' not in names or 'new_codec' not in names or any(n in names for n in ('little_endian', 'native_endian', 'length_adjustment', 'length_field_offset', 'num_skip')):
                o = ob.done([ex], 'violated', f'frame codec is not "4-byte big-endian length prefix, no offset/adjustment": builder calls {names}', path_summary(r), key='builder-layout', paths=len(res))
                o.replay = write_replay(PROP, 'codec_builder', path_summary(r))
                return o
            if some:
                if len(mf) != 1 or not isinstance(mf[0].args[1], z3.ExprRef) or e2.solve(r.pc + [mf[0].args[1] != v], want_model=False)[0] != 'unsat':
                    o = ob.done([ex], 'violated', 'configured max_frame_size is not passed unchanged to max_frame_length', path_summary(r), key='builder-max', paths=len(res))
                    o.replay = write_replay(PROP, 'codec_builder', path_summary(r))
                    return o
        if seen != {'some', 'none'}:
            return ob.done([ex], 'inconclusive', f'vacuity: {seen}', paths=len(res))
        ob.done([ex], 'held', '', {'paths': len(res)}, paths=len(res))
    o = guarded(report, 'codec_builder_calls', 'network_message_frame_codec: length_field_length(4), big_endian, no offsets; Some(m) => max_frame_length(m) exactly',
                ['network_message_frame_codec', 'Config::max_frame_size'], {'inline_depth': 2}, body)
    o.claim = 'C15-codec-parameters'       # the same parameters are decided end to end by codec_built_from_own_config when the helper has another shape
    return o


def implied_(ex, pc, c):
    ex.queries += 1
    return e2.solve(list(pc) + [z3.Not(c)], want_model=False)[0] == 'unsat'


def ob_no_extra_refusal(report, fname):
    """the senders refuse only what the codec refuses: every Err path of write_* stems from the
    preamble write or from a frame send (the codec's own limit check)"""
    def body(ob):
        ex, fn, res = C07_e2.run(fname)
        n_err = 0
        for r in res:
            if not C07_e2.is_ready_err(r):
                continue
            n_err += 1
            pcs = ' '.join(str(z3.simplify(c)).replace('\n', ' ') for c in r.pc)
            io = re.findall(r'poll\((wv_future|send_future\d)\)#1\.discr == 1|1 == poll\((wv_future|send_future\d)\)#1\.discr', pcs)
            if not io:
                # an error produced by write_* itself: it must be implied by size > configured maximum
                lens = sorted(set(re.findall(r'len\([^()]*(?:\([^()]*\))*[^()]*\)|max_frame_length\([^)]*\)[#\d]*', pcs)))
                # a pre-check that refuses exactly the frames the codec would refuse (size > max) is fine
                consts = {}

                def walk(e):
                    if z3.is_const(e) and e.decl().kind() == z3.Z3_OP_UNINTERPRETED and z3.is_bv(e):
                        consts[str(e)] = e
                    for c in e.children():
                        walk(c)
                for c in r.pc:
                    walk(c)
                ls = [v for k_, v in consts.items() if k_.startswith('len(')]
                ms = [v for k_, v in consts.items() if k_.startswith('max_frame_length(')]
                if len(ls) == 1 and len(ms) == 1 and ls[0].size() == ms[0].size():
                    if e2.solve(list(r.pc) + [z3.Not(z3.UGT(ls[0], ms[0]))], want_model=False)[0] == 'unsat':
                        continue
                o = ob.done([ex], 'violated', f'{fname} refuses a message on its own (not through the preamble write or a frame send): condition {pcs[:300]}',
                            path_summary(r, 20), key=f'{fname}-own-refusal', paths=len(res))
                o.replay = write_replay(PROP, o.name, {'path': path_summary(r, 20), 'sizes_in_condition': lens})
                return o
        if not n_err:
            return ob.done([ex], 'inconclusive', 'vacuity: no error path', paths=len(res))
        ob.done([ex], 'held', '', {'error_paths': n_err, 'paths': len(res)}, paths=len(res))
    return guarded(report, f'{fname}_refuses_only_via_codec', f'{fname}: every error comes from writing the preamble or from sending a frame through the configured codec '
                   '(no extra size check that could be off by one or one-sided)', [fname], {'inline_depth': 3}, body)


def check(report, tier, only=None):
    report.trusted += ['Kani 0.68/CBMC 6.11 over the compiled tokio-util LengthDelimitedCodec', 'stubs: Backtrace::capture, alloc::fmt::format', 'z3 5.1 for the MIR obligations']
    report.outside += ['that a refused message leaves the QUIC connection up', 'bodies > 16 bytes on the solver side (native replay covers 8 MiB + 1)', 'multi-MiB allocation behaviour']
    jobs = [j for j in kani_jobs(tier) if not only or any(s in j.harness for s in only)]
    if jobs:
        kani.build_and_run(PROP, ['wire', 'root'], jobs, report, replay_fn=replay_kani)
    obs = [('codec_built', ob_codec_wiring), ('codec_builder', ob_codec_builder),
           ('write_request_refuses', lambda rep: ob_no_extra_refusal(rep, 'write_request')), ('write_response_refuses', lambda rep: ob_no_extra_refusal(rep, 'write_response')),
           ('write_request_structure', lambda rep: C07_e2.ob_write(rep, 'request')), ('write_response_structure', lambda rep: C07_e2.ob_write(rep, 'response')),
           # a refusal by the sender's own codec is confined and prompt: do_rpc returns the error instead of waiting for a response
           ('sender_refusal_is_prompt', lambda rep: rpcpath.ob_do_rpc(rep, PROP)),
           # a refusal by the receiver's codec (an over-long frame is a decode error of that stream) stays confined to that RPC
           ('receiver_refusal_is_confined', lambda rep: __import__('props.C12', fromlist=['x']).ob_handle_no_connection_ops(rep, PROP)),
           # both frames of a message are read with the one configured codec (no frame gets a limit of its own)
           ('read_request_structure', lambda rep: C07_e2.ob_read(rep, 'request')), ('read_response_structure', lambda rep: C07_e2.ob_read(rep, 'response')),
           # a refused message costs the caller that RPC, not the connection: nothing but Network::disconnect removes a peer by id
           ('removal_entry_points', lambda rep: __import__('props.C04', fromlist=['x']).ob_removal_entry_points(rep))]
    for n, f in obs:
        if only and not any(s in n for s in only):
            continue
        f(report)
    report.extra['mir_sha'] = mirdump.mir_sha('anemo')


def replay(path):
    print(open(path).read())
    return 0
