"""C16 - routing delivers each request to exactly the matching service (dispatch logic; matchit trusted)."""
import re, z3
from common import *
import e2, mirdump
from e2 import *
from mirsym import models as MD
from mirsym.sym import derives_from
from mirsym import iters as IT

PROP = 'C16'
RM = 'crates/anemo/src/routing/mod.rs'


def viol(ob, exs, detail, key, sample, n):
    o = ob.done(exs, 'violated', detail, sample, key=key, paths=n)
    o.replay = write_replay(PROP, o.name, {'detail': detail, 'sample': sample})
    return o


def router_sym(p, name='router'):
    rf = struct_fields(RM, 'Router')
    mf = struct_fields(RM, 'RouteMatcher')
    vals = {'inner': Sym(name + '.matchit', 'matchit::Router<RouteId>'), 'route_id_to_path': Sym(name + '.id2path', 'HashMap<RouteId, Arc<str>>')}
    if 'path_to_route_id' in mf:       # reverse index: not needed by any behaviour the property talks about, bound only if it exists
        vals['path_to_route_id'] = Sym(name + '.path2id', 'HashMap<Arc<str>, RouteId>')
    matcher = struct_sym(name + '.matcher', 'RouteMatcher', mf, vals)
    r = struct_sym(name, 'Router', rf, {'routes': Sym(name + '.routes', 'BTreeMap<RouteId, Route>'), 'matcher': matcher, 'fallback': Sym(name + '.fallback', 'Route')})
    return r, rf, mf


def m_btree_as_map(pat):
    return [(pat.replace('HashMap', 'BTreeMap'), f) for pat, f in ()]


def ob_call(report):
    def body(ob):
        def m_dispatch(ex, p, call, k):
            p.events.append(Event('dispatch', 'Route::oneshot_inner', (ex.deref(p, call.args[0]), call.args[1])))
            k(p, Sym('oneshot', 'Oneshot'))

        def m_at(ex, p, call, k):
            p.events.append(Event('match', 'matchit::Router::at', (ex.deref(p, call.args[0]), ex.deref(p, call.args[1]))))
            k(p, Sym('matched', 'Result<matchit::Match<&RouteId>, matchit::MatchError>'))

        def m_route_of(ex, p, call, k):
            r = ex.deref(p, call.args[0])
            k(p, Ptr(('H', f'route({vname(r)})', 'str')))
        models = [(r'Route::oneshot_inner$', m_dispatch), (r'matchit::Router::at$', m_at), (r'Request::route$', m_route_of),
                  (r'BTreeMap::get$', MD.m_map_get)]
        ex = e2.executor('anemo', models, max_depth=3)
        fn = find_method(ex.prog, 'Router', 'call', trait='Service')
        p = Path()
        router, rf, mf = router_sym(p)
        p.mem[('H', 'router', 'Router')] = router
        res = ex.run(fn, [Ptr(('H', 'router', 'Router'), (), True), Sym('req', 'Request<Bytes>')], p)
        md = z3.BitVec('matched.discr', 64)
        seen = set()
        for r in res:
            ms = [e for e in r.events if e.kind == 'match']
            ds = [e for e in r.events if e.kind == 'dispatch']
            if r.tag == 'panic':
                # documented invariant: every id the matcher knows has a route (maintained by Router::route)
                tags = ' '.join(str(t) for t in r.path.tags)
                if ms and any('Not(has<router.routes>' in str(z3.simplify(c)) for c in r.pc):      # `.expect(..)` or `let .. else { panic!(..) }`: a matched id without a service (bookkeeping invariant of route()/merge())
                    seen.add('bookkeeping-expect')
                    continue
                return viol(ob, [ex], f'Router::call can panic on some route string / table: {r.path.tags}', 'call-panic', path_summary(r), len(res))
            if r.tag != 'return':
                return viol(ob, [ex], f'Router::call can {r.tag}', 'call-abnormal', path_summary(r), len(res))
            if len(ms) != 1 or vname(ms[0].args[0]) != 'router.matchit' or vname(ms[0].args[1]) != 'route(req)':
                return viol(ob, [ex], 'the matcher is not consulted exactly once with the request\'s route', 'call-match', path_summary(r), len(res))
            if len(ds) != 1 or vname(ds[0].args[1]) != 'req':
                return viol(ob, [ex], f'request handed to {len(ds)} services (exactly one must handle it, with the request itself)', 'call-dispatch-count', path_summary(r), len(res))
            if vname(r.ret) != 'oneshot':
                return viol(ob, [ex], 'the future returned is not the dispatched service\'s future', 'call-ret', path_summary(r), len(res))
            tgt = vname(ds[0].args[0])
            if e2.solve(r.pc + [md != 0], want_model=False)[0] == 'unsat':
                seen.add('match')
                want = 'router.routes[matched@Ok.0.0.*]' if False else None
                if not re.fullmatch(r'router\.routes\[.*matched@Ok\.0.*\]', tgt):
                    return viol(ob, [ex], f'matched request dispatched to {tgt}, not to routes[id returned by the matcher]', 'call-match-target', path_summary(r), len(res))
            else:
                seen.add('nomatch')
                if tgt != 'router.fallback':
                    return viol(ob, [ex], f'unmatched route (match error) dispatched to {tgt}, not to the NotFound fallback', 'call-fallback', path_summary(r), len(res))
        # all three MatchError variants (and Ok) are covered: union of path conditions is total
        cover = z3.Or([r.path.cond() for r in res])
        if e2.solve([z3.ULT(md, 2), z3.ULT(z3.BitVec('matched@Err.0.discr', 64), 3), z3.Not(cover)], want_model=False)[0] != 'unsat':
            return viol(ob, [ex], 'some matcher outcome is not handled', 'call-total', {}, len(res))
        if not {'match', 'nomatch'} <= seen:
            return ob.done([ex], 'inconclusive', f'vacuity: {seen}', paths=len(res))
        ob.done([ex], 'held', '', {'paths': len(res), 'cases': sorted(seen)}, paths=len(res))
    return guarded(report, 'dispatch', 'Router::call: matcher consulted once with the request\'s route; Ok(id) -> routes[id] gets the request (exactly one dispatch); every match error '
                   '-> the fallback; no panic for any route string (matchit itself trusted)', ['<Router as Service>::call', 'RouteMatcher::at'], {'inline_depth': 3}, body)


def ob_fallback_notfound(report):
    def body(ob):
        ex = e2.executor('anemo', [], max_depth=3)
        fn = find_method(ex.prog, 'Router', 'new')
        res = ex.run(fn, [])
        rf = struct_fields(RM, 'Router')
        for r in res:
            fb = r.ret.fields[rf.index('fallback')] if isinstance(r.ret, Agg) else None
            if r.tag != 'return' or fb is None or not derives_from(fb, lambda v: (isinstance(v, Agg) and v.name == 'NotFound') or (isinstance(v, Const) and 'NotFound' in v.text)):
                return viol(ob, [ex], f'Router::new does not install NotFound as fallback: {vrepr(fb)}', 'fallback-new', path_summary(r), len(res))
        ex2 = e2.executor('anemo', [], max_depth=3)
        fn2 = find_method(ex2.prog, 'NotFound', 'call', trait='Service')
        res2 = ex2.run(fn2, [])
        ok = False
        for r in res2:
            if r.tag != 'return':
                return viol(ob, [ex, ex2], f'NotFound::call can {r.tag}', 'fallback-abnormal', path_summary(r), len(res2))
            if 'NotFound' not in ' '.join(repr(e) for e in r.events) + vrepr(r.ret) and not derives_from(r.ret, lambda v: isinstance(v, Agg) and v.variant == 'NotFound'):
                return viol(ob, [ex, ex2], 'NotFound service does not answer with status NotFound', 'fallback-status', path_summary(r), len(res2))
            ok = True
        if not ok:
            return ob.done([ex, ex2], 'inconclusive', 'no path', paths=len(res2))
        ob.done([ex, ex2], 'held', '', {'paths': len(res) + len(res2)}, paths=len(res) + len(res2))
    return guarded(report, 'fallback_is_not_found', 'Router::new installs the NotFound service as fallback; it answers StatusCode::NotFound', ['Router::new', '<NotFound as Service>::call'], {}, body)


def _plain_full_iteration(ex, p, it, coll_name):
    """the abstract iterator visits every element of collection `coll_name` (no filter / take / skip stage)"""
    src, mode, stages, _ = IT.parts(it)
    c = IT._coll(ex, p, src)
    return vname(c) == coll_name and all(st.variant in ('deref', 'map', 'enumerate') for st in stages)


def ob_route_layer(report):
    def body(ob):
        ex = e2.executor('anemo', IT.ITER_MODELS + [(r'BTreeMap::insert$', MD.m_map_insert)], max_depth=4, unroll=2)
        fn = find_method(ex.prog, 'Router', 'route_layer')
        p = Path()
        router, rf, mf = router_sym(p)
        res = ex.run(fn, [router, Sym('layer', 'L')], p)
        n = n_items = 0
        for r in res:
            if r.tag == 'loop-bound':
                continue
            if r.tag != 'return' or not (isinstance(r.ret, Agg) and r.ret.name == 'Router'):
                return viol(ob, [ex], f'route_layer returns {vrepr(r.ret)} / {r.tag}', 'layer-ret', path_summary(r), len(res))
            routes, matcher, fallback = (r.ret.fields[rf.index(x)] for x in ('routes', 'matcher', 'fallback'))
            if vname(fallback) != 'router.fallback':
                return viol(ob, [ex], f'route_layer changes the fallback ({vrepr(fallback)}): a route layer must apply to exactly the routes registered before it, never to unmatched requests',
                            'layer-fallback', path_summary(r), len(res))
            if vname(matcher) != 'router.matcher':
                return viol(ob, [ex], 'route_layer changes the matcher', 'layer-matcher', path_summary(r), len(res))
            # the new table: either collected from a pipeline over the old routes, or filled by a loop over them
            evs = r.events
            flows = []          # (source element, key, value) put into the new table
            its = []
            pipeline = routes.get_ov('collected') if isinstance(routes, Sym) else None
            if pipeline is not None:
                its.append(pipeline)
                for e in evs:
                    if e.kind == 'collect-item' and vname(e.args[2]) == vname(routes):
                        item = e.args[0]
                        if not (isinstance(item, Agg) and len(item.fields) == 2):
                            return viol(ob, [ex], f'route_layer collects {vrepr(item)[:120]}, not (id, route) pairs', 'layer-closure', path_summary(r), len(res))
                        flows.append((e.args[1], item.fields[0], item.fields[1]))
            elif isinstance(routes, Sym):
                for i, e in enumerate(evs):
                    if e.kind == 'next' and e.name == 'None':
                        its.append(e.args[0])
                    if e.kind == 'next' and e.name == 'Some' and e.args[0] is not None:
                        its.append(e.args[2])
                        rest = evs[i + 1:]
                        nxt = next((jx for jx, x in enumerate(rest) if x.kind == 'next'), len(rest))
                        ins = [x for x in rest[:nxt] if x.kind == 'map' and x.name == 'insert' and x.args[0].s == routes.name]
                        if len(ins) != 1:
                            return viol(ob, [ex], f'an existing route is put into the new table {len(ins)} times (must be exactly once)', 'layer-routes-source', path_summary(r), len(res))
                        flows.append((e.args[1], ins[0].args[1], ins[0].args[2]))
                if routes.name == 'router.routes' and not [x for x in evs if x.kind == 'map']:
                    return viol(ob, [ex], 'route_layer returns the old route table unchanged (no route is layered)', 'layer-routes-source', path_summary(r), len(res))
            if not its or not all(_plain_full_iteration(ex, r.path, it, 'router.routes') for it in its):
                return viol(ob, [ex], 'the new route table is not built by mapping every existing route', 'layer-routes-source', path_summary(r), len(res))
            for e0, key, val in flows:
                if not (isinstance(e0, Agg) and len(e0.fields) == 2):
                    return viol(ob, [ex], f'source element is {vrepr(e0)[:100]}', 'layer-closure', path_summary(r), len(res))
                id0, route0 = e0.fields
                ly = [e for e in evs if e.kind == 'call' and re.search(r'as Layer>::layer$', e.name) and vname(e.args[1]) == vname(route0)]
                okc = vrepr(key) == vrepr(id0) and len(ly) == 1 and vname(ex.deref(r.path, ly[0].args[0]) if isinstance(ly[0].args[0], Ptr) else ly[0].args[0]) == 'layer' \
                    and derives_from(val, lambda v: isinstance(v, Sym) and v.name == vname(ly[0].ret))
                if not okc:
                    return viol(ob, [ex], f'route_layer does not rebuild each route as (same id, Route::new(layer.layer(route))): ({vrepr(key)[:60]}, {vrepr(val)[:160]})', 'layer-closure',
                                path_summary(r), len(res))
                n_items += 1
            n += 1
        if not n or not n_items:
            return ob.done([ex], 'inconclusive', f'vacuity: paths={n} layered elements={n_items}', paths=len(res))
        ob.done([ex], 'held', '', {'paths': len(res), 'elements_checked': n_items}, paths=len(res))
    return guarded(report, 'route_layer_scope', 'route_layer: every existing route becomes (same id, layer(route)); matcher and fallback are unchanged, so unmatched requests and later routes are not layered',
                   ['Router::route_layer', 'Router::route_layer::{closure}'], {'inline_depth': 4, 'iteration': 'one generic element per pipeline / 2 loop unrollings'}, body)


def ob_route_and_merge(report):
    def body(ob):
        # --- route(): matcher.insert(path, id) and routes.insert(id, service) with the same fresh id
        def m_next_id(ex, p, call, k):
            k(p, Agg('RouteId', None, (z3.BitVec(f'fresh_id{p.seq("rid")}', 32),), 'ctor'))

        def m_minsert(ex, p, call, k):
            p.events.append(Event('matchit-insert', 'matchit::Router::insert', (ex.deref(p, call.args[0]), ex.deref(p, call.args[1]), call.args[2])))
            k(p, Sym(f'minsert{p.seq("mi")}', 'Result<(), matchit::InsertError>'))

        def m_try_downcast(ex, p, call, k):
            k(p, Sym('downcast', 'Result<Route, T>'))

        def m_route_new(ex, p, call, k):
            k(p, Sym(f'Route::new({vname(call.args[0])})', 'Route').with_ov('from', ('Route::new', (call.args[0],))))

        def m_is_some(ex, p, call, k):
            k(p, z3.Bool('service_is_router'))
        models = [(r'RouteId::next$', m_next_id), (r'matchit::Router::insert$', m_minsert), (r'(^|::)try_downcast$', m_try_downcast), (r'Route::new$', m_route_new),
                  (r'BTreeMap::insert$', MD.m_map_insert), (r'downcast_ref$', lambda ex, p, call, k: k(p, Sym('dc', 'Option<&Router>').with_ov('discr', z3.If(z3.Bool('service_is_router'), z3.BitVecVal(1, 64), z3.BitVecVal(0, 64)))))]
        ex = e2.executor('anemo', models, max_depth=3)
        fn = find_method(ex.prog, 'Router', 'route')
        p = Path()
        router, rf, mf = router_sym(p)
        p.mem[('H', 'path', 'str')] = Sym('path', 'str')
        res = ex.run(fn, [router, Ptr(('H', 'path', 'str')), Sym('service', 'T')], p)
        n_ok = 0
        for r in res:
            mi = [e for e in r.events if e.kind == 'matchit-insert']
            maps = [e for e in r.events if e.kind == 'map']
            if r.tag in ('panic', 'diverge'):
                continue          # documented panics: empty path, no leading '/', Router as service, invalid/conflicting pattern
            if r.tag != 'return':
                continue
            n_ok += 1
            ids = {str(e.args[2].fields[0]) if isinstance(e.args[2], Agg) else vrepr(e.args[2]) for e in mi}
            if len(mi) != 1 or vname(mi[0].args[0]) != 'router.matchit':
                return viol(ob, [ex], 'route() does not register the pattern in the matcher exactly once', 'route-matcher', path_summary(r), len(res))
            byname = {}
            for e in maps:
                byname.setdefault(e.args[0].s, []).append(e)
            rid = mi[0].args[2]
            def same_id(x):
                return vrepr(x) == vrepr(rid)
            ok = (len(byname.get('router.routes', [])) == 1 and same_id(byname['router.routes'][0].args[1])
                  and len(byname.get('router.id2path', [])) == 1 and same_id(byname['router.id2path'][0].args[1])
                  and all(same_id(e.args[2]) for e in byname.get('router.path2id', [])))
            if not ok:
                return viol(ob, [ex], f'route(): pattern, id->path and id->service are not all registered under the same fresh id: {[repr(e)[:90] for e in maps]}',
                            'route-bookkeeping', path_summary(r), len(res))
            svc = byname['router.routes'][0].args[2]
            if not derives_from(svc, lambda v: isinstance(v, Sym) and (v.name == 'service' or v.name.startswith('downcast'))):
                return viol(ob, [ex], f'route() stores {vrepr(svc)} instead of the given service', 'route-service', path_summary(r), len(res))
        if not n_ok:
            return ob.done([ex], 'inconclusive', 'no successful route() path', paths=len(res))
        # --- merge(): every (id, route) of the other router is re-registered through route() under its stored path
        def m_route(ex_, p_, call, k):
            p_.events.append(Event('re-register', 'Router::route', (call.args[0], ex_.deref(p_, call.args[1]), call.args[2])))
            k(p_, Sym(f'merged{p_.seq("merged")}', 'Router'))

        def m_into(ex_, p_, call, k):
            k(p_, other)

        ex2 = e2.executor('anemo', [(r'routing::Router::route$|^Router::route$', m_route), (r'<R as Into>::into$', m_into)] + IT.ITER_MODELS + models, max_depth=4, unroll=2)
        fn2 = find_method(ex2.prog, 'Router', 'merge')
        p2 = Path()
        me, _, _ = router_sym(p2, 'router')
        other, _, _ = router_sym(p2, 'other')
        res2 = ex2.run(fn2, [me, Sym('other_arg', 'R')], p2)
        n_it = 0
        for r in res2:
            if r.tag == 'panic':
                continue      # documented expect: id without path is a bug
            evs = r.events
            for i, e in enumerate(evs):
                if e.kind == 'next' and e.name == 'Some' and e.args[0] is not None:
                    pair = e.args[0]
                    if not (_plain_full_iteration(ex2, r.path, e.args[2], 'other.routes') or _plain_full_iteration(ex2, r.path, e.args[2], 'other.id2path')) \
                            or not (isinstance(pair, Agg) and len(pair.fields) == 2):
                        return viol(ob, [ex, ex2], 'merge does not walk over every (id, route) of the other router', 'merge-iteration', path_summary(r), len(res2))
                    rest = evs[i + 1:]
                    nxt = next((j for j, x in enumerate(rest) if x.kind == 'next'), len(rest))
                    it = rest[:nxt]
                    rr = [x for x in it if x.kind == 're-register']
                    direct = [x for x in it if x.kind in ('matchit-insert', 'map')]
                    if r.tag == 'loop-bound' and not rr and nxt == len(rest):
                        continue
                    if not rr and direct:
                        # not through route(): the same complete registration done by another helper / in place - pattern, id->service and
                        # id->path under one fresh id, exactly as route() itself is required to do above
                        mi2 = [x for x in direct if x.kind == 'matchit-insert']
                        by2 = {}
                        for x in direct:
                            if x.kind == 'map':
                                by2.setdefault(x.args[0].s, []).append(x)
                        okd = len(mi2) == 1 and vname(mi2[0].args[0]) == 'router.matchit'
                        if okd:
                            rid2 = mi2[0].args[2]
                            okd = (len(by2.get('router.routes', [])) == 1 and vrepr(by2['router.routes'][0].args[1]) == vrepr(rid2)
                                   and len(by2.get('router.id2path', [])) == 1 and vrepr(by2['router.id2path'][0].args[1]) == vrepr(rid2)
                                   and all(vrepr(x.args[2]) == vrepr(rid2) for x in by2.get('router.path2id', []))
                                   and re.search(r'fresh_id', vrepr(rid2)) is not None)
                        if not okd:
                            return viol(ob, [ex, ex2], f'merge neither re-registers a route of the other router through Router::route nor performs a complete registration itself '
                                        f'({len(direct)} direct table updates: {[repr(x)[:70] for x in direct]}): bookkeeping of the merged router is incomplete', 'merge-reregister',
                                        path_summary(r), len(res2))
                        rr = [Event('re-register', 'direct', (None, mi2[0].args[1], by2['router.routes'][0].args[2]))]
                    if len(rr) != 1:
                        return viol(ob, [ex, ex2], f'merge does not re-register a route of the other router through Router::route (found {len(rr)} registrations, '
                                    f'{len(direct)} direct table updates): bookkeeping of the merged router is incomplete', 'merge-reregister', path_summary(r), len(res2))
                    pth, svc = rr[0].args[1], rr[0].args[2]
                    oid = vname(pair.fields[0]) if not isinstance(pair.fields[0], Agg) else str(pair.fields[0].fields[0])
                    if vname(svc) != vname(pair.fields[1]):
                        return viol(ob, [ex, ex2], f'merge registers {vrepr(svc)} instead of the other router\'s (possibly layered) route', 'merge-service', path_summary(r), len(res2))
                    if not ('other.id2path[' in vname(pth) and oid in vname(pth)):      # the stored path itself or a copy/conversion of it
                        return viol(ob, [ex, ex2], f'merge registers the route under {vrepr(pth)}, not under the path the other router stored for its id', 'merge-path', path_summary(r), len(res2))
                    n_it += 1
        if not n_it:
            return ob.done([ex, ex2], 'inconclusive', 'vacuity: no merge iteration analysed', paths=len(res) + len(res2))
        ob.done([ex, ex2], 'held', '', {'route_paths': len(res), 'merge_paths': len(res2), 'merge_iterations': n_it}, paths=len(res) + len(res2))
    return guarded(report, 'route_and_merge_bookkeeping', 'route(): pattern, id<->path and id->service registered together under one fresh id; merge(): every (id, route) of the other '
                   'router is re-registered via route() with that route (layers included) under the path stored for it', ['Router::route', 'RouteMatcher::insert', 'Router::merge'],
                   {'inline_depth': 3, 'loop_unroll': 2}, body)


def ob_add_rpc_service(report):
    def body(ob):
        def m_route(ex_, p_, call, k):
            p_.events.append(Event('register', 'Router::route', (call.args[0], ex_.deref(p_, call.args[1]), call.args[2])))
            k(p_, Sym('routed', 'Router'))

        def m_args(ex_, p_, call, k):
            lit = call.args[0]
            if not isinstance(lit, Bytes):
                return NotImplemented
            arr = ex_.deref(p_, call.args[1])
            args = [ex_.deref(p_, x) for x in (arr.fields if isinstance(arr, Agg) else [])]
            k(p_, decode_template(lit.b, args))

        def m_disp(ex_, p_, call, k):
            k(p_, ex_.deref(p_, call.args[0]))
        def m_concat(ex_, p_, call, k):
            # ["/", NAME, "/*rest"].concat() / .join(""): the same string algebra as format!
            arr = MD.as_array(ex_, p_, call.args[0]) if isinstance(call.args[0], Ptr) else (call.args[0] if isinstance(call.args[0], Agg) else None)
            if arr is None:
                return NotImplemented
            parts = []
            for x in arr.fields:
                for _ in range(3):
                    if isinstance(x, Ptr):
                        x = ex_.deref(p_, x)
                if isinstance(x, Str):
                    parts.append(z3.StringVal(x.s))
                elif isinstance(x, z3.ExprRef) and z3.is_string(x):
                    parts.append(x)
                else:
                    parts.append(z3.String(f'str({vname(x)})'))
            if call.short.rsplit('::', 1)[-1].startswith('join'):
                sep = call.args[1]
                for _ in range(3):
                    if isinstance(sep, Ptr):
                        sep = ex_.deref(p_, sep)
                if not (isinstance(sep, Str) and sep.s == ''):
                    return NotImplemented
            if not parts:
                return k(p_, z3.StringVal(''))
            k(p_, z3.Concat(*parts) if len(parts) > 1 else parts[0])
        models = [(r'(^|::)slice::(<impl[^>]*>::)?(concat|join)(::<.*>)?$|<\[&str\] as (\w+::)*(Concat|Join)<.*>>::(concat|join)$', m_concat),
                  (r'routing::Router::route$|^Router::route$', m_route), (r'Arguments::new$', m_args), (r'Argument::new_display$', m_disp),
                  (r'^format$|fmt::format$|must_use$', lambda ex_, p_, call, k: k(p_, call.args[0])),
                  (r'String as Deref>::deref$|String::as_str$', lambda ex_, p_, call, k: k(p_, ex_.deref(p_, call.args[0])))]
        ex = e2.executor('anemo', models, max_depth=2, strings=True)
        fn = find_method(ex.prog, 'Router', 'add_rpc_service')
        res = ex.run(fn, [Sym('router', 'Router'), Sym('service', 'S')])
        n = 0
        for r in res:
            if r.tag != 'return':
                return viol(ob, [ex], f'add_rpc_service can {r.tag}', 'rpc-abnormal', path_summary(r), len(res))
            rg = [e for e in r.events if e.kind == 'register']
            if len(rg) != 1 or vname(rg[0].args[0]) != 'router' or vname(rg[0].args[2]) != 'service':
                return viol(ob, [ex], 'add_rpc_service does not register the service itself on this router exactly once', 'rpc-register', path_summary(r), len(res))
            pth = rg[0].args[1]
            if not (isinstance(pth, z3.ExprRef) and z3.is_string(pth)):
                return ob.done([ex], 'inconclusive', f'registered pattern is not a decodable string: {vrepr(pth)}', paths=len(res))
            names = [c for c in _string_consts(pth)]
            if any(re.match(r'(concat|join|format|to_string|to_owned|from|into)\(', str(c)) for c in names):
                return ob.done([ex], 'inconclusive', f'the registered pattern is built by a call this obligation does not model: {str(names[0])[:60]}', paths=len(res))
            if len(names) != 1:
                return ob.done([ex], 'inconclusive', f'pattern depends on {names}', paths=len(res))
            sn = names[0]
            want = z3.Concat(z3.StringVal('/'), sn, z3.StringVal('/*rest'))
            q, m, _ = e2.solve([pth != want], 30000)
            ex.queries += 1
            if q != 'unsat':
                return viol(ob, [ex], f'RPC service registered under {z3.simplify(pth)} instead of "/" ++ SERVICE_NAME ++ "/*rest"', 'rpc-pattern', path_summary(r), len(res))
            n += 1
        if not n:
            return ob.done([ex], 'inconclusive', 'no path', paths=len(res))
        ob.done([ex], 'held', '', {'paths': len(res)}, paths=len(res))
    return guarded(report, 'rpc_service_prefix', 'add_rpc_service registers the service under "/" ++ S::SERVICE_NAME ++ "/*rest" (unbounded string, z3 sequence theory)',
                   ['Router::add_rpc_service'], {'strings': 'unbounded'}, body)


def _string_consts(e, acc=None):
    acc = [] if acc is None else acc
    if z3.is_const(e) and e.decl().kind() == z3.Z3_OP_UNINTERPRETED:
        if not any(z3.eq(e, x) for x in acc):
            acc.append(e)
    for c in e.children():
        _string_consts(c, acc)
    return acc


def decode_template(raw, args):
    """rustc's compact format_args template: 0x01-0x7f = literal run of that length, 0xc0 = next argument, 0x00 = end"""
    out, i, ai = [], 0, 0
    while i < len(raw):
        b = raw[i]
        if b == 0:
            break
        if b == 0xc0:
            a = args[ai] if ai < len(args) else None
            ai += 1
            if isinstance(a, z3.ExprRef) and z3.is_string(a):
                out.append(a)
            elif isinstance(a, Str):
                out.append(z3.StringVal(a.s))
            else:
                out.append(z3.String(f'str({vname(a)})'))
            i += 1
        elif b < 0x80:
            out.append(z3.StringVal(raw[i + 1:i + 1 + b].decode('utf-8', 'replace')))
            i += 1 + b
        else:
            raise Unmodelled('format template byte 0x%02x' % b)
    if not out:
        return z3.StringVal('')
    return z3.Concat(*out) if len(out) > 1 else out[0]


def check(report, tier, only=None):
    report.trusted += ['matchit::Router::{insert,at}: what it matches and that it never panics (out of reach under CBMC, DESIGN 0)', 'BTreeMap/HashMap as finite maps', 'z3 5.1 (sequence theory for the RPC prefix)']
    report.outside += ['which strings matchit matches to which pattern', 'tower BoxCloneService/oneshot plumbing']
    _C17 = __import__('props.C17', fromlist=['x'])
    # the last hop of dispatch: inside a generated server the request reaches the method whose full path equals the route, and no other string does
    for n, f in (('dispatch', ob_call), ('fallback', ob_fallback_notfound), ('route_layer', ob_route_layer), ('route_and_merge', ob_route_and_merge), ('rpc_service', ob_add_rpc_service),
                 ('generated_route_strings', _C17.ob_route_strings), ('generated_example', _C17.ob_generated_program)):
        if only and not any(s in n for s in only):
            continue
        f(report)
    report.extra['mir_sha'] = mirdump.mir_sha('anemo')


def replay(path):
    print(open(path).read())
    return 0
