"""C18 - per-peer in-flight limit holds and never leaks capacity (per-call obligations; tokio Semaphore trusted)."""
import re, z3
from common import *
import e2, mirdump
from e2 import *
from mirsym import models as MD

PROP = 'C18'
SRC = 'crates/anemo-tower/src/inflight_limit.rs'
ALLOWED_STATE_OPS = re.compile(r'(DashMap::(entry|len|is_empty|contains_key|get)|Ref::value|Entry::or_insert_with|RefMut::value|Semaphore::(new|acquire|try_acquire|acquire_owned|try_acquire_owned|available_permits)|as Clone>::clone|as Deref>::deref)$')
STATE_OPS = re.compile(r'(Semaphore|SemaphorePermit|DashMap|dashmap::|mapref::)')


def viol(ob, exs, detail, key, sample, n):
    o = ob.done(exs, 'violated', detail, sample, key=key, paths=n)
    o.replay = write_replay(PROP, o.name, {'detail': detail, 'sample': sample})
    return o


def upvar_index(ex, fn, pattern):
    ts = ex.upvar_types(fn)
    hits = [i for i, t in ts.items() if re.search(pattern, t)]
    if not hits:
        # the value may sit in a private newtype of the module (`PeerSemaphores(Arc<DashMap<..>>)`)
        for i, t in ts.items():
            head = re.sub(r'^(&(mut )?)?(\w+::)*', '', t.strip()).split('<')[0]
            try:
                fs = struct_fields(SRC, head)
            except Exception:
                continue
            if any(re.search(pattern, ft) for ft in fs.types):
                hits.append(i)
    if len(hits) != 1:
        raise NotFound(f'upvar matching {pattern}: {ts}')
    return hits[0]


def ob_call(report):
    def body(ob):
        sender = z3.BitVec('sender', 256)
        sems = {}

        def m_peer_id(ex, p, call, k):
            q = p.clone()
            has = z3.Bool('has_sender')
            p.pc.append(has)
            p.mem[('H', 'sender', 'PeerId')] = sender
            k(p, MD.some(Ptr(('H', 'sender', 'PeerId'))))
            q.pc.append(z3.Not(has))
            k(q, MD.NONE)

        def m_entry(ex, p, call, k):
            m = ex.deref(p, call.args[0])
            p.events.append(Event('entry', 'DashMap::entry', (m, call.args[1])))
            k(p, Sym(f'entry[{vname(m)},{vname(call.args[1])}]', 'Entry'))

        def m_or_insert_with(ex, p, call, k):
            ent = call.args[0]
            q = p.clone()
            q.pc = []
            outs = []
            saved = ex.results
            ex.results = []
            ex.call_closure(q, call.args[1], [], call, lambda q2, ret: outs.append((q2, ret)))
            ex.results = saved
            made = []
            for q2, ret in outs:
                for e in q2.events[len(p.events):]:
                    if e.kind == 'sem-new':
                        made.append(e.args[0])
            p.events.append(Event('or-insert', 'or_insert_with', (ent, tuple(made), len(outs))))
            p.mem[('H', f'slot({vname(ent)})', 'Arc<Semaphore>')] = Sym(f'sem({vname(ent)})', 'Arc<Semaphore>')
            k(p, Sym(f'slotref({vname(ent)})', 'RefMut').with_ov('cell', Ptr(('H', f'slot({vname(ent)})', 'Arc<Semaphore>'))))

        def m_or_insert(ex, p, call, k):
            # Entry::or_insert(value): the slot keeps the value already in the map, or takes `value`; what it returns is the slot of the map
            ent = call.args[0]
            made = tuple(e.args[0] for e in p.events if e.kind == 'sem-new')
            p.events.append(Event('or-insert', 'or_insert', (ent, made, 1)))
            p.mem[('H', f'slot({vname(ent)})', 'Arc<Semaphore>')] = Sym(f'sem({vname(ent)})', 'Arc<Semaphore>')
            k(p, Sym(f'slotref({vname(ent)})', 'RefMut').with_ov('cell', Ptr(('H', f'slot({vname(ent)})', 'Arc<Semaphore>'))))

        def m_get(ex, p, call, k):
            # DashMap::get(key): Some(reference to the slot of the map) | None
            m = ex.deref(p, call.args[0])
            key = ex.deref(p, call.args[1]) if isinstance(call.args[1], Ptr) else call.args[1]
            name = f'entry[{vname(m)},{vname(key)}]'
            q = p.clone()
            hit = z3.Bool(f'present({name})')
            p.pc.append(hit)
            p.events.append(Event('entry', 'DashMap::get', (m, key)))
            p.events.append(Event('lookup-hit', 'DashMap::get', (Sym(name, 'Entry'),)))
            p.mem[('H', f'slot({name})', 'Arc<Semaphore>')] = Sym(f'sem({name})', 'Arc<Semaphore>')
            k(p, MD.some(Sym(f'slotref({name})', 'Ref').with_ov('cell', Ptr(('H', f'slot({name})', 'Arc<Semaphore>')))))
            q.pc.append(z3.Not(hit))
            q.events.append(Event('lookup-miss', 'DashMap::get', (m, key)))
            k(q, MD.NONE)

        def _entry_base(ex, p, v):
            v = ex.deref(p, v) if isinstance(v, Ptr) else v
            return re.sub(r'@(Occupied|Vacant)\.0$', '', vname(v))

        def m_occ_get(ex, p, call, k):
            # explicit `match map.entry(k) { Occupied(o) => o.get() .. }`: the slot of the map
            name = _entry_base(ex, p, call.args[0])
            if not name.startswith('entry['):
                return NotImplemented
            p.events.append(Event('lookup-hit', 'OccupiedEntry::get', (Sym(name, 'Entry'),)))
            cell = ('H', f'slot({name})', 'Arc<Semaphore>')
            p.mem[cell] = Sym(f'sem({name})', 'Arc<Semaphore>')
            if call.short.endswith('into_ref'):
                return k(p, Sym(f'slotref({name})', 'RefMut').with_ov('cell', Ptr(cell)))
            k(p, Ptr(cell, (), 'mut' in call.short.rsplit('::', 1)[-1]))

        def m_vac_insert(ex, p, call, k):
            name = _entry_base(ex, p, call.args[0])
            if not name.startswith('entry['):
                return NotImplemented
            made = tuple(e.args[0] for e in p.events if e.kind == 'sem-new')
            p.events.append(Event('or-insert', 'VacantEntry::insert', (Sym(name, 'Entry'), made, 1)))
            cell = ('H', f'slot({name})', 'Arc<Semaphore>')
            p.mem[cell] = Sym(f'sem({name})', 'Arc<Semaphore>')
            k(p, Sym(f'slotref({name})', 'RefMut').with_ov('cell', Ptr(cell)))

        def m_value(ex, p, call, k):
            s = ex.deref(p, call.args[0])
            c = s.get_ov('cell') if isinstance(s, Sym) else None
            if c is None:
                return NotImplemented
            k(p, c)

        def m_sem_new(ex, p, call, k):
            p.events.append(Event('sem-new', 'Semaphore::new', (call.args[0],)))
            k(p, Sym('new_sem', 'Semaphore'))

        def m_acquire(ex, p, call, k):
            s = ex.deref(p, call.args[0]) if isinstance(call.args[0], Ptr) else call.args[0]      # &Semaphore | Arc<Semaphore> (acquire_owned)
            p.events.append(Event('acquire', 'Semaphore::acquire', (s,)))
            k(p, Sym(f'acquire_future({vname(s)})', 'Acquire'))

        def m_try_acquire(ex, p, call, k):
            s = ex.deref(p, call.args[0]) if isinstance(call.args[0], Ptr) else call.args[0]
            p.events.append(Event('try-acquire', 'Semaphore::try_acquire', (s,)))
            k(p, Sym(f'try({vname(s)})', 'Result<SemaphorePermit, TryAcquireError>'))

        def m_arc_deref(ex, p, call, k):
            a = ex.deref(p, call.args[0])
            if isinstance(a, Sym) and a.name.startswith('sem('):
                cell = ('H', a.name + '.sem', 'Semaphore')
                p.mem.setdefault(cell, Sym(a.name, 'Semaphore'))
                return k(p, Ptr(cell))
            return NotImplemented

        def m_inner_call(ex, p, call, k):
            p.events.append(Event('inner-call', 'Service::call', (ex.deref(p, call.args[0]), call.args[1])))
            k(p, Sym('inner_future', 'F'))
        models = [(r'Request::peer_id$', m_peer_id), (r'DashMap::entry$', m_entry), (r'Entry::or_insert_with$', m_or_insert_with), (r'Entry::or_insert$', m_or_insert), (r'DashMap::get$', m_get),
                  (r'OccupiedEntry::(get|get_mut|into_ref)$', m_occ_get), (r'VacantEntry::insert$', m_vac_insert),
                  (r'Ref(Mut)?::value$|<(\w+::)*Ref(Mut)? as Deref(Mut)?>::deref(_mut)?$', m_value),
                  (r'Semaphore::new$', m_sem_new), (r'Semaphore::acquire(_owned)?$', m_acquire), (r'Semaphore::try_acquire(_owned)?$', m_try_acquire),
                  (r'<Arc as Deref>::deref$', m_arc_deref), (r'<S as Service>::call$', m_inner_call)]
        ex = e2.executor('anemo-tower', models, max_depth=2)
        fn = find_method(ex.prog, 'InflightLimit', 'call', trait='Service')
        clo = find_closure(ex.prog, fn, [0])
        i_map = upvar_index(ex, clo, r'DashMap')
        try:
            i_max = upvar_index(ex, clo, r'^usize$')
        except NotFound:
            # the limit in a private newtype: the one upvar that is none of the others
            rest = [i for i, t in ex.upvar_types(clo).items() if not re.search(r'DashMap|WaitMode|Request<|^S$|Semaphore', t)]
            if len(rest) != 1:
                raise
            i_max = rest[0]
        i_mode = upvar_index(ex, clo, r'WaitMode')
        i_req = upvar_index(ex, clo, r'Request<')
        try:
            i_inner = upvar_index(ex, clo, r'^S$')
        except NotFound:
            # the limiter future does not own the wrapped service: was it already called outside, i.e. before any permit is held?
            futs = [t for t in ex.upvar_types(clo).values() if re.search(r'as (tower::)?Service<.*>>::Future$|::Future$', t)]
            if futs:
                return viol(ob, [ex], 'the wrapped service is called outside the limiter future (only its response future is awaited behind the semaphore): a service that starts '
                            'work in `call` runs refused and waiting requests without a permit', 'call-before-permit', {'upvars': {str(k_): v_[:80] for k_, v_ in ex.upvar_types(clo).items()}}, 0)
            raise
        p, args = coroutine_start(ex, clo)
        res = ex.run(clo, args, p)
        BLOCK, RETERR = ex.enums.index('WaitMode', 'Block'), ex.enums.index('WaitMode', 'ReturnError')
        NOPERMITS = ex.enums.index('TryAcquireError', 'NoPermits', 'tokio')
        mode = z3.BitVec(f'gen.{i_mode}.discr', 64)
        has = z3.Bool('has_sender')
        for r in res:
            evs = r.events
            # a reference into the shared table is a held shard lock (DashMap): it must be gone at every suspension point - a request parked on the
            # semaphore while holding it blocks, synchronously, the executor thread of the next request that touches the same shard
            if isinstance(r.ret, Agg) and r.ret.variant == 'Pending':
                created = [vname(e.args[0]) for e in evs if e.kind in ('or-insert', 'lookup-hit')]
                dropped = {vname(e.args[0]) for e in evs if e.kind == 'drop' and e.args}
                # released = the reference (RefMut/Ref) or the entry it came from (OccupiedEntry of an explicit match) has been dropped
                held = [f'slotref({c})' for c in created if f'slotref({c})' not in dropped and not any(d == c or d.startswith(c + '@') for d in dropped)]
                if held:
                    return viol(ob, [ex], f'the limiter future suspends (returns Pending) while still holding a reference into the shared semaphore table ({held[0]}): DashMap references are '
                                'shard locks - the next request hashing to that shard blocks its executor thread inside the map, so a peer that keeps requests queued stalls the runtime',
                                'call-guard-across-await', path_summary(r), len(res))
        seen = set()
        for r in res:
            if r.tag != 'return':
                return viol(ob, [ex], f'limiter future can {r.tag}', 'call-abnormal', path_summary(r), len(res))
            evs = r.events
            kinds = [e.kind for e in evs]
            ready = isinstance(r.ret, Agg) and r.ret.variant == 'Ready'
            ic = [i for i, e in enumerate(evs) if e.kind == 'inner-call']
            # unexpected operations on limiter state
            for e in evs:
                if e.kind == 'call' and STATE_OPS.search(e.name) and not ALLOWED_STATE_OPS.search(e.name):
                    return viol(ob, [ex], f'unexpected operation on the limiter state: {e.name} - permits/entries must only change through acquire and permit drop', 'call-state-op:' + e.name.split('::')[-1], path_summary(r), len(res))
            if e2.solve(r.pc + [has], want_model=False)[0] == 'unsat':
                seen.add('no-sender')
                if ic or 'entry' in kinds or not (ready and isinstance(r.ret.fields[0], Agg) and r.ret.fields[0].variant == 'Err'):
                    return viol(ob, [ex], 'request without sender identity is not refused up front', 'call-no-sender', path_summary(r), len(res))
                continue
            ent = [e for e in evs if e.kind == 'entry']
            if len(ent) != 1 or not re.fullmatch(re.escape(f'gen.{i_map}') + r'(\.0|\.\*)*\.deref(\.0)*', vname(ent[0].args[0])) or not (isinstance(ent[0].args[1], z3.ExprRef) and e2.solve(r.pc + [ent[0].args[1] != sender], want_model=False)[0] == 'unsat'):
                return viol(ob, [ex], f'the semaphore is not looked up in the layer\'s shared table under the request\'s own peer id: {[repr(e)[:120] for e in ent]}', 'call-key', path_summary(r), len(res))
            oi = [e for e in evs if e.kind == 'or-insert']
            hits = [e for e in evs if e.kind == 'lookup-hit']
            if hits and not oi:
                semname = f'sem({vname(hits[0].args[0])})'        # the peer's semaphore was found by a plain lookup: nothing to create
            else:
                if len(oi) != 1 or len(oi[0].args[1]) != 1 or not re.fullmatch(re.escape(f'gen.{i_max}') + r'(\.0)*', vname(oi[0].args[1][0])):
                    return viol(ob, [ex], f'a new peer\'s semaphore is not created with max_inflight permits: {[vrepr(x) for x in (oi[0].args[1] if oi else [])]}', 'call-capacity', path_summary(r), len(res))
                semname = f'sem({vname(oi[0].args[0])})'
            acq = [i for i, e in enumerate(evs) if e.kind in ('acquire', 'try-acquire')]
            if len(acq) != 1 or vname(evs[acq[0]].args[0]) != semname:
                return viol(ob, [ex], 'permit is not acquired exactly once from this peer\'s semaphore', 'call-acquire', path_summary(r), len(res))
            a = evs[acq[0]]
            is_block = e2.solve(r.pc + [mode != BLOCK], want_model=False)[0] == 'unsat'
            is_ret = e2.solve(r.pc + [mode != RETERR], want_model=False)[0] == 'unsat'
            if (a.kind == 'acquire') != is_block or (a.kind == 'try-acquire') != is_ret:
                return viol(ob, [ex], f'wait mode {"Block" if is_block else "ReturnError" if is_ret else "?"} uses {a.kind}', 'call-mode', path_summary(r), len(res))
            # got a permit?
            if a.kind == 'acquire':
                pl = [e for e in evs if e.kind == 'poll' and 'acquire_future' in vrepr(e.args[0])]
                ad = z3.BitVec(f'poll(acquire_future({semname}))#1.discr', 64)
                got = bool(pl) and isinstance(pl[-1].ret, Agg) and pl[-1].ret.variant == 'Ready' and e2.solve(r.pc + [ad != 0], want_model=False)[0] == 'unsat'
                pending_acq = bool(pl) and isinstance(pl[-1].ret, Agg) and pl[-1].ret.variant == 'Pending'
                permit_name = f'poll(acquire_future({semname}))#1@Ok.0'
            else:
                td = z3.BitVec(f'try({semname}).discr', 64)
                got = e2.solve(r.pc + [td != 0], want_model=False)[0] == 'unsat'
                pending_acq = False
                permit_name = f'try({semname})@Ok.0'
            drops = [i for i, e in enumerate(evs) if e.kind == 'drop' and 'SemaphorePermit' in str(e.name) and vname(e.args[0]) == permit_name]
            if not got:
                if ic:
                    return viol(ob, [ex], 'wrapped service invoked without a permit', 'call-no-permit-invocation', path_summary(r), len(res))
                if pending_acq:
                    seen.add('waiting')
                    continue
                if a.kind == 'try-acquire':
                    terr = z3.BitVec(f'try({semname})@Err.0.discr', 64)
                    if e2.solve(r.pc + [terr != NOPERMITS], want_model=False)[0] == 'unsat':
                        seen.add('refused')
                        st = vrepr(r.ret)
                        if 'TooManyRequests' not in st:
                            return viol(ob, [ex], f'no permit available in ReturnError mode answers {st[:120]}, not TooManyRequests', 'call-refusal-status', path_summary(r), len(res))
                if not (ready and isinstance(r.ret.fields[0], Agg) and r.ret.fields[0].variant == 'Err'):
                    return viol(ob, [ex], 'failed acquisition does not end in an error', 'call-acquire-failed', path_summary(r), len(res))
                continue
            if len(ic) != 1 or ic[0] < acq[0] or vname(evs[ic[0]].args[0]) != f'gen.{i_inner}' or vname(evs[ic[0]].args[1]) != f'gen.{i_req}':
                return viol(ob, [ex], 'with a permit held the wrapped service is not invoked exactly once (after acquisition, with the request)', 'call-invocation', path_summary(r), len(res))
            ip = [i for i, e in enumerate(evs) if e.kind == 'poll' and 'inner_future' in vrepr(e.args[0])]
            inner_ready = bool(ip) and isinstance(evs[ip[-1]].ret, Agg) and evs[ip[-1]].ret.variant == 'Ready'
            if not inner_ready:
                seen.add('inner-pending')
                if drops:
                    return viol(ob, [ex], 'the permit is released while the wrapped service is still running', 'call-early-release', path_summary(r), len(res))
                continue
            seen.add('completed')
            if len(drops) != 1 or drops[0] < ip[-1]:
                return viol(ob, [ex], f'after the wrapped service completed the permit is released {len(drops)} times / before completion (must be exactly once, after)', 'call-release', path_summary(r), len(res))
            if not (ready and 'inner_future' in vrepr(r.ret)):
                return viol(ob, [ex], 'the wrapped service\'s result is not returned', 'call-result', path_summary(r), len(res))
        need = {'no-sender', 'refused', 'inner-pending', 'completed', 'waiting'}
        if not need <= seen:
            return ob.done([ex], 'inconclusive', f'vacuity: {sorted(seen)}', paths=len(res))
        ob.done([ex], 'held', '', {'paths': len(res), 'cases': sorted(seen)}, paths=len(res))
    return guarded(report, 'permit_discipline', 'InflightLimit::call future: semaphore = shared_table[request.peer_id] created with max_inflight permits; Block -> acquire().await, '
                   'ReturnError -> try_acquire (NoPermits => TooManyRequests, service not called); service called once only while holding the permit; permit released exactly once, '
                   'only after the service future completed (never while pending); no other operation touches permits or table entries', ['InflightLimit::call::{async block}'],
                   {'inline_depth': 2, 'poll outcomes': 'symbolic', 'tokio Semaphore': 'contract'}, body)


def ob_layer(report):
    def body(ob):
        ex = e2.executor('anemo-tower', [], max_depth=2)
        fn = find_method(ex.prog, 'InflightLimitLayer', 'layer', trait='Layer')
        lf = struct_fields(SRC, 'InflightLimitLayer')
        sf = struct_fields(SRC, 'InflightLimit')
        res = ex.run(fn, [Ptr(('H', 'layer', 'InflightLimitLayer')), Sym('inner', 'S')])
        for r in res:
            ret = r.ret
            ok = r.tag == 'return' and isinstance(ret, Agg) and all(vname(ret.fields[sf.index(f)]) == f'layer.{lf.index(f)}' for f in ('inflight', 'max_inflight', 'wait_mode')) \
                and vname(ret.fields[sf.index('inner')]) == 'inner'
            if not ok:
                return viol(ob, [ex], f'InflightLimitLayer::layer does not share the layer\'s table / limit / mode with the service: {vrepr(ret)[:200]}', 'layer-share', path_summary(r), len(res))
        # call() hands exactly these to the future
        fn2 = find_method(ex.prog, 'InflightLimit', 'call', trait='Service')
        res2 = ex.run(fn2, [Ptr(('H', 'svc', 'InflightLimit'), (), True), Sym('req', 'Request')])
        for r in res2:
            if r.tag != 'return':
                return viol(ob, [ex], f'InflightLimit::call can {r.tag}', 'call-outer-abnormal', path_summary(r), len(res2))
            caps = set()

            def grab(v):
                if isinstance(v, Sym):
                    caps.add(v.name)
                elif isinstance(v, z3.ExprRef) and z3.is_const(v):
                    caps.add(str(v))
                return False
            from mirsym.sym import derives_from
            derives_from(r.ret, grab, ex=ex, p=r.path)
            want = {f'svc.{sf.index("inflight")}', f'svc.{sf.index("max_inflight")}', 'req'}
            if not all(any(c == w or c.startswith(w) for c in caps) for w in want):
                return viol(ob, [ex], f'the limiter future does not capture the service\'s own table, limit and the request: captured {sorted(caps)[:10]}', 'call-captures', path_summary(r), len(res2))
        ob.done([ex], 'held', '', {'paths': len(res) + len(res2)}, paths=len(res) + len(res2))
    return guarded(report, 'shared_table_wiring', 'every service built by one layer shares that layer\'s semaphore table, limit and wait mode; call() passes them and the request to its future',
                   ['InflightLimitLayer::layer', 'InflightLimit::call'], {}, body)


def ob_constructors(report):
    """the limit that is enforced is the limit that was configured, and every clone of a limiter works on the same table: anemo clones the service stack
    once per inbound request, so a clone with a table of its own starts every request with full-capacity semaphores"""
    def body(ob):
        ex = e2.executor('anemo-tower', [], max_depth=2)
        lf = struct_fields(SRC, 'InflightLimitLayer')
        sf = struct_fields(SRC, 'InflightLimit')
        total = 0

        def field(ret, names, f):
            return e2.peel(ret.fields[names.index(f)]) if isinstance(ret, Agg) and f in names and names.index(f) < len(ret.fields) else None
        # clones share table, limit and mode
        for ty, names in (('InflightLimit', sf), ('InflightLimitLayer', lf)):
            gone = [f for f in ('inflight', 'max_inflight', 'wait_mode') if f not in names]
            if gone:
                return ob.done([ex], 'inconclusive', f'{ty} has no field(s) {gone}: table, limit and mode are kept differently in this tree', paths=total)
            try:
                fn = find_method(ex.prog, ty, 'clone', trait='Clone')
            except NotFound:
                return ob.done([ex], 'inconclusive', f'{ty} has no Clone impl in the crate', paths=total)
            res = ex.run(fn, [])
            total += len(res)
            for r in res:
                if r.tag != 'return':
                    return viol(ob, [ex], f'<{ty} as Clone>::clone can {r.tag}', 'clone-abnormal', path_summary(r), total)
                for f in ('inflight', 'max_inflight', 'wait_mode'):
                    v = field(r.ret, names, f)
                    if v is None or not re.fullmatch(re.escape(f'in_1.*.{names.index(f)}') + r'(\.0|\.\*|\.deref)*', vname(v)):
                        what = 'a clone works on a semaphore table of its own: the per-peer limit is not enforced across the per-request clones of the service' if f == 'inflight' else f'a clone does not keep `{f}`'
                        return viol(ob, [ex], f'<{ty} as Clone>::clone: field `{f}` of the clone is {vrepr(v)[:60]}, not the original\'s ({what})', f'clone-{f}', path_summary(r), total)
        # constructors store the configured limit and mode unchanged
        for ty, names, meth, nlead in (('InflightLimitLayer', lf, 'new', 0), ('InflightLimit', sf, 'new', 1), ('InflightLimit', lf, 'layer', 0)):
            if meth not in methods_of(ex.prog, ty):
                continue
            fn = find_method(ex.prog, ty, meth)
            if len(fn.args) != nlead + 2:
                continue
            res = ex.run(fn, [])
            total += len(res)
            a_max = fn.args[nlead]
            maxv = z3.BitVec('in' + a_max, 64)
            for r in res:
                if r.tag != 'return':
                    return viol(ob, [ex], f'{ty}::{meth} can {r.tag} on some limit', f'ctor-abnormal:{meth}', path_summary(r), total)
                v = field(r.ret, names, 'max_inflight')
                if isinstance(v, z3.ExprRef) and z3.is_bv(v) and z3.is_const(v) and v.decl().kind() == z3.Z3_OP_UNINTERPRETED and str(v) != 'in' + a_max:
                    return ob.done([ex], 'inconclusive', f'{ty}::{meth}: the stored limit is the result of a call this executor does not model ({str(v)[:60]})', paths=total)
                if isinstance(v, z3.ExprRef) and z3.is_bv(v):
                    ex.queries += 1
                    # domain of the claim: limits tokio's Semaphore accepts (MAX_PERMITS = usize::MAX >> 3; Semaphore::new panics beyond it, here as on the pinned tree)
                    MAXP = z3.BitVecVal(((1 << 64) - 1) >> 3, 64)
                    dom = [z3.ULE(maxv, MAXP)] + [x == MAXP for x in e2.z3vars(v) if str(x).startswith('const:') and 'MAX_PERMITS' in str(x)]
                    q, m, _ = e2.solve(r.pc + dom + [v != maxv])
                    if q != 'unsat':
                        cex = m.eval(maxv, model_completion=True).as_long() if m is not None else None
                        got = m.eval(v, model_completion=True).as_long() if m is not None else None
                        sample = path_summary(r)
                        sample['counterexample'] = {'max_inflight': cex, 'stored': got}
                        return viol(ob, [ex], f'{ty}::{meth}(max_inflight = {cex}) stores {got} as the limit: the configured maximum is not what is enforced', f'ctor-limit:{meth}', sample, total)
                elif v is None or vname(v) != 'in' + a_max:
                    return ob.done([ex], 'inconclusive', f'{ty}::{meth}: stored limit {vrepr(v)[:60]} not understood', paths=total)
        ob.done([ex], 'held', '', {'paths': total}, paths=total)
    return guarded(report, 'constructors_and_clones', 'InflightLimit(Layer)::{new,layer} store max_inflight (all 2^64 values) unchanged; Clone of the layer and of the service share the table, limit and mode',
                   ['InflightLimitLayer::new', 'InflightLimit::new', 'InflightLimit::layer', '<InflightLimit as Clone>::clone', '<InflightLimitLayer as Clone>::clone'], {'limit': 'every usize tokio::sync::Semaphore accepts (<= usize::MAX >> 3)'}, body)


def check(report, tier, only=None):
    report.trusted += ['tokio::sync::Semaphore: at most `permits` outstanding permits, a dropped permit returns its slot', 'DashMap::entry().or_insert_with: one value per key', 'z3 5.1']
    report.outside += ['interleavings of concurrent requests (the bound follows from the per-call discipline + the semaphore contract; Kani does not handle concurrency)',
                       'cancellation: the permit is a field of the future, so dropping the future drops the permit (Rust drop semantics) - stated, not executed']
    from props import towerglue
    for n, f in (('permit', ob_call), ('shared_table', ob_layer), ('constructors', ob_constructors),
                 ('poll_ready', lambda rep: towerglue.ob_poll_ready_transparent(rep, PROP, 'InflightLimit', SRC))):
        if only and not any(s in n for s in only):
            continue
        f(report)
    report.extra['mir_sha'] = mirdump.mir_sha('anemo-tower')


def replay(path):
    print(open(path).read())
    return 0
