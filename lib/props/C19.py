"""C19 - per-peer rate limit admits no more than the quota (per-call obligations; governor's GCRA trusted)."""
import re, z3
from common import *
import e2, mirdump
from e2 import *
from mirsym import models as MD
from mirsym.sym import derives_from
from props.C18 import upvar_index

PROP = 'C19'
SRC = 'crates/anemo-tower/src/rate_limit.rs'


def viol(ob, exs, detail, key, sample, n):
    o = ob.done(exs, 'violated', detail, sample, key=key, paths=n)
    o.replay = write_replay(PROP, o.name, {'detail': detail, 'sample': sample})
    return o


def ob_call(report):
    def body(ob):
        sender = z3.BitVec('sender', 256)

        def m_peer_id(ex, p, call, k):
            q = p.clone()
            has = z3.Bool('has_sender')
            p.pc.append(has)
            p.mem[('H', 'sender', 'PeerId')] = sender
            k(p, MD.some(Ptr(('H', 'sender', 'PeerId'))))
            q.pc.append(z3.Not(has))
            k(q, MD.NONE)

        def m_until(ex, p, call, k):
            p.events.append(Event('limiter', 'until_key_ready', (ex.deref(p, call.args[0]), ex.deref(p, call.args[1]))))
            k(p, Sym('until_ready_future', 'UntilReady'))

        def m_check(ex, p, call, k):
            p.events.append(Event('limiter', 'check_key', (ex.deref(p, call.args[0]), ex.deref(p, call.args[1]))))
            k(p, Sym('verdict', 'Result<(), NotUntil>'))

        def m_inner_call(ex, p, call, k):
            p.events.append(Event('inner-call', 'Service::call', (ex.deref(p, call.args[0]), call.args[1])))
            k(p, Sym('inner_future', 'F'))

        def m_sleep(ex, p, call, k):
            p.events.append(Event('sleep', call.short, tuple(call.args)))
            k(p, Sym('sleep_future', 'Sleep'))
        models = [(r'Request::peer_id$', m_peer_id), (r'until_key_ready$', m_until), (r'check_key$', m_check), (r'<S as Service>::call$', m_inner_call),
                  (r'time::sleep$|sleep::sleep$|sleep_until$', m_sleep)]
        ex = e2.executor('anemo-tower', models, max_depth=2)
        fn = find_method(ex.prog, 'RateLimit', 'call', trait='Service')
        svc = struct_sym_deep('svc', 'RateLimit<S>', SRC, 'RateLimit', {'inner': Sym('inner', 'S'), 'limiter': Sym('limiter', 'Arc<RateLimiter>'),
                                                                       'clock': Sym('clock', 'QuantaClock'), 'wait_mode': Sym('wait_mode', 'WaitMode')})
        p0 = Path()
        p0.mem[('H', 'svc', 'RateLimit')] = svc
        outs = []
        ex.results = []

        def after_call(q, fut):
            # the boxed future: poll the async block that was pinned
            pins = [e for e in q.events if e.kind == 'call' and e.name.endswith('Box::pin')]
            if len(pins) != 1:
                raise Unmodelled('RateLimit::call does not return one boxed future')
            clo_v = pins[0].args[0]
            f2 = ex.closure_fn(clo_v)
            if f2 is None:
                raise Unmodelled('future body not found')
            q.events.append(Event('future-created', 'Box::pin', ()))
            cell = ('H', 'the_future', '')
            q.mem[cell] = clo_v
            ex.run_fn(f2, [Ptr(cell, (), True), Sym('cx', 'Context')], q, 0, lambda q2, ret: outs.append(Result(q2, ret, 'return')), 'fut')
        ex.run_fn(fn, [Ptr(('H', 'svc', 'RateLimit'), (), True), Sym('req', 'Request<B>')], p0, 0, after_call, 'call')
        res = outs + [r for r in ex.results if r.tag != 'return']
        i_lim = i_clk = i_mode = i_req = i_inner = None
        BLOCK, RETERR = ex.enums.index('WaitMode', 'Block'), ex.enums.index('WaitMode', 'ReturnError')
        mode = z3.BitVec('wait_mode.discr', 64)
        vd = z3.BitVec('verdict.discr', 64)
        has = z3.Bool('has_sender')
        seen = set()
        for r in res:
            if r.tag != 'return':
                if r.tag == 'panic' and any('overflow' in str(t) for t in r.path.tags):
                    continue      # arithmetic-overflow panics on unconstrained library values are not decided here
                return viol(ob, [ex], f'rate limiter future can {r.tag}', 'rl-abnormal', path_summary(r), len(res))
            evs = r.events
            ic = [i for i, e in enumerate(evs) if e.kind == 'inner-call']
            lim = [i for i, e in enumerate(evs) if e.kind == 'limiter']
            ready = isinstance(r.ret, Agg) and r.ret.variant == 'Ready'
            if e2.solve(r.pc + [has], want_model=False)[0] == 'unsat':
                seen.add('no-sender')
                if ic or lim or not (ready and isinstance(r.ret.fields[0], Agg) and r.ret.fields[0].variant == 'Err'):
                    return viol(ob, [ex], 'a request without sender identity is not refused up front', 'rl-no-sender', path_summary(r), len(res))
                continue
            if len(ic) > 1:
                return viol(ob, [ex], 'wrapped service called more than once', 'rl-double-call', path_summary(r), len(res))
            for i in lim:
                e = evs[i]
                def keyed_by_sender(kv):
                    # the key must be the whole 256-bit peer id of the request (a key of another width is a truncation / hash of it)
                    return isinstance(kv, z3.ExprRef) and z3.is_bv(kv) and kv.size() == 256 and e2.solve(r.pc + [kv != sender], want_model=False)[0] == 'unsat'
                if vname(e.args[0]) != 'limiter.deref' or not keyed_by_sender(e.args[1]):
                    return viol(ob, [ex], f'the limiter consulted / the key used is not (this layer\'s shared limiter, the request\'s own peer id): {vrepr(e.args[0])[:40]}, {vrepr(e.args[1])[:40]}',
                                'rl-key', path_summary(r), len(res))
            is_block = e2.solve(r.pc + [mode != BLOCK], want_model=False)[0] == 'unsat'
            is_ret = e2.solve(r.pc + [mode != RETERR], want_model=False)[0] == 'unsat'
            # was the request positively admitted by the limiter before the service was called?
            admitted_at = None
            for i in lim:
                e = evs[i]
                if e.name == 'until_key_ready':
                    pl = [j for j, x in enumerate(evs) if j > i and x.kind == 'poll' and 'until_ready_future' in vrepr(x.args[0]) and isinstance(x.ret, Agg) and x.ret.variant == 'Ready']
                    if pl:
                        admitted_at = pl[0]
                elif e.name == 'check_key' and e2.solve(r.pc + [vd != 0], want_model=False)[0] == 'unsat':
                    admitted_at = i
            if ic:
                seen.add('called')
                if admitted_at is None or ic[0] < admitted_at:
                    return viol(ob, [ex], 'the wrapped service is called without (or before) a positive decision of the limiter for this peer - e.g. after merely sleeping, or before the check',
                                'rl-call-not-admitted', path_summary(r), len(res))
                if vname(evs[ic[0]].args[0]) != 'inner' or vname(evs[ic[0]].args[1]) != 'req':
                    return viol(ob, [ex], 'the service is not called with the request itself', 'rl-call-args', path_summary(r), len(res))
            if is_block and lim and evs[lim[0]].name != 'until_key_ready':
                pass
            if is_ret and lim and e2.solve(r.pc + [vd != 1], want_model=False)[0] == 'unsat':
                seen.add('refused')
                if ic:
                    return viol(ob, [ex], 'a request over quota still reaches the wrapped service', 'rl-refused-called', path_summary(r), len(res))
                ret = r.ret.fields[0] if ready else None
                st = ret.fields[0] if isinstance(ret, Agg) and ret.variant == 'Err' else None
                if st is None or 'TooManyRequests' not in vrepr(st):
                    return viol(ob, [ex], f'a request over quota is answered {vrepr(ret)[:100]}, not TooManyRequests', 'rl-refused-status', path_summary(r), len(res))
                wh = [e for e in evs if e.kind == 'call' and e.name.endswith('Status::with_header')]
                if len(wh) != 1 or not (isinstance(wh[0].args[1], Str) and wh[0].args[1].s == 'wait-nanos'):
                    return viol(ob, [ex], 'the refusal carries no `wait-nanos` hint', 'rl-hint-missing', path_summary(r), len(res))
                # hint = decimal of wait_time_from(verdict error, clock.now()).as_nanos(), nothing in between
                an = [e for e in evs if e.kind == 'call' and e.name.endswith('Duration::as_nanos')]
                wt = [e for e in evs if e.kind == 'call' and e.name.endswith('wait_time_from')]
                nw = [e for e in evs if e.kind == 'call' and e.name.endswith('Clock>::now')]
                bad_units = [e for e in evs if e.kind == 'call' and re.search(r'Duration::(as_millis|as_secs|as_micros|subsec_\w+)$', e.name)]
                if len(an) != 1 or len(wt) != 1 or len(nw) != 1 or bad_units:
                    return viol(ob, [ex], f'the wait hint is not wait_time_from(now).as_nanos() (calls: {[e.name.split("::")[-1] for e in an + wt + nw + bad_units]}): a coarser unit rounds small waits to 0',
                                'rl-hint-units', path_summary(r), len(res))
                if vname(ex.deref(r.path, nw[0].args[0])) != 'clock':
                    return viol(ob, [ex], 'the wait hint is not computed from the limiter\'s own clock', 'rl-hint-clock', path_summary(r), len(res))
                plain = lambda v: (isinstance(v, Bytes) and v.b == b'\xc0\x00') or \
                    (isinstance(v, tuple) and len(v) == 2 and v[0] == 'call' and re.search(r'as ToString>::to_string$', str(v[1])) is not None)     # format!("{}", n) | n.to_string()
                if not derives_from(wh[0].args[2], plain, ex=ex, p=r.path) or not derives_from(wh[0].args[2], lambda v: isinstance(v, (Sym, z3.ExprRef)) and vname(v) == vname(an[0].ret), ex=ex, p=r.path):
                    return viol(ob, [ex], 'the wait hint is not the plain decimal rendering of the nanoseconds', 'rl-hint-format', path_summary(r), len(res))
        if not {'no-sender', 'called', 'refused'} <= seen:
            return ob.done([ex], 'inconclusive', f'vacuity: {sorted(seen)}', paths=len(res))
        ob.done([ex], 'held', '', {'paths': len(res), 'cases': sorted(seen)}, paths=len(res))
    return guarded(report, 'admission_before_call', 'RateLimit::call future: limiter = the layer\'s shared limiter, key = the request\'s own peer id; the wrapped service is called at most once and only after a '
                   'positive limiter decision (until_key_ready completed, or check_key Ok); over quota in ReturnError mode => TooManyRequests with wait-nanos = wait_time_from(clock.now()).as_nanos(), '
                   'service not called', ['RateLimit::call::{async block}'], {'inline_depth': 2, 'governor': 'contract (GCRA)'}, body)


def ob_layer(report):
    def body(ob):
        ex = e2.executor('anemo-tower', [], max_depth=2)
        fn = find_method(ex.prog, 'RateLimitLayer', 'layer', trait='Layer')
        res = ex.run(fn, [Ptr(('H', 'layer', 'RateLimitLayer')), Sym('inner', 'S')])
        for r in res:
            ret = r.ret
            ok = r.tag == 'return' and isinstance(ret, Agg)
            if ok:
                layer = ex.deref(r.path, Ptr(('H', 'layer', 'RateLimitLayer')))
                same_role = lambda role: vname(read_role(ex, ret, SRC, 'RateLimit', role)) == vname(read_role(ex, layer, SRC, 'RateLimitLayer', role))
                ok = same_role('limiter') and same_role('wait_mode') and vname(read_role(ex, ret, SRC, 'RateLimit', 'inner')) == 'inner'
            if not ok:
                return viol(ob, [ex], f'RateLimitLayer::layer does not share the layer\'s limiter / mode with the service: {vrepr(ret)[:200]}', 'rl-layer-share', path_summary(r), len(res))
        ob.done([ex], 'held', '', {'paths': len(res)}, paths=len(res))
    return guarded(report, 'one_limiter_per_layer', 'every service built by one RateLimitLayer shares that layer\'s limiter and wait mode', ['RateLimitLayer::layer'], {}, body)


def ob_trusted_store(report):
    """C19 decides anemo-tower's use of governor and trusts governor for the quota arithmetic *and its per-key state*.  That division only holds while the limiter
    is governor's own keyed limiter: a limiter built over a state store implemented in this crate moves the per-peer state (when it is created, kept, forgotten)
    out of the trusted base - then nothing here says the quota is enforced, and the honest answer is inconclusive, not held."""
    def body(ob):
        ex = e2.executor('anemo-tower', [], max_depth=1)
        prog = ex.prog
        local_store = [f for fs in prog.fns.values() for f in fs if f.blocks and re.search(r'(^|::)<impl>::measure_and_replace$', f.name)]
        ctor = []
        for fs in prog.fns.values():
            for f in fs:
                if not f.blocks or 'rate_limit' not in (f.name + (f.impl_span or '')):
                    continue
                for blk in f.blocks.values():
                    for st, _ in blk:
                        if st and st[0] == 'call' and isinstance(st[2], str) and 'RateLimiter' in st[2]:
                            sh = M.strip_generics(st[2])
                            if re.search(r'(^|::)(keyed|direct)::\w+$|(^|::)RateLimiter::\w+$', sh) and not sh.startswith('<'):
                                ctor.append((f.name, sh.rsplit('::', 1)[-1]))
        names = sorted({c for _, c in ctor})
        own = [c for c in names if c in ('keyed', 'dashmap', 'dashmap_with_clock', 'hashmap', 'hashmap_with_clock')]
        other = [c for c in names if c in ('new', 'direct', 'direct_with_clock')]
        if local_store or other:
            what = (f'a StateStore implemented in this crate ({local_store[0].name})' if local_store else f'RateLimiter::{other[0]}')
            return ob.done([ex], 'inconclusive', f'the rate limiter is not governor\'s own keyed limiter ({what}): the per-peer quota state is then outside the trusted base this property\'s '
                           'obligations rest on - whether it is kept as long as the quota needs is not decided here', paths=len(ctor))
        if not own:
            return ob.done([ex], 'inconclusive', f'no governor keyed-limiter constructor found in rate_limit.rs (constructors seen: {names})', paths=len(ctor))
        ob.done([ex], 'held', '', {'constructors': sorted(set(ctor))}, paths=len(ctor))
    return guarded(report, 'limiter_state_is_governors', 'every RateLimiter in rate_limit.rs is built by governor\'s keyed constructors (keyed / dashmap[_with_clock] / hashmap[_with_clock]) and the crate implements no '
                   'StateStore of its own', ['RateLimitLayer::new', 'RateLimit::new', 'RateLimit::layer'], {'scope': 'MIR of anemo-tower'}, body)


def check(report, tier, only=None):
    report.trusted += ['governor: keyed GCRA rate limiter (quota arithmetic over DashMap and a TSC clock)', 'z3 5.1']
    report.outside += ['the quota arithmetic itself, positivity of the hint at replenishment instants (governor)', 'interleavings of concurrent requests']
    from props import towerglue
    for n, f in (('admission', ob_call), ('one_limiter', ob_layer), ('trusted_store', ob_trusted_store),
                 ('poll_ready', lambda rep: towerglue.ob_poll_ready_transparent(rep, PROP, 'RateLimit', SRC))):
        if only and not any(s in n for s in only):
            continue
        f(report)
    report.extra['mir_sha'] = mirdump.mir_sha('anemo-tower')


def replay(path):
    print(open(path).read())
    return 0
