"""C20 - authorization layer gates every request; the allow-list is exact (E2 on anemo-tower MIR)."""
import re, z3
from common import *
import e2, mirdump
from e2 import *
from mirsym import models as MD

PROP = 'C20'
AU = 'crates/anemo-tower/src/auth'


def viol(ob, exs, detail, key, sample, n):
    o = ob.done(exs, 'violated', detail, sample, key=key, paths=n)
    o.replay = write_replay(PROP, o.name, {'detail': detail, 'sample': sample})
    return o


def kind_of(ex, fut):
    """('Future', inner) | ('Error', Option<Response>) of a ResponseFuture value"""
    ff = struct_fields(f'{AU}/future.rs', 'ResponseFuture')
    kind = ex.project(fut, ('field', ff.index('kind'), ''))
    if isinstance(kind, Agg) and kind.name == 'Kind':
        return kind.variant, kind.fields
    return None, ()


def ob_call(report):
    """call() composed with poll() of the future it returns: structure of the future type is not assumed"""
    def body(ob):
        def m_authorize(ex, p, call, k):
            req = ex.deref(p, call.args[1])
            p.events.append(Event('authorize', 'AuthorizeRequest::authorize', (ex.deref(p, call.args[0]), req)))
            k(p, Sym('verdict', 'Result<(), Response<Bytes>>'))

        def m_inner_call(ex, p, call, k):
            p.events.append(Event('inner-call', 'Service::call', (ex.deref(p, call.args[0]), call.args[1])))
            k(p, Sym('inner_future', 'F'))

        def m_poll_inner(ex, p, call, k):
            fut = ex.deref(p, call.args[0])
            q = p.clone()
            p.events.append(Event('polled', vname(fut), (), 'ready'))
            k(p, Agg('Poll', 'Ready', (Sym('inner_output', ''),)))
            q.events.append(Event('polled', vname(fut), (), 'pending'))
            k(q, Agg('Poll', 'Pending', ()))
        ex = e2.executor('anemo-tower', [(r'as AuthorizeRequest>::authorize$', m_authorize), (r'<S as Service>::call$', m_inner_call),
                                         (r'<F as Future>::poll$', m_poll_inner)], max_depth=4)
        fn = find_method(ex.prog, 'RequireAuthorization', 'call', trait='Service')
        pollfn = find_method(ex.prog, 'ResponseFuture', 'poll', trait='Future', file_re=r'auth/future\.rs')
        sf = struct_fields(f'{AU}/service.rs', 'RequireAuthorization')
        svc = struct_sym('svc', 'RequireAuthorization<S, A>', sf, {'inner': Sym('inner', 'S'), 'auth': Sym('auth', 'A')})
        p = Path()
        p.mem[('H', 'svc', 'RequireAuthorization')] = svc
        outs = []
        ex.results = []

        def after_call(q, fut):
            q.events.append(Event('call-returned', 'call', (fut,)))
            q.mem[('H', 'rf', 'ResponseFuture')] = fut
            ex.run_fn(pollfn, [Ptr(('H', 'rf', 'ResponseFuture'), (), True), Sym('cx', 'Context')], q, 0, lambda q2, ret: outs.append((q2, ret)), 'poll')
        ex.run_fn(fn, [Ptr(('H', 'svc', 'RequireAuthorization'), (), True), Sym('req', 'Request<Bytes>')], p, 0, after_call, 'call')
        bad = [r for r in ex.results if r.tag != 'return']
        if bad:
            return viol(ob, [ex], f'RequireAuthorization::call / ResponseFuture::poll can {bad[0].tag}', 'gate-abnormal', path_summary(bad[0]), len(outs))
        vd = z3.BitVec('verdict.discr', 64)
        seen = set()
        for q, ret in outs:
            r = Result(q, ret, 'return')
            evs = q.events
            cut = next(i for i, e in enumerate(evs) if e.kind == 'call-returned')
            au = [e for e in evs[:cut] if e.kind == 'authorize']
            ic = [e for e in evs if e.kind == 'inner-call']
            ic_before = [e for e in evs[:cut] if e.kind == 'inner-call']
            if len(au) != 1 or vname(au[0].args[0]) != 'auth' or vname(au[0].args[1]) != 'req':
                return viol(ob, [ex], 'the authorizer is not consulted exactly once with the incoming request', 'gate-authorize', path_summary(r), len(outs))
            accepted = e2.solve(q.pc + [vd != 0], want_model=False)[0] == 'unsat'
            refused = e2.solve(q.pc + [vd != 1], want_model=False)[0] == 'unsat'
            ex.queries += 2
            pl = [e for e in evs[cut:] if e.kind == 'polled']
            if accepted:
                if len(ic) != 1 or ic_before != ic or vname(ic[0].args[0]) != 'inner' or vname(ic[0].args[1]) != 'req':
                    return viol(ob, [ex], f'accepted request: wrapped service invoked {len(ic)} times / not with the (authorized) request', 'gate-accepted-invocation', path_summary(r), len(outs))
                order = [e.kind for e in evs[:cut] if e.kind in ('authorize', 'inner-call')]
                if order != ['authorize', 'inner-call']:
                    return viol(ob, [ex], 'wrapped service invoked before the authorizer decided', 'gate-order', path_summary(r), len(outs))
                if len(pl) != 1 or pl[0].name != 'inner_future':
                    return viol(ob, [ex], 'accepted request: polling the returned future does not poll the wrapped service\'s future', 'gate-accepted-poll', path_summary(r), len(outs))
                if pl[0].ret == 'ready':
                    seen.add('accepted-ready')
                    if not (isinstance(ret, Agg) and ret.variant == 'Ready' and vname(ret.fields[0]) == 'inner_output'):
                        return viol(ob, [ex], f'accepted request: service result not passed through unchanged: {vrepr(ret)}', 'gate-accepted-result', path_summary(r), len(outs))
                else:
                    seen.add('accepted-pending')
                    if not (isinstance(ret, Agg) and ret.variant == 'Pending'):
                        return viol(ob, [ex], 'accepted request: pending service future does not yield Pending', 'gate-accepted-pending', path_summary(r), len(outs))
            elif refused:
                seen.add('refused')
                if ic:
                    return viol(ob, [ex], 'refused request still invokes the wrapped service', 'gate-refused-invocation', path_summary(r), len(outs))
                okr = (not pl and isinstance(ret, Agg) and ret.variant == 'Ready' and isinstance(ret.fields[0], Agg) and ret.fields[0].variant == 'Ok'
                       and vname(ret.fields[0].fields[0]) == 'verdict@Err.0')
                if not okr:
                    return viol(ob, [ex], f'refused request: the future yields {vrepr(ret)[:160]}, not exactly the authorizer\'s response', 'gate-refused-response', path_summary(r), len(outs))
            else:
                return viol(ob, [ex], 'path does not depend on the authorizer verdict', 'gate-ignores-verdict', path_summary(r), len(outs))
        if seen != {'accepted-ready', 'accepted-pending', 'refused'}:
            return ob.done([ex], 'inconclusive', f'vacuity: {seen}', paths=len(outs))
        ob.done([ex], 'held', '', {'paths': len(outs), 'cases': sorted(seen)}, paths=len(outs))
    return guarded(report, 'gate_call_then_poll', 'RequireAuthorization::call followed by one poll of the returned future: authorizer consulted once, first; wrapped service invoked '
                   '(once, with that request) iff it returned Ok, and then its future\'s outcome is passed through; otherwise no invocation and the future yields exactly the '
                   'authorizer\'s response', ['RequireAuthorization::call', 'auth::ResponseFuture::poll'], {'inline_depth': 4, 'steps': 'call; poll'}, body)


def ob_allow_list(report):
    def run_size(ob, nlist, tot):
        a, b, sender = z3.BitVec('peer_a', 256), z3.BitVec('peer_b', 256), z3.BitVec('sender', 256)

        def m_peer_id(ex, p, call, k):
            q = p.clone()
            has = z3.Bool('has_sender')
            p.pc.append(has)
            cell = ('H', 'sender', 'PeerId')
            p.mem[cell] = sender
            k(p, MD.some(Ptr(cell)))
            q.pc.append(z3.Not(has))
            k(q, MD.NONE)

        def m_into_response(ex, p, call, k):
            k(p, Sym(f'response({vrepr(call.args[0])})', 'Response<Bytes>').with_ov('status', call.args[0]))

        def m_contains(ex, p, call, k):
            s = ex.deref(p, call.args[0])
            key = ex.deref(p, call.args[1])
            p.events.append(Event('membership', call.short, (s, key)))
            if isinstance(s, Sym) and s.get_ov('elements') is not None and isinstance(key, z3.ExprRef):
                return k(p, z3.Or([key == e for e in s.get_ov('elements').fields]))
            if isinstance(s, Agg) and s.kind == 'array' and isinstance(key, z3.ExprRef):
                # an inline array scanned in full (`<[T]>::contains`): every slot counts, padding included
                def idbv(e):
                    e = e2.peel(e)
                    if isinstance(e, Agg) and e.kind == 'array' and len(e.fields) * 8 == key.size():
                        bs = [b if isinstance(b, z3.ExprRef) else ex.to_bv(b, 8) for b in e.fields]      # big-endian byte array = the 256-bit id
                        return z3.Concat(*bs) if len(bs) > 1 else bs[0]
                    return e if isinstance(e, z3.ExprRef) else ex.to_bv(e, key.size())
                es = [idbv(e) for e in s.fields]
                if all(isinstance(e, z3.ExprRef) and e.sort() == key.sort() for e in es):
                    return k(p, z3.Or([key == e for e in es]))
            return NotImplemented

        def m_size(ex, p, call, k):
            s_ = ex.deref(p, call.args[0]) if isinstance(call.args[0], Ptr) else call.args[0]
            el = s_.get_ov('elements') if isinstance(s_, Sym) else None
            if el is None:
                return NotImplemented
            n_ = len(el.fields)
            if call.short.endswith('is_empty'):
                return k(p, z3.BoolVal(n_ == 0))
            if n_ <= 1 or re.search(r'Vec', call.short):
                return k(p, z3.BitVecVal(n_, 64))
            return k(p, z3.If(el.fields[0] == el.fields[1], z3.BitVecVal(1, 64), z3.BitVecVal(2, 64)))       # sets hold distinct elements

        def m_collect(ex, p, call, k):
            src = call.args[0]
            el = None
            if isinstance(src, Ptr) and call.short.endswith('into_iter'):
                # `for x in &container`: a finite iterator over the known elements, yielding references
                c = ex.deref(p, src)
                if isinstance(c, Sym) and c.get_ov('elements') is not None:
                    return k(p, Agg('SliceIter', None, (c.get_ov('elements'), z3.BitVecVal(0, 64), z3.BoolVal(False)), 'struct'))
                return NotImplemented
            if isinstance(src, Sym) and src.get_ov('elements') is not None:
                el = src.get_ov('elements')
            elif isinstance(src, Agg) and src.kind == 'array':
                el = src
            if el is None:
                return NotImplemented
            k(p, Sym(f'collected{p.seq("coll")}', call.retty).with_ov('elements', el))
        def m_iter_map(ex, p, call, k):
            # Iterator::map over the finite list: the closure is applied to each of the known elements, in order
            src = call.args[0]
            el = src.get_ov('elements') if isinstance(src, Sym) else (src if isinstance(src, Agg) and src.kind == 'array' else None)
            if el is None:
                return NotImplemented
            items = list(el.fields)

            def step(q, i, acc):
                if i == len(items):
                    return k(q, Sym(f'mapped{q.seq("mapped")}', call.retty).with_ov('elements', Agg('[]', None, tuple(acc), 'array')))
                ex.call_closure(q, call.args[1], [items[i]], call, lambda q2, r: step(q2, i + 1, acc + [r]))
            step(p, 0, [])

        def m_assoc_get(ex, p, call, k):
            # HashMap::get on a map collected from a finite list of (key, value) pairs: the pair inserted last under an equal key wins
            s = ex.deref(p, call.args[0])
            key = ex.deref(p, call.args[1]) if isinstance(call.args[1], Ptr) else call.args[1]
            el = s.get_ov('elements') if isinstance(s, Sym) else None
            if el is None or not all(isinstance(x, Agg) and x.kind == 'tuple' and len(x.fields) == 2 for x in el.fields) or not isinstance(key, z3.ExprRef):
                return NotImplemented
            p.events.append(Event('membership', call.short, (s, key)))
            pairs = list(el.fields)
            rest = []
            for x in reversed(pairs):
                kx, vx = x.fields
                if not (isinstance(kx, z3.ExprRef) and kx.sort() == key.sort()):
                    return NotImplemented
                cond = z3.And([key == kx] + rest)
                if ex.feasible(p.pc, cond):
                    q = p.clone()
                    q.pc.append(cond)
                    cell = ('H', f'assoc-val{q.seq("assocval")}', '')
                    q.mem[cell] = vx
                    k(q, MD.some(Ptr(cell)))
                rest.append(key != kx)
            none = z3.And(rest) if rest else z3.BoolVal(True)
            if ex.feasible(p.pc, none):
                q = p.clone()
                q.pc.append(none)
                k(q, MD.NONE)
        def m_fin_next(ex, p, call, k):
            # explicit `for x in peers { .. }` over the finite list: elements in order, then None
            it = ex.deref(p, call.args[0]) if isinstance(call.args[0], Ptr) else call.args[0]
            if isinstance(it, Agg) and it.name == 'ZipSlots':
                # slice.iter_mut().zip(&finite list): pairs (slot i, element i) while both last
                slots, els, pos = it.fields[0], it.fields[1], it.fields[2]
                arr = ex.deref(p, slots)
                n_ = min(len(arr.fields) if isinstance(arr, Agg) else 0, len(els.fields))
                if pos >= n_:
                    return k(p, MD.NONE)
                if isinstance(call.args[0], Ptr):
                    ex.store(p, call.args[0], Agg('ZipSlots', None, (slots, els, pos + 1), 'struct'))
                cell = ('H', f'zip-elem{p.seq("zipelem")}', 'PeerId')
                p.mem[cell] = els.fields[pos]
                slot = Ptr(slots.key, tuple(slots.projs) + (('cindex', pos, ''),), True)
                return k(p, MD.some(Agg('()', None, (slot, Ptr(cell)), 'tuple')))
            el = it.get_ov('elements') if isinstance(it, Sym) else None
            if el is None:
                return NotImplemented
            pos = it.get_ov('pos') or 0
            if pos >= len(el.fields):
                return k(p, MD.NONE)
            if isinstance(call.args[0], Ptr):
                ex.store(p, call.args[0], it.with_ov('pos', pos + 1))
            k(p, MD.some(el.fields[pos]))

        def m_set_new(ex, p, call, k):
            k(p, Sym(f'set{p.seq("set")}', call.retty).with_ov('elements', Agg('[]', None, (), 'array')))

        def m_set_insert(ex, p, call, k):
            s_ = ex.deref(p, call.args[0]) if isinstance(call.args[0], Ptr) else None
            el = s_.get_ov('elements') if isinstance(s_, Sym) else None
            x = call.args[1]
            if el is None or not isinstance(x, z3.ExprRef) or len(el.fields) >= 8:
                return NotImplemented
            fresh = z3.Not(z3.Or([x == e for e in el.fields])) if el.fields else z3.BoolVal(True)
            ex.store(p, call.args[0], s_.with_ov('elements', Agg('[]', None, tuple(el.fields) + (x,), 'array')))
            k(p, fresh)
        def m_wrap_new(ex, p, call, k):
            # Arc::new / Mutex::new / RwLock::new around the list: the wrapper carries the list (std contract: a lock gives access to the value it was built with)
            v = call.args[0]
            if call.short.endswith('Arc::new') or '::Arc::' in call.short:
                return k(p, v)
            k(p, Sym(f'lock{p.seq("lock")}', call.retty).with_ov('inner', v))

        def m_lock(ex, p, call, k):
            m_ = ex.deref(p, call.args[0]) if isinstance(call.args[0], Ptr) else call.args[0]
            inner = m_.get_ov('inner') if isinstance(m_, Sym) else None
            if inner is None:
                return NotImplemented
            cell = ('H', f'locked({vname(m_)})', '')
            p.mem[cell] = inner
            guard = Sym(f'guard{p.seq("guard")}', 'MutexGuard').with_ov('cell', Ptr(cell, (), True))
            meth = call.short.rsplit('::', 1)[-1]
            if meth.startswith('try_'):
                q = p.clone()
                q.events.append(Event('lock-busy', call.short, ()))
                k(q, MD.err(Sym('would_block', 'TryLockError')))          # another holder (a concurrent request on a clone of the service) has the lock
            k(p, MD.ok(guard))

        def m_guard_deref(ex, p, call, k):
            g = ex.deref(p, call.args[0]) if isinstance(call.args[0], Ptr) else call.args[0]
            c = g.get_ov('cell') if isinstance(g, Sym) else None
            if c is None:
                return NotImplemented
            k(p, c)

        def m_arc_deref(ex, p, call, k):
            k(p, call.args[0])
        def m_iter_mut(ex, p, call, k):
            a0 = call.args[0]
            arr = ex.deref(p, a0) if isinstance(a0, Ptr) else None
            if not (isinstance(arr, Agg) and arr.kind == 'array'):
                return NotImplemented
            k(p, Agg('SlotIter', None, (a0,), 'struct'))

        def m_zip(ex, p, call, k):
            a, b = call.args[0], call.args[1]
            c = ex.deref(p, b) if isinstance(b, Ptr) else b
            el = c.get_ov('elements') if isinstance(c, Sym) else None
            if not (isinstance(a, Agg) and a.name == 'SlotIter') or el is None:
                return NotImplemented
            k(p, Agg('ZipSlots', None, (a.fields[0], el, 0), 'struct'))

        def m_zip_into_iter(ex, p, call, k):
            if isinstance(call.args[0], Agg) and call.args[0].name == 'ZipSlots':
                return k(p, call.args[0])
            return NotImplemented
        models = [(r'slice::(<impl[^>]*>::)?iter_mut$', m_iter_mut), (r'IterMut as Iterator>::zip$', m_zip), (r'Zip as IntoIterator>::into_iter$', m_zip_into_iter),
                  (r'Request::peer_id$', m_peer_id), (r'as IntoResponse>::into_response$', m_into_response), (r'Iterator>::map$', m_iter_map), (r'(HashMap|BTreeMap)::get$', m_assoc_get),
                  (r'(^|::)(Arc|Mutex|RwLock)(::<.*>)?::new$', m_wrap_new), (r'(Mutex::(lock|try_lock)|RwLock::(read|write|try_read|try_write))$', m_lock),
                  (r'<(\w+::)*(MutexGuard|RwLockReadGuard|RwLockWriteGuard) as Deref(Mut)?>::deref(_mut)?$', m_guard_deref), (r'<(\w+::)*Arc as Deref>::deref$', m_arc_deref),
                  (r' as Iterator>::next$', m_fin_next), (r'(HashSet|BTreeSet)::(new|with_capacity|default)$|<(\w+::)*(HashSet|BTreeSet) as Default>::default$', m_set_new),
                  (r'(HashSet|BTreeSet)::insert$', m_set_insert),
                  (r'(HashSet|BTreeSet|Vec|slice)::(<impl[^>]*>::)?contains$|HashSet::get$', m_contains), (r'(HashSet|BTreeSet|Vec|slice)::(is_empty|len)$', m_size),
                  (r'as IntoIterator>::into_iter$|Iterator>::collect$|FromIterator>::from_iter$|Iterator>::copied$|Iterator>::cloned$', m_collect)]
        ex = e2.executor('anemo-tower', models, max_depth=4, unroll=80)
        new = find_method(ex.prog, 'AllowedPeers', 'new')
        auth = find_method(ex.prog, 'AllowedPeers', 'authorize', trait='AuthorizeRequest')
        outs = []
        p = Path()
        ex.results = []
        elems = (a, b)[:nlist]
        arr = Agg('[]', None, elems, 'array')

        def after_new(q, ap):
            q.mem[('H', 'ap', 'AllowedPeers')] = ap
            q.mem[('H', 'req', 'Request')] = Sym('req', 'Request<Bytes>')
            ex.run_fn(auth, [Ptr(('H', 'ap', 'AllowedPeers')), Ptr(('H', 'req', 'Request'), (), True)], q, 0, lambda q2, ret: outs.append((q2, ret)), 'auth')
        ex.run_fn(new, [arr], p, 0, after_new, 'new')
        bad = [r for r in ex.results if r.tag != 'return']
        if bad:
            tag = bad[0].tag
            if tag == 'loop-bound' or any(e.kind == 'loop-bound' for b_ in bad for e in b_.events) or any(r_.tag == 'loop-bound' for r_ in ex.results):
                return ob.done([ex], 'inconclusive', 'allow-list implementation iterates beyond the unrolling bound (hand-written membership loop): not decidable by this encoding', paths=len(outs))
            return viol(ob, [ex], f'AllowedPeers::{{new,authorize}} can {tag}', 'allow-abnormal', path_summary(bad[0]), len(outs))
        has = z3.Bool('has_sender')
        member = z3.Or([sender == e for e in elems]) if elems else z3.BoolVal(False)
        seen = set()
        SETOK = re.compile(r'(sort|sort_unstable|sort_by|sort_by_key|sort_unstable_by|sort_unstable_by_key|dedup|shrink_to_fit|reserve|with_capacity|new|len|is_empty|iter|contains|get|deref|deref_mut|as_slice|as_mut_slice|capacity|binary_search)$')
        for q, ret in outs:
            # operations on the list other than those that keep its *set* of elements: outside the finite-set contract
            odd = [e.name for e in q.events if e.kind == 'call' and re.search(r'(^|::)(Vec|slice|HashSet|BTreeSet|VecDeque)::', str(e.name)) and not SETOK.search(str(e.name))]
            if odd:
                return ob.done([ex], 'inconclusive', f'the allow-list container is modified/read through {odd[0]}, which the finite-set contract does not cover', paths=len(outs))
            r = Result(q, ret, 'return')
            ms = [e for e in q.events if e.kind == 'membership']
            if not isinstance(ret, Agg) or ret.name != 'Result':
                return ob.done([ex], 'inconclusive', f'authorize returns {vrepr(ret)}', paths=len(outs))
            if any(isinstance(e.args[0], Sym) and e.args[0].get_ov('elements') is None for e in ms):
                return ob.done([ex], 'inconclusive', 'membership test on a container whose contents the encoding cannot relate to the peers given to new()', paths=len(outs))

            def status_of(v):
                st = v.get_ov('status') if isinstance(v, Sym) else None
                return (st.variant or st.name) if isinstance(st, Agg) else None      # (enum tables come from the source; a macro-generated enum shows as a bare variant name)
            if ret.variant == 'Ok':
                cond = z3.And(has, member)
                cls = 'accept'
            else:
                st = status_of(ret.fields[0])
                if st == 'InternalServerError':
                    cond, cls = z3.Not(has), 'no-identity'
                elif st == 'NotFound':
                    cond, cls = z3.And(has, z3.Not(member)), 'unlisted'
                else:
                    return viol(ob, [ex], f'refusal response is {vrepr(ret.fields[0])} (status {st}); expected NotFound / InternalServerError', 'allow-status', path_summary(r), len(outs))
            qv, m, _ = e2.solve(q.pc + [z3.Not(cond)])
            ex.queries += 1
            if qv != 'unsat':
                cex = {'sender_present': z3.is_true(m.eval(has, True)), 'sender': '%064x' % m.eval(sender, True).as_long(),
                       'list': ['%064x' % m.eval(e_, True).as_long() for e_ in elems],
                       'listed': z3.is_true(m.eval(member, True)), 'outcome': cls} if m is not None else {}
                busy = any(e.kind == 'lock-busy' for e in q.events)
                if busy:
                    cex['schedule'] = 'the lock around the allow-list is held by a concurrent request (try_lock/try_read fails)'
                o = viol(ob, [ex], f'allow-list outcome `{cls}` outside its condition: {cex}', f'allow-{cls}' + ('-lock-busy' if busy else ''), {'counterexample': cex, **path_summary(r)}, len(outs))
                if cex and not busy:      # a schedule (lock contention) cannot be re-run by the sequential native test: reported as found
                    import kani
                    kani.confirm_natively(o, PROP, 'auth', 'verif_replay_c20_allow_list',
                                          {'VERIF_CEX_LIST': ','.join(cex['list']), 'VERIF_CEX_SENDER': cex['sender'] if cex['sender_present'] else ''}, 'allow-list and sender')
                return o
            seen.add(cls)
        want_seen = {'accept', 'no-identity', 'unlisted'} if nlist else {'no-identity', 'unlisted'}
        if seen != want_seen:
            return ob.done([ex], 'inconclusive', f'vacuity (list of {nlist}): {seen}', paths=len(outs))
        tot['paths'] += len(outs)
        tot['exs'].append(ex)
        return None

    def body(ob):
        tot = {'paths': 0, 'exs': []}
        for nlist in (2, 1, 0):
            o = run_size(ob, nlist, tot)
            if o is not None:
                return o
        ob.done(tot['exs'], 'held', '', {'paths': tot['paths'], 'lists': '[], [a], [a, b] with symbolic 256-bit ids'}, paths=tot['paths'])
    return guarded(report, 'allow_list_exact', 'AllowedPeers::new(L).authorize(req) for L = [], [a], [a,b]: Ok iff the authenticated sender is in L; NotFound for any other sender; InternalServerError without a sender identity',
                   ['AllowedPeers::new', 'AllowedPeers::authorize'], {'list_size': '0, 1, 2', 'ids': '256-bit symbolic (byte-addressable, big-endian)', 'containers': 'finite-set model (collect/contains/sort/dedup); hand-written scans executed, loop_unroll 80'}, body)


def ob_layer(report):
    def body(ob):
        ex = e2.executor('anemo-tower', [], max_depth=2)
        fn = find_method(ex.prog, 'RequireAuthorizationLayer', 'layer', trait='Layer')
        sf = struct_fields(f'{AU}/service.rs', 'RequireAuthorization')
        lf = struct_fields(f'{AU}/layer.rs', 'RequireAuthorizationLayer')
        res = ex.run(fn, [Ptr(('H', 'layer', 'RequireAuthorizationLayer')), Sym('inner', 'S')])
        for r in res:
            ret = r.ret
            ok = (r.tag == 'return' and isinstance(ret, Agg) and vname(ret.fields[sf.index('inner')]) == 'inner'
                  and vname(ret.fields[sf.index('auth')]) == f'layer.{lf.index("auth")}')
            if not ok:
                return viol(ob, [ex], f'RequireAuthorizationLayer::layer builds {vrepr(ret)}', 'layer', path_summary(r), len(res))
        ob.done([ex], 'held', '', {'paths': len(res)}, paths=len(res))
    return guarded(report, 'layer_wraps_with_same_authorizer', 'RequireAuthorizationLayer::layer(inner) = RequireAuthorization { inner, auth: a clone of the layer\'s authorizer }',
                   ['RequireAuthorizationLayer::layer'], {}, body)


def check(report, tier, only=None):
    report.trusted += ['z3 5.1', 'finite-set model of HashSet (FromIterator/contains)', 'Request::peer_id returns the authenticated sender extension (C01)']
    report.outside += ['concurrent use through clones adds no behaviours (no shared mutable state) - stated, not explored', 'allow-lists with more than 2 entries (the membership model is element-wise)']
    from props import towerglue
    for n, f in (('gate_call', ob_call), ('allow_list', ob_allow_list), ('layer', ob_layer),
                 ('poll_ready', lambda rep: towerglue.ob_poll_ready_transparent(rep, PROP, 'RequireAuthorization', 'crates/anemo-tower/src/auth/service.rs'))):
        if only and not any(s in n for s in only):
            continue
        f(report)
    report.extra['mir_sha'] = mirdump.mir_sha('anemo-tower')


def replay(path):
    print(open(path).read())
    return 0
