"""Interface models shared by the connection-set properties (C03, C04, C05, C09).

`Connection` is an opaque identity; its accessors are uninterpreted functions of that identity
(checked to be plain field reads by `ob_connection_accessors`), `close` and event sending are
effects recorded in the path's event list."""
import re, z3
from e2 import *
from mirsym import models as MD


def cname(ex, p, v):
    v = ex.deref(p, v) if isinstance(v, Ptr) else v
    return vname(v)


def m_peer_id(ex, p, call, k):
    k(p, z3.BitVec(f'pid({cname(ex, p, call.args[0])})', 256))


def m_origin(ex, p, call, k):
    k(p, Sym(f'origin({cname(ex, p, call.args[0])})', 'types::peer_id::ConnectionOrigin'))


def m_stable_id(ex, p, call, k):
    k(p, z3.BitVec(f'sid({cname(ex, p, call.args[0])})', 64))


def m_close(ex, p, call, k):
    p.events.append(Event('close', 'Connection::close', (Str(cname(ex, p, call.args[0])),), None, call.span, call.depth))
    k(p, UNIT)


def m_bsend(ex, p, call, k):
    p.events.append(Event('send', 'broadcast::Sender::send', (call.args[1],), None, call.span, call.depth))
    k(p, Sym(f'sendres{p.seq("sendres")}', call.retty))


CONNECTION_MODELS = [
    (r'connection::Connection::peer_id$', m_peer_id),
    (r'connection::Connection::origin$', m_origin),
    (r'connection::Connection::stable_id$', m_stable_id),
    (r'connection::Connection::close$', m_close),
    (r'broadcast::Sender::send$', m_bsend),
]


def origin_discr(conn_name):
    return z3.BitVec(f'origin({conn_name}).0.discr', 64)


def tie_break_spec(own, remote, eo, no, IN, OUT):
    """true = replace the existing connection by the new one"""
    return z3.Or(eo == no,
                 z3.And(eo == IN, no == OUT, z3.ULT(remote, own)),
                 z3.And(eo == OUT, no == IN, z3.ULT(own, remote)))


def effects(res):
    """normalised effect list of a path"""
    out = []
    for e in res.events:
        if e.kind == 'map':
            key = e.args[1]
            val = e.args[2] if len(e.args) > 2 else None
            out.append(('map-' + e.name, e.args[0].s, key, val))
        elif e.kind == 'entry-cell' and len(e.args) == 3:
            # `*entry.get_mut() = v` / `mem::swap(entry.get_mut(), &mut v)`: the entry's value was replaced in place
            final = res.path.mem.get(e.args[1].key)
            if final is not None and vname(final) != vname(e.args[2]):
                out.append(('map-insert', e.name, e.args[0], final))
        elif e.kind == 'close':
            out.append(('close', e.args[0].s))
        elif e.kind == 'send':
            ev = e.args[0]
            if isinstance(ev, Agg) and ev.name == 'PeerEvent':
                out.append(('send', ev.variant, ev.fields))
            else:
                out.append(('send', '?', (ev,)))
    return out


def fmt_effects(effs):
    out = []
    for e in effs:
        if e[0].startswith('map-'):
            out.append(f'{e[0]}({e[1]}, key={vrepr(e[2])}' + (f', val={vrepr(e[3])})' if e[3] is not None else ')'))
        elif e[0] == 'close':
            out.append(f'close({e[1]})')
        else:
            out.append(f'send {e[1]}({", ".join(vrepr(x) for x in e[2])})')
    return out


def same(ex, pc, a, b):
    """a == b for all assignments satisfying the path condition"""
    if isinstance(a, z3.ExprRef) and isinstance(b, z3.ExprRef):
        if a.sort() != b.sort():
            return False
        r, _, _ = solve(list(pc) + [a != b], 20000, False)
        ex.queries += 1
        return r == 'unsat'
    return vname(a) == vname(b)


def implied(ex, pc, cond):
    r, _, _ = solve(list(pc) + [z3.Not(cond)], 20000, False)
    ex.queries += 1
    return r == 'unsat'


def poison_panic(res):
    """a panic path caused by unwrapping a poisoned std RwLock (documented std behaviour)"""
    if res.tag != 'panic':
        return False
    evs = [e for e in res.events if e.kind in ('call', 'panic')]
    names = [e.name for e in evs]
    return len(names) >= 2 and re.search(r'RwLock::(read|write)$|Mutex::lock$', names[-2]) is not None and ('unwrap' in names[-1] or 'expect' in names[-1])


# ----------------------------------------------------------------------------- std RwLock / tokio timeout contracts (property-level models)
def lock_models(cells):
    """RwLock::<T>::read/write(&lock) -> Ok(guard) whose Deref target is ONE canonical cell per guarded type T.
    `cells`: [(regex on T, cell name, factory(p) -> initial value)].  Assumptions (stated by the callers): the lock is not
    poisoned; the crate has a single instance of each guarded type per network (one KnownPeers table, one ActivePeers)."""
    def m_lock(ex, p, call, k):
        m = re.search(r'RwLock::<(.*)>::(read|write)$', call.callee if isinstance(call.callee, str) else '')
        if not m:
            return NotImplemented
        ty = m.group(1)
        for pat, name, mk in cells:
            if re.search(pat, re.sub(r'\s+', '', ty)):
                cell = ('H', name, ty)
                if cell not in p.mem:
                    p.mem[cell] = mk(p)
                p.events.append(Event('lock', 'RwLock::' + m.group(2), (Str(name),), None, call.span, call.depth))
                return k(p, MD.ok(Ptr(cell, (), m.group(2) == 'write', ty)))
        return NotImplemented
    return [(r'RwLock::(read|write)$', m_lock)]


def timeout_models():
    """tokio::time::timeout(d, fut): polling it polls `fut`; Ready(v) -> Ready(Ok(v)); while `fut` is pending the
    timeout is either Pending or Ready(Err(Elapsed)) (the deadline is a symbolic variable)."""
    def m_timeout(ex, p, call, k):
        n = p.seq('timeout')
        p.events.append(Event('timeout', 'tokio::time::timeout', (call.args[0],), None, call.span, call.depth))
        k(p, Sym(f'timeout#{n}', 'tokio::time::Timeout').with_ov('inner', call.args[1]))

    def m_poll_timeout(ex, p, call, k):
        pin = call.args[0]
        fut = ex.deref(p, pin) if isinstance(pin, Ptr) else pin
        if isinstance(fut, Agg) and fut.fields and isinstance(fut.fields[0], Ptr):
            fut = ex.deref(p, fut.fields[0])
        inner = fut.get_ov('inner') if isinstance(fut, Sym) else None
        if inner is None:
            return NotImplemented
        cell = ('H', f'{fut.name}.inner', '')
        if cell not in p.mem:
            p.mem[cell] = inner
        inner_ty = getattr(inner, 'ty', '') or ''
        rt = MD.generic_arg(MD.poll_ready_ty(call.retty) or '', 0) or ''
        c2 = Call('<%s as Future>::poll' % (inner_ty or 'F'), [Ptr(cell, (), True), call.args[1]], f'Poll<{rt}>', call.span, call.fn, call.depth, call.frame, None)

        def after(q, ret):
            if isinstance(ret, Agg) and ret.variant == 'Ready':
                return k(q, Agg('Poll', 'Ready', (MD.ok(ret.fields[0]),)))
            q2 = q.clone()
            q2.events.append(Event('elapsed', 'tokio::time::timeout', (), None, call.span, call.depth))
            k(q2, Agg('Poll', 'Ready', (MD.err(Sym('elapsed', 'tokio::time::error::Elapsed')),)))
            if getattr(ex, 'explore_pending', True):
                k(q, Agg('Poll', 'Pending', ()))
        ex.dispatch(p, c2, after)
    return [(r'(^|::)time::timeout$|^timeout$', m_timeout), (r'<(tokio::time::)?Timeout as Future>::poll$', m_poll_timeout)]
