"""Interface models shared by the connection-set properties (C03, C04, C05, C09).

`Connection` is an opaque identity; its accessors are uninterpreted functions of that identity
(checked to be plain field reads by `ob_connection_accessors`), `close` and event sending are
effects recorded in the path's event list."""
import re, z3
from e2 import *
from mirsym import models as MD


def cname(ex, p, v):
    v = ex.deref(p, v) if isinstance(v, Ptr) else v
    return vname(v)


def m_peer_id(ex, p, call, k):
    k(p, z3.BitVec(f'pid({cname(ex, p, call.args[0])})', 256))


def m_origin(ex, p, call, k):
    k(p, Sym(f'origin({cname(ex, p, call.args[0])})', 'types::peer_id::ConnectionOrigin'))


def m_stable_id(ex, p, call, k):
    k(p, z3.BitVec(f'sid({cname(ex, p, call.args[0])})', 64))


def m_close(ex, p, call, k):
    p.events.append(Event('close', 'Connection::close', (Str(cname(ex, p, call.args[0])),), None, call.span, call.depth))
    k(p, UNIT)


def m_bsend(ex, p, call, k):
    p.events.append(Event('send', 'broadcast::Sender::send', (call.args[1],), None, call.span, call.depth))
    k(p, Sym(f'sendres{p.seq("sendres")}', call.retty))


CONNECTION_MODELS = [
    (r'connection::Connection::peer_id$', m_peer_id),
    (r'connection::Connection::origin$', m_origin),
    (r'connection::Connection::stable_id$', m_stable_id),
    (r'connection::Connection::close$', m_close),
    (r'broadcast::Sender::send$', m_bsend),
]


def origin_discr(conn_name):
    return z3.BitVec(f'origin({conn_name}).0.discr', 64)


def tie_break_spec(own, remote, eo, no, IN, OUT):
    """true = replace the existing connection by the new one"""
    return z3.Or(eo == no,
                 z3.And(eo == IN, no == OUT, z3.ULT(remote, own)),
                 z3.And(eo == OUT, no == IN, z3.ULT(own, remote)))


def effects(res):
    """normalised effect list of a path"""
    out = []
    for e in res.events:
        if e.kind == 'map':
            key = e.args[1]
            val = e.args[2] if len(e.args) > 2 else None
            out.append(('map-' + e.name, e.args[0].s, key, val))
        elif e.kind == 'close':
            out.append(('close', e.args[0].s))
        elif e.kind == 'send':
            ev = e.args[0]
            if isinstance(ev, Agg) and ev.name == 'PeerEvent':
                out.append(('send', ev.variant, ev.fields))
            else:
                out.append(('send', '?', (ev,)))
    return out


def fmt_effects(effs):
    out = []
    for e in effs:
        if e[0].startswith('map-'):
            out.append(f'{e[0]}({e[1]}, key={vrepr(e[2])}' + (f', val={vrepr(e[3])})' if e[3] is not None else ')'))
        elif e[0] == 'close':
            out.append(f'close({e[1]})')
        else:
            out.append(f'send {e[1]}({", ".join(vrepr(x) for x in e[2])})')
    return out


def same(ex, pc, a, b):
    """a == b for all assignments satisfying the path condition"""
    if isinstance(a, z3.ExprRef) and isinstance(b, z3.ExprRef):
        if a.sort() != b.sort():
            return False
        r, _, _ = solve(list(pc) + [a != b], 20000, False)
        ex.queries += 1
        return r == 'unsat'
    return vname(a) == vname(b)


def implied(ex, pc, cond):
    r, _, _ = solve(list(pc) + [z3.Not(cond)], 20000, False)
    ex.queries += 1
    return r == 'unsat'


def poison_panic(res):
    """a panic path caused by unwrapping a poisoned std RwLock (documented std behaviour)"""
    if res.tag != 'panic':
        return False
    evs = [e for e in res.events if e.kind in ('call', 'panic')]
    names = [e.name for e in evs]
    return len(names) >= 2 and re.search(r'RwLock::(read|write)$', names[-2]) is not None and 'unwrap' in names[-1]
