"""Obligations on ConnectionManager::dial_peer_task shared by C03 and C10:
every successful dial went through the listener's acknowledgement (wire::handshake) and the
expected identity reaches Endpoint::connect_with_expected_peer_id unchanged."""
import re, z3
from common import *
import e2
from e2 import *
from mirsym import models as MD


CM = 'crates/anemo/src/network/connection_manager.rs'


def run_dial_task():
    """the whole dial task (async fn body incl. the connect timeout and whatever inner futures/helpers it awaits)"""
    from props.cmodels import timeout_models

    def m_connect(ex, p, call, k):
        p.events.append(Event('connect', call.short.split('::')[-1], call.args[1:]))
        k(p, Sym('connect_res_' + call.short.split('::')[-1], 'Result<endpoint::Connecting, anyhow::Error>'))

    def m_hs(ex, p, call, k):
        p.events.append(Event('handshake', 'handshake', (ex.deref(p, call.args[0]),)))      # by value or by reference
        k(p, Sym('hs_future', 'HandshakeFuture'))
    ex = e2.executor('anemo', [(r'Endpoint::connect(_with_expected_peer_id)?$', m_connect), (r'(^|::)handshake$', m_hs),
                                   (r'^<(endpoint::)?Connecting as Future>::poll$', MD.m_poll_opaque)] + timeout_models(), max_depth=5)
    parent = find_method(ex.prog, 'ConnectionManager', 'dial_peer_task')
    fn = find_closure(ex.prog, parent, [0])
    p, args = coroutine_start(ex, fn)
    res = ex.run(fn, args, p)
    return ex, fn, res


def join_error_panic(res):
    """panic path = unwrap() of the JoinError of an awaited tokio JoinHandle (the spawned task itself panicked or the
    runtime is shutting down)"""
    evs = [e for e in res.events if e.kind in ('poll', 'panic')]
    return (res.tag == 'panic' and len(evs) >= 2 and evs[-1].kind == 'panic' and 'unwrap' in str(evs[-1].name)
            and evs[-2].kind == 'poll' and 'JoinHandle' in str(evs[-2].name))


def ob_dial_task(report, prop):
    def body(ob):
        ex, fn, res = run_dial_task()
        n_ok = 0
        kinds = set()

        def bad(detail, key, r):
            o = ob.done([ex], 'violated', detail, path_summary(r), key=key, paths=len(res))
            o.replay = write_replay(prop, 'dial_task', {'detail': detail, 'path': path_summary(r)})
            return o
        for r in res:
            if r.tag != 'return':
                if r.tag in ('panic', 'diverge'):
                    if join_error_panic(r):
                        continue            # JoinError of the blocking resolver task (it panicked / runtime shut down): outside the claim
                    return bad(f'dial task can {r.tag}', 'dial-abnormal', r)
                continue
            ret = r.ret
            if not (isinstance(ret, Agg) and ret.name == 'Poll'):
                return bad(f'unexpected return {vrepr(ret)}', 'dial-ret', r)
            if ret.variant != 'Ready':
                continue
            out = ret.fields[0]
            if not (isinstance(out, Agg) and out.name == 'ConnectingOutput'):
                return bad(f'dial task completes with {vrepr(out)[:120]}, not a ConnectingOutput', 'dial-ret', r)
            cr = out.fields[struct_fields(CM, 'ConnectingOutput').index('connecting_result')]
            con = [e for e in r.events if e.kind == 'connect']
            hs = [e for e in r.events if e.kind == 'handshake']
            if len(con) > 1 or len(hs) > 1:
                return bad('more than one connect / handshake on a path', 'dial-multi', r)
            # which identity was requested: upvar `peer_id: Option<PeerId>`
            if con:
                c = con[0]
                kinds.add(c.name)
                if c.name == 'connect_with_expected_peer_id':
                    pid = c.args[1]
                    if not (isinstance(pid, z3.ExprRef) and re.fullmatch(r'gen\.\d+(\.\d+)*(\.\*)?@Some\.0', str(pid))):
                        return bad(f'expected identity passed to the endpoint is {vrepr(pid)}, not the caller\'s peer id', 'dial-expected-id', r)
                    src = re.match(r'(gen\.\d+(?:\.\d+)*(\.\*)?)@Some', str(pid)).group(1)
                    if not any(f'{src}.discr == 1' in str(z3.simplify(cnd)) for cnd in r.pc):
                        return bad('connect_with_expected_peer_id used although no identity was requested', 'dial-expected-id-none', r)
                else:
                    # plain connect only when no identity was requested
                    if not any(re.search(r'gen\.\d+(\.\d+)*(\.\*)?\.discr == 0', str(z3.simplify(cnd))) for cnd in r.pc):
                        return bad('plain connect() used although an expected identity was given', 'dial-ignores-expected-id', r)
            if (isinstance(cr, Agg) and cr.variant == 'Ok') or isinstance(cr, Sym):
                # the task reports (possible) success
                if not con or not hs:
                    return bad('dial reports success without having performed connect + handshake (listener acknowledgement)', 'dial-no-ack', r)
                conn = hs[0].args[0]
                if not re.fullmatch(r'poll\(connect_res_\w+@Ok\.0\)#1@Ok\.0', vname(conn)):
                    return bad(f'handshake is run on {vrepr(conn)}, not on the connection just established', 'dial-ack-wrong-conn', r)
                inner = cr.fields[0] if isinstance(cr, Agg) else cr
                # the reported connection is what the handshake returned, or the very connection it was run on after it returned Ok
                acked = vname(inner) == vname(conn) and any(re.search(r'poll\(hs_future\)#\d+\.discr == 0', str(z3.simplify(c))) for c in r.pc)
                if not vname(inner).startswith('poll(hs_future)#') and not acked:
                    return bad(f'dial result {vrepr(cr)} is not the outcome of the handshake', 'dial-result-not-ack', r)
                n_ok += 1
        if not n_ok or kinds != {'connect', 'connect_with_expected_peer_id'}:
            return ob.done([ex], 'inconclusive', f'vacuity: ok paths={n_ok}, connect kinds={kinds}', paths=len(res))
        ob.done([ex], 'held', '', {'paths': len(res), 'success_paths': n_ok, 'example': path_summary(res[0])}, paths=len(res))
    return guarded(report, 'dial_waits_for_listener_ack', 'every dial path that reports success performed exactly one connect and awaited wire::handshake on that connection; '
                   'the expected identity (if any) is passed unchanged to connect_with_expected_peer_id, plain connect only without one',
                   ['ConnectionManager::dial_peer_task'], {'inline_depth': 5, 'tokio::time::timeout': 'contract model'}, body)
