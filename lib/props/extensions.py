"""The identity the stream handler attaches to a request is what the application handler reads (C01): nothing the network itself puts between
`do_handle` and the service overwrites it.  Request extensions are a map keyed by TYPE: a built-in layer that inserts another value of the same
type (a second PeerId, say the local one) silently replaces the authenticated one."""
import re, z3
from common import *
import e2, mirdump
from e2 import *
from mirsym import mir as M
from mirsym.sym import derives_from
from props import rpcpath


def _calls(f):
    for blk in f.blocks.values():
        for st, _ in blk:
            if st and st[0] == 'call' and isinstance(st[2], str):
                yield st[2]


def _nested(prog, root):
    out = [root]
    for raw, fs in prog.fns.items():
        if raw.startswith(root.raw + '::{closure#'):
            out += [f for f in fs if f.blocks]
    return out


def _last_generic(text):
    """`A::<X, Y>::new` -> Y ; `Extensions::insert::<T>` -> T"""
    i = text.rfind('::<')
    if i < 0:
        return None
    depth, j = 0, i + 2
    for j in range(i + 2, len(text)):
        if text[j] == '<':
            depth += 1
        elif text[j] == '>':
            depth -= 1
            if depth == 0:
                break
    parts = [x.strip() for x in M.split_top(text[i + 3:j]) if not x.strip().startswith("'")]
    return parts[-1] if parts else None


def ob_identity_extensions_not_shadowed(report, prop):
    def body(ob):
        ex = e2.executor('anemo', [], max_depth=1)
        prog = ex.prog
        handler_fn = rpcpath.stream_handler_fn(prog)
        attached = set()
        # the handler body, its closures, and the crate-local helpers it calls (the inserts may sit in `attach_connection_info(&self, &mut request)` or a small metadata struct)
        hroots = _nested(prog, handler_fn)
        for g in e2.local_callees(prog, handler_fn, depth=2).values():
            if re.search(r'request_handler|connection', g.name) or (g.impl_span or '').find('request_handler') >= 0:
                hroots += _nested(prog, g)
        for f in {id(x): x for x in hroots}.values():
            for c in _calls(f):
                if re.search(r'(^|::)Extensions::insert::<', c):
                    attached.add(_last_generic(c))
        attached.discard(None)
        if not any(re.search(r'(^|::)PeerId$', t) for t in attached):
            return ob.done([ex], 'inconclusive', f'the stream handler attaches {sorted(attached)} - no PeerId - to the request (identity is conveyed differently)', paths=0)
        short = {t.rsplit('::', 1)[-1] for t in attached}
        # (1) the mechanism: AddExtension::call inserts its own value under its type T
        addext = [f for f in find_fns(prog, r'(^|::)add_extension::<impl>::call$') if f.blocks]
        n_paths = 0
        if addext:
            res = ex.run(addext[0], [])
            n_paths += len(res)
            ins = [e for r in res for e in r.events if e.kind == 'call' and str(e.name).endswith('Extensions::insert')]
            if not ins:
                return ob.done([ex], 'inconclusive', 'AddExtension::call does not insert into the request extensions (the middleware works differently)', paths=n_paths)
        # (2) every instantiation of an extension-adding layer, and every direct insert, in the code that assembles the inbound stack
        start = find_method(prog, 'Builder', 'start')
        roots = _nested(prog, start)
        for g in e2.local_callees(prog, start, depth=1).values():
            if re.search(r'network/mod\.rs', str(getattr(g, 'file', '') or '')) or g.name.startswith('network::'):
                roots += _nested(prog, g)
        seen, bad = [], []
        for f in {id(x): x for x in roots}.values():
            for c in _calls(f):
                if re.search(r'AddExtension(Layer)?::<.*>::(new|layer)$|add_extension::.*::layer::<', c) or re.search(r'(^|::)Extensions::insert::<', c):
                    t = _last_generic(c if not re.search(r'>::(new|layer)$', c) else c[:c.rfind('::')])
                    seen.append((f.name, M.strip_generics(c), t))
                    if t and t.rsplit('::', 1)[-1] in short:
                        bad.append((f.name, c, t))
        if bad:
            f_, c, t = bad[0]
            o = ob.done([ex], 'violated', f'{f_} adds an extension of type {t} to every inbound request ({M.strip_generics(c)}): extensions are keyed by type, so it replaces the '
                        f'{t} the stream handler attached from the authenticated connection - handlers and inbound layers read the wrong identity/attribute', {'attached_by_handler': sorted(attached), 'added_in_stack': seen},
                        key=f'ext-shadow:{t.rsplit("::", 1)[-1]}', paths=n_paths)
            o.replay = write_replay(prop, o.name, {'attached_by_handler': sorted(attached), 'shadowing': [list(b) for b in bad]})
            return o
        if not seen:
            return ob.done([ex], 'inconclusive', 'no extension layer found in Builder::start (the stack is assembled elsewhere)', paths=n_paths)
        ob.done([ex], 'held', '', {'attached_by_handler': sorted(attached), 'added_in_stack': [list(s) for s in seen]}, paths=n_paths)
    return guarded(report, 'identity_extensions_not_shadowed', 'the types the stream handler attaches to a request (authenticated PeerId, origin, remote address, direction) are disjoint from the '
                   'types any built-in inbound layer assembled in Builder::start inserts (type-keyed map: a second value of the same type replaces the first)',
                   ['BiStreamRequestHandler::do_handle', 'Builder::start', 'AddExtension::call'], {'instantiations': 'every generic instantiation in the MIR of Builder::start and its closures'}, body)
