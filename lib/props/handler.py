"""Obligations shared by C04/C05/C09/C12: the tail of InboundRequestHandler::start and the wiring of
ConnectionManager::add_peer."""
import re, z3
from common import *
import e2
from e2 import *
from props.cmodels import *

RH = 'crates/anemo/src/network/request_handler.rs'
CMF = 'crates/anemo/src/network/connection_manager.rs'


def run_handler_start(unroll=1, extra=(), depth=1):
    def m_rm(ex, p, call, k):
        p.events.append(Event('remove', call.short.split('::')[-1], call.args[1:], None, call.span))
        k(p, UNIT)
    ex = e2.executor('anemo', list(extra) + CONNECTION_MODELS + [(r'ActivePeers::(remove|remove_with_stable_id)$', m_rm)], max_depth=depth, unroll=unroll)
    e2.require_methods(ex.prog, ('ActivePeers', 'remove_with_stable_id'))
    parent = find_method(ex.prog, 'InboundRequestHandler', 'start')
    fn = find_closure(ex.prog, parent, [0])
    p, args = coroutine_start(ex, fn)
    res = ex.run(fn, args, p)
    return ex, fn, res


def ob_handler_tail(report, prop):
    def body(ob):
        ex, fn, res = run_handler_start(depth=3)
        hf = struct_fields(RH, 'InboundRequestHandler')
        own = f'gen.0.{hf.index("connection")}'
        n_tail = 0

        def bad(detail, key, r):
            o = ob.done([ex], 'violated', detail, path_summary(r), key=key, paths=len(res))
            o.replay = write_replay(prop, 'handler_tail', {'detail': detail, 'path': path_summary(r)})
            return o
        for r in res:
            rm = [e for e in r.events if e.kind == 'remove']
            done = r.tag == 'return' and isinstance(r.ret, Agg) and r.ret.variant == 'Ready'
            if len(rm) > 1:
                return bad('handler removes more than once', 'tail-multi-remove', r)
            if done and not rm:
                return bad('handler ends without removing its own connection from the active set', 'tail-no-remove', r)
            if rm:
                e = rm[0]
                if e.name != 'remove_with_stable_id':
                    return bad(f'handler exit removes by peer id only ({e.name}): the exit of a replaced connection would evict its replacement', 'tail-remove-by-peer', r)
                a = [str(x) if isinstance(x, z3.ExprRef) else vrepr(x) for x in map(e2.peel, e.args)]
                if a[0] != f'pid({own})' or a[1] != f'sid({own})':
                    return bad(f'handler exit removes ({a[0]}, {a[1]}), not (peer id, stable id) of its own connection', 'tail-remove-args', r)
                # reason: a DisconnectReason computed from the error that ended the loop
                if not (isinstance(e.args[2], Agg) and e.args[2].name == 'DisconnectReason'):
                    return bad(f'disconnect reason is {vrepr(e.args[2])}', 'tail-reason', r)
                n_tail += 1
                # the removal happens only after the accept loop ended with a connection error
                polls = [x for x in r.events if x.kind == 'poll' and 'PollFn' in x.name]
                if not polls:
                    return bad('removal without the accept loop having run', 'tail-before-loop', r)
        if not n_tail:
            return ob.done([ex], 'inconclusive', 'vacuity: no path reaches the tail', paths=len(res))
        ob.done([ex], 'held', '', {'paths': len(res), 'tail_paths': n_tail}, paths=len(res))
    return guarded(report, 'handler_exit_removes_own_connection_by_stable_id', 'InboundRequestHandler::start: after the accept loop ends the only removal is '
                   'remove_with_stable_id(connection.peer_id(), connection.stable_id(), reason) of its own connection, on every path, for every close reason',
                   ['InboundRequestHandler::start::{async body}', 'DisconnectReason::from_quinn_error'], {'loop_unroll': 1, 'inline_depth': 3, 'select!': 'outcome symbolic'}, body)


def ob_add_peer(report, prop):
    def body(ob):
        calls = []

        def m_add(ex, p, call, k):
            own = ex.deref(p, call.args[1])
            p.events.append(Event('add', 'ActivePeers::add', (own, call.args[2])))
            q = p.clone()
            p.events.append(Event('add-result', 'registered', ()))
            q.events.append(Event('add-result', 'refused', ()))
            k(p, MD_some(call.args[2]))
            k(q, MD_none())

        def m_own(ex, p, call, k):
            k(p, z3.BitVec('own', 256))

        def m_new_handler(ex, p, call, k):
            p.events.append(Event('handler', 'InboundRequestHandler::new', call.args))
            k(p, Sym('handler', 'InboundRequestHandler'))
        from mirsym import models as MD
        global MD_some, MD_none
        MD_some, MD_none = MD.some, (lambda: MD.NONE)
        ex = e2.executor('anemo', [(r'ActivePeers::add$', m_add), (r'Endpoint::peer_id$', m_own), (r'InboundRequestHandler::new$', m_new_handler)] + CONNECTION_MODELS, max_depth=1)
        fn = find_method(ex.prog, 'ConnectionManager', 'add_peer')
        res = ex.run(fn, [Ptr(('H', 'cm', 'ConnectionManager')), Sym('newconn', 'connection::Connection')])
        seen = set()

        def bad(detail, key, r):
            o = ob.done([ex], 'violated', detail, path_summary(r), key=key, paths=len(res))
            o.replay = write_replay(prop, 'add_peer', {'detail': detail, 'path': path_summary(r)})
            return o
        for r in res:
            if r.tag != 'return':
                return bad(f'add_peer can {r.tag}', 'add-peer-abnormal', r)
            adds = [e for e in r.events if e.kind == 'add']
            if len(adds) != 1:
                return bad(f'add_peer calls ActivePeers::add {len(adds)} times', 'add-peer-count', r)
            own, conn = adds[0].args
            if not (isinstance(own, z3.ExprRef) and str(own) == 'own'):
                return bad(f'own_peer_id passed to the tie-break is {vrepr(own)}, not this endpoint\'s identity', 'add-peer-own-id', r)
            if vname(conn) != 'newconn':
                return bad(f'connection passed to add is {vrepr(conn)}', 'add-peer-conn', r)
            hs = [e for e in r.events if e.kind == 'handler']
            sp = [e for e in r.events if e.kind == 'call' and e.name.endswith('JoinSet::spawn')]
            kept = any('discr == 1' in str(z3.simplify(c)) for c in r.pc) or len(hs) > 0
            registered = any(e.kind == 'add-result' and e.name == 'registered' for e in r.events)
            if registered and not (len(hs) == 1 and len(sp) == 1):
                return bad('a connection that add() registered (it is listed and was announced) gets no request handler: nothing will ever remove it from the active set when it ends',
                           'add-peer-registered-without-handler', r)
            ab = [e for e in r.events if e.kind == 'call' and re.search(r'(AbortHandle|JoinHandle|JoinSet)::(abort|abort_all|shutdown)$', str(e.name))]
            if ab and not registered:
                return bad(f'add_peer stops a running request handler ({ab[0].name}) although the tie-break refused the new connection: the connection that stays registered '
                           'is left without a handler - requests on it are never served and its loss is never noticed', 'add-peer-aborts-survivor', r)
            if hs:
                seen.add('kept')
                if len(hs) != 1 or len(sp) != 1 or vname(hs[0].args[1]) != 'newconn':
                    return bad('a registered connection does not get exactly one request handler for itself', 'add-peer-handler', r)
            else:
                seen.add('dropped')
                if sp:
                    return bad('handler spawned although add() refused the connection', 'add-peer-handler-refused', r)
        if seen != {'kept', 'dropped'}:
            return ob.done([ex], 'inconclusive', f'vacuity: {seen}', paths=len(res))
        ob.done([ex], 'held', '', {'paths': len(res)}, paths=len(res))
    return guarded(report, 'add_peer_wiring', 'ConnectionManager::add_peer passes (this endpoint\'s identity, the new connection) to ActivePeers::add and starts exactly one '
                   'handler iff the connection was registered', ['ConnectionManager::add_peer'], {'inline_depth': 1}, body)


def ob_handler_failure_not_ignored(report, prop):
    """the manager's event loop and a connection handler that ended abnormally: the handler task is the only thing that takes its connection out of the
    active set (and announces LostPeer).  If the task died before doing so (a panic re-raised from a request task), carrying on as if nothing happened
    leaves that peer listed - and never announced lost - for good.  The loop must either propagate the failure or remove the connection itself."""
    def body(ob):
        def m_poll_fn(ex, p, call, k):
            p.events.append(Event('select', 'poll_fn', (call.args[0],)))
            k(p, Sym(f'select_future{p.seq("sel")}', 'PollFn'))

        def m_is_panic(ex, p, call, k):
            # nothing aborts a handler task while the loop runs (add_peer_wiring): a JoinError of a handler is a panic
            k(p, z3.BoolVal(True))

        def m_try_into_panic(ex, p, call, k):
            k(p, MD.ok(Sym('panic_payload', 'Box<dyn Any + Send>')))

        def m_diverge(ex, p, call, k):
            p.events.append(Event('panic', call.short, (), None, call.span, call.depth))
            ex.end_path(p, 'panic', call.short)

        def m_rm(ex, p, call, k):
            p.events.append(Event('remove', call.short.split('::')[-1], call.args[1:], None, call.span))
            k(p, UNIT)
        from mirsym import models as MD
        models = [(r'future::poll_fn$', m_poll_fn), (r'JoinError::is_panic$', m_is_panic), (r'JoinError::is_cancelled$', lambda ex, p, call, k: k(p, z3.BoolVal(False))),
                  (r'JoinError::try_into_panic$', m_try_into_panic), (r'panic::resume_unwind$|panic::panic_any$', m_diverge),
                  (r'ActivePeers::(remove|remove_with_stable_id)$', m_rm)] + CONNECTION_MODELS
        # the arm bodies may be private methods of the manager (`handle_connection_handler_joined(out)`): those are entered; the big handlers are not the subject
        ex = e2.executor('anemo', models, max_depth=2, unroll=1, fixed_bounds=True,
                         opaque=[r'ConnectionManager::(handle_connect_request|handle_incoming|handle_connecting_result|handle_connectivity_check|shutdown|add_peer|dial_peer)$'])
        start = find_method(ex.prog, 'ConnectionManager', 'start')
        fn = find_closure(ex.prog, start, [0])
        p, args = coroutine_start(ex, fn)
        res = ex.run(fn, args, p)
        n, seen_ok = 0, 0
        for r in res:
            # arms of the select!, in the order their futures are created; the handler arm = join_next on the JoinSet<()> of handler tasks
            arms = [e for e in r.events if e.kind == 'call' and re.search(r'Interval::tick$|Receiver::recv$|Endpoint::accept$|JoinSet::join_next$', str(e.name))]
            sel = [i for i, e in enumerate(r.events) if e.kind == 'select']
            if not sel:
                continue
            first = [e for e in r.events[:sel[0]] if e in arms]
            hidx = None
            for i, e in enumerate(first):
                if str(e.name).endswith('JoinSet::join_next'):
                    a0 = e.args[0] if e.args else None
                    ty = (getattr(a0, 'pty', '') or '') + ' ' + str(e.ret.ty if isinstance(e.ret, Sym) else '')
                    if re.search(r'JoinSet<\(\)>', ty):
                        hidx = i
            if hidx is None:
                continue
            pcs = ' '.join(str(z3.simplify(c)) for c in r.pc)
            base = f'poll(select_future1)#1'
            if f'{base}.discr == {hidx}' not in pcs or f'{base}@_{hidx}.0.discr == 1' not in pcs or f'{base}@_{hidx}.0@Some.0.discr == 1' not in pcs:
                continue
            n += 1
            removed = any(e.kind == 'remove' for e in r.events[sel[0]:])
            if r.tag in ('panic', 'diverge') or removed:
                seen_ok += 1
                continue
            o = ob.done([ex], 'violated', 'the connection manager loop carries on after a connection handler task ended abnormally (JoinError) without propagating the failure or removing '
                        'that connection: the handler is what deregisters its connection, so the peer stays listed and no LostPeer is ever published for it', path_summary(r),
                        key='handler-failure-ignored', paths=len(res))
            o.replay = write_replay(prop, o.name, path_summary(r))
            return o
        if not n:
            return ob.done([ex], 'inconclusive', 'the handler-exit arm of the manager loop (join_next on the JoinSet<()> of handler tasks yielding Some(Err)) was not reached', paths=len(res))
        ob.done([ex], 'held', '', {'paths': len(res), 'handler_failure_paths': n}, paths=len(res))
    return guarded(report, 'handler_failure_not_ignored', 'ConnectionManager::start, one iteration from an arbitrary state: when join_next on the handler tasks yields Some(Err(JoinError)) the loop '
                   'propagates it (panics) or removes the connection - it never just continues', ['ConnectionManager::start'],
                   {'loop_unroll': 1, 'select outcome': 'symbolic', 'JoinError': 'is a panic (nothing cancels handler tasks)'}, body)
