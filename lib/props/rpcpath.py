"""Obligations on the per-stream RPC path (Peer::do_rpc, BiStreamRequestHandler::do_handle, the select!
race, SendStream::drop) shared by C01, C02, C12."""
import re, z3
from common import *
import e2, mirdump
from e2 import *
from mirsym import models as MD
from mirsym.sym import derives_from
from props.cmodels import *

RH = 'crates/anemo/src/network/request_handler.rs'


def viol(prop, ob, exs, detail, key, sample, n):
    o = ob.done(exs, 'violated', detail, sample, key=key, paths=n)
    o.replay = write_replay(prop, o.name, {'detail': detail, 'sample': sample})
    return o


def handle_models():
    def m_read_request(ex, p, call, k):
        p.events.append(Event('read-request', 'read_request', (ex.deref(p, call.args[0]),)))
        k(p, Sym('read_request_future', 'ReadRequest'))

    def m_write_response(ex, p, call, k):
        p.events.append(Event('write-response', 'write_response', (ex.deref(p, call.args[0]), call.args[1])))
        k(p, Sym('write_response_future', 'WriteResponse'))

    def m_ext_insert(ex, p, call, k):
        p.events.append(Event('ext-insert', 'Extensions::insert', (call.args[1],)))
        k(p, MD.NONE)

    def m_oneshot(ex, p, call, k):
        p.events.append(Event('invoke', 'ServiceExt::oneshot', (call.args[0], call.args[1])))
        k(p, Sym('handler_future', 'Oneshot'))

    def m_ready(ex, p, call, k):
        p.events.append(Event('svc-ready', 'ServiceExt::ready', (call.args[0],)))
        k(p, Sym('ready_future', 'Ready'))

    def m_svc_call(ex, p, call, k):
        p.events.append(Event('invoke', 'Service::call', (ex.deref(p, call.args[0]), call.args[1])))
        k(p, Sym('handler_future', 'F'))

    def m_stopped(ex, p, call, k):
        p.events.append(Event('stopped', 'SendStream::stopped', (ex.deref(p, call.args[0]),)))
        k(p, Sym(f'stopped_future{p.seq("st")}', 'Stopped'))

    def m_finish(ex, p, call, k):
        p.events.append(Event('finish', 'SendStream::finish', (ex.deref(p, call.args[0]),)))
        k(p, Sym(f'finish_result{p.seq("fin")}', 'Result<(), ClosedStream>'))

    def m_poll_fn(ex, p, call, k):
        # tokio::select! = poll_fn(closure capturing (&mut disabled_mask, &mut futures)); the mask is pre-set by `, if cond` guards
        clo = call.args[0]
        mask = None
        try:
            d0 = ex.project(clo, ('field', 0, ''))
            mask = ex.deref(p, d0) if isinstance(d0, Ptr) else d0
        except Exception:
            mask = None
        p.events.append(Event('select', 'poll_fn', (call.args[0], mask)))
        k(p, Sym('select_future', 'PollFn').with_ov('closure', call.args[0]))
    return [(r'(^|::)read_request$', m_read_request), (r'(^|::)write_response$', m_write_response), (r'Extensions::insert$', m_ext_insert),
            (r'ServiceExt>::oneshot$', m_oneshot), (r'ServiceExt>::ready$', m_ready), (r'BoxCloneService as Service>::call$|as Service>::call$', m_svc_call),
            (r'SendStream::stopped$', m_stopped), (r'SendStream::finish$', m_finish), (r'future::poll_fn$', m_poll_fn)] + CONNECTION_MODELS


def stream_handler_fn(prog):
    """the per-stream request handler body: `do_handle` at the pinned commit; after a rename, the outermost fallible async
    method of BiStreamRequestHandler that reaches wire::read_request"""
    return e2.find_role_method(prog, 'BiStreamRequestHandler', ['do_handle'], r'(^|::)read_request$', ret_re=r'Poll<(std::result::)?Result<')


def run_do_handle():
    ex = e2.executor('anemo', handle_models(), max_depth=3)
    parent = stream_handler_fn(ex.prog)
    fn = find_closure(ex.prog, parent, [0])
    p, args = coroutine_start(ex, fn)
    res = ex.run(fn, args, p)
    return ex, fn, res


FRAMED_STATE = re.compile(r'Framed(Read|Write)?::(read_buffer_mut|write_buffer_mut|from_parts|into_parts|with_capacity|map_decoder|map_encoder|decoder_mut|encoder_mut)$|FramedParts::')


def framed_state_touched(r):
    """a call that reaches into a framed stream's buffers/codec state: the decoder of a stream must see that stream's bytes only (a buffer carried
    over from another stream, or bytes left over from this one handed on, make one request's outcome depend on another's)"""
    for e in r.events:
        if e.kind == 'call' and FRAMED_STATE.search(str(e.name)):
            return str(e.name)
    return None


def ob_do_handle(report, prop):
    def body(ob):
        ex, fn, res = run_do_handle()
        hf = struct_fields(RH, 'BiStreamRequestHandler')
        seen = set()
        SELF = e2.upvar_base(ex, fn, 0)       # `self` moved into the future (gen.0) or borrowed by it (`&mut self`: gen.0.*)
        for r in res:
            fs_ = framed_state_touched(r)
            if fs_:
                return viol(prop, ob, [ex], f'the stream handler reaches into the framed stream\'s internal buffer/codec state ({fs_.split("::")[-1]}): what one request stream decodes '
                            'may then depend on bytes of another stream', 'handle-framed-state', path_summary(r), len(res))
            if r.tag in ('panic', 'diverge'):
                # `response.expect("Infallible")` on the service result
                if any('Infallible' in repr(e) or 'expect' in str(e.name) for e in r.events[-4:]):
                    continue
                return viol(prop, ob, [ex], f'do_handle can {r.tag}', 'handle-abnormal', path_summary(r), len(res))
            if r.tag != 'return':
                continue
            evs = r.events
            inv = [i for i, e in enumerate(evs) if e.kind == 'invoke']
            rr = [i for i, e in enumerate(evs) if e.kind == 'read-request']
            wr = [i for i, e in enumerate(evs) if e.kind == 'write-response']
            sel = [i for i, e in enumerate(evs) if e.kind == 'select']
            if len(rr) != 1 or vname(evs[rr[0]].args[0]) != f'{SELF}.{hf.index("recv_stream")}':
                return viol(prop, ob, [ex], 'the request is not read exactly once from the stream\'s own receive half', 'handle-read', path_summary(r), len(res))
            if len(inv) > 1:
                return viol(prop, ob, [ex], 'a request is delivered to the service more than once', 'handle-double-invoke', path_summary(r), len(res))
            if inv:
                seen.add('invoked')
                req = evs[inv[0]].args[1]
                if inv[0] < rr[0] or vname(req) != 'poll(read_request_future)#1@Ok.0':
                    return viol(prop, ob, [ex], f'the service is invoked with {vrepr(req)[:80]}, not with the request decoded from this stream (after decoding succeeded)', 'handle-invoke-arg', path_summary(r), len(res))
                svc_v = evs[inv[0]].args[0]
                svc_own = f'{SELF}.{hf.index("service")}'
                if vname(svc_v) != svc_own and not (isinstance(svc_v, Sym) and (svc_v.get_ov('from') or ('', ()))[0].endswith('Clone>::clone') and
                                                    vname(ex.deref(r.path, svc_v.get_ov('from')[1][0]) if isinstance(svc_v.get_ov('from')[1][0], Ptr) else svc_v.get_ov('from')[1][0]) == svc_own):
                    return viol(prop, ob, [ex], 'the service invoked is not the handler\'s own service', 'handle-service', path_summary(r), len(res))
                if not any('poll(read_request_future)#1.discr == 0' in str(z3.simplify(c)).replace('0 == poll(read_request_future)#1.discr', 'poll(read_request_future)#1.discr == 0') for c in r.pc):
                    return viol(prop, ob, [ex], 'service invoked although decoding the request failed', 'handle-invoke-after-error', path_summary(r), len(res))
                # identity extensions are attached before the service sees the request
                ext = [e for e in evs[:inv[0]] if e.kind == 'ext-insert']
                ids = [str(e.args[0]) for e in ext if isinstance(e.args[0], z3.ExprRef)]
                own = f'{SELF}.{hf.index("connection")}'
                if f'pid({own})' not in ids:
                    return viol(prop, ob, [ex], f'the authenticated peer id of the connection is not attached to the request before the service is invoked (attached: {[vrepr(e.args[0])[:40] for e in ext]})',
                                'handle-peer-id-ext', path_summary(r), len(res))
                # nothing awaited between decoding and the cancellation race except the race itself
                between = [e for e in evs[rr[0]:sel[0] if sel else len(evs)] if e.kind == 'poll' and 'read_request_future' not in vrepr(e.args[0])]
                if between:
                    return viol(prop, ob, [ex], f'do_handle awaits {between[0].name[:90]} outside the cancellation race (before select on stopped()): an RPC abandoned meanwhile is not cancelled',
                                'handle-await-outside-race', path_summary(r), len(res))
            if wr:
                seen.add('responded')
                if len(wr) != 1 or not inv or not sel or wr[0] < sel[0]:
                    return viol(prop, ob, [ex], 'a response is written without the service having produced one', 'handle-write-without-invoke', path_summary(r), len(res))
                w = evs[wr[0]]
                if vname(w.args[0]) != f'{SELF}.{hf.index("send_stream")}':
                    return viol(prop, ob, [ex], 'the response is not written to the send half of the same stream', 'handle-write-stream', path_summary(r), len(res))
                if not re.fullmatch(r'poll\(select_future\)#1@_0\.0(@Ok\.0)?', vname(w.args[1])):
                    return viol(prop, ob, [ex], f'the response written is {vrepr(w.args[1])[:80]}, not the value the service returned', 'handle-write-value', path_summary(r), len(res))
                clo = evs[sel[0]].args[0]
                if not derives_from(clo, lambda v: isinstance(v, Sym) and v.name == 'handler_future', ex=ex, p=r.path) or \
                        not derives_from(clo, lambda v: isinstance(v, Sym) and v.name.startswith('stopped_future'), ex=ex, p=r.path):
                    return viol(prop, ob, [ex], 'the service future is not raced against stopped() of the response stream', 'handle-race-missing', path_summary(r), len(res))
            if sel:
                mask = evs[sel[0]].args[1] if len(evs[sel[0]].args) > 1 else None
                if isinstance(mask, z3.ExprRef):
                    qm, mm, _ = e2.solve(r.pc + [mask != z3.BitVecVal(0, mask.size())])
                    ex.queries += 1
                    if qm != 'unsat':
                        return viol(prop, ob, [ex], 'a branch of the race between the handler and stopped() is disabled under some condition (a `, if ..` guard on the select arm): '
                                    'for such requests an abandoned RPC is not cancelled (or its response is never awaited)', 'handle-race-guarded', path_summary(r), len(res))
            # cancelled branch: Out::_1 => Err, nothing written
            pcs = ' '.join(str(z3.simplify(c)) for c in r.pc)
            if re.search(r'(?<!Not\()poll\(select_future\)#1\.discr == 0', pcs.replace('0 == poll(select_future)#1.discr', 'poll(select_future)#1.discr == 0')) and not wr:
                # the service won the race: whatever it produced (a RequestTimeout status included) is the caller's response
                return viol(prop, ob, [ex], 'the service produced a response but the handler ends without writing it: the caller sees a reset stream instead of the response '
                            '(status, headers, body) the service returned', 'handle-response-dropped', path_summary(r), len(res))
            if 'poll(select_future)#1.discr == 1' in pcs:
                seen.add('cancelled')
                if wr or not (isinstance(r.ret, Agg) and r.ret.variant == 'Ready' and isinstance(r.ret.fields[0], Agg) and r.ret.fields[0].variant == 'Err'):
                    return viol(prop, ob, [ex], 'when the caller stopped the response stream the handler is not abandoned with an error', 'handle-cancel', path_summary(r), len(res))
        if not {'invoked', 'responded', 'cancelled'} <= seen:
            return ob.done([ex], 'inconclusive', f'vacuity: {seen}', paths=len(res))
        ob.done([ex], 'held', '', {'paths': len(res), 'cases': sorted(seen)}, paths=len(res))
    return guarded(report, 'one_request_one_invocation_one_response', 'BiStreamRequestHandler::do_handle: request read once from its own stream; service invoked at most once, only after a successful decode, '
                   'with that request and the authenticated peer id attached; nothing awaited outside the race with stopped(); response written = the service\'s value, to the same stream; '
                   'stopped first => Err and nothing written', ['BiStreamRequestHandler::do_handle'], {'inline_depth': 1, 'poll outcomes': 'symbolic'}, body)


def ob_select_race(report, prop):
    def body(ob):
        def m_rng(ex, p, call, k):
            v = z3.BitVec('start', 32)
            p.pc.append(z3.ULT(v, 2))
            k(p, v)

        def m_poll(ex, p, call, k):
            which = 'handler' if re.search(r'Oneshot|BoxFuture|handler', call.short) else 'stopped'
            n = p.seq('poll-' + which)
            q = p.clone()
            val = Sym(f'{which}_out{n}', '')
            p.events.append(Event('race-poll', which, (), 'ready'))
            k(p, Agg('Poll', 'Ready', (val,)))
            q.events.append(Event('race-poll', which, (), 'pending'))
            k(q, Agg('Poll', 'Pending', ()))
        ex = e2.executor('anemo', [(r'thread_rng_n$', m_rng), (r' as Future>::poll$', m_poll)], max_depth=2, unroll=3)
        parent = stream_handler_fn(ex.prog)
        # the poll closure of the `tokio::select!` expansion: the (only) closure under do_handle that draws the random start index
        cands = e2.find_closures_calling(ex.prog, parent, r'thread_rng_n$')
        if not cands:       # the race may live in a helper the handler calls (a method of the same impl or a free function of the crate)
            cands = e2.find_closures_calling(ex.prog, parent, r'thread_rng_n$', transitive=True)
        if len(cands) != 1:
            raise NotFound(f'select! poll closure of the per-stream handler: {len(cands)} candidates')
        fn = cands[0]
        p = Path()
        p.mem[('H', 'disabled', 'u8')] = z3.BitVecVal(0, 8)
        env = Agg('{closure}', None, (Ptr(('H', 'disabled', 'u8'), (), True), Ptr(('H', 'futs', '(Oneshot, Stopped)'), (), True)), 'closure')
        p.mem[('H', 'env', '')] = env
        res = ex.run(fn, [Ptr(('H', 'env', ''), (), True), Sym('cx', 'Context')], p)
        seen = set()
        for r in res:
            if r.tag != 'return':
                continue            # shift-overflow asserts / range iteration beyond the unrolling bound: artefacts of the symbolic start index
            pl = [(e.name, e.ret) for e in r.events if e.kind == 'race-poll']
            readies = [i for i, (w, o) in enumerate(pl) if o == 'ready']
            ret = r.ret
            if readies:
                i = readies[0]
                which = pl[i][0]
                idx = 0 if which == 'handler' else 1
                seen.add((which, 'first' if i == 0 else 'later'))
                okr = (i == len(pl) - 1 and isinstance(ret, Agg) and ret.variant == 'Ready' and isinstance(ret.fields[0], Agg) and f'_{idx}' in (ret.fields[0].variant, ret.fields[0].name)
                       and vname(ret.fields[0].fields[0]).startswith(f'{which}_out'))
                if not okr:
                    what = 'the caller stopping the response stream (or the connection ending)' if which == 'stopped' else 'the handler completing'
                    return viol(prop, ob, [ex], f'select race: {what} is not taken as the outcome of the race for every completion value: polls {pl}, result {vrepr(ret)[:80]} '
                                '(a branch pattern that does not match every value leaves the other future running)', f'race-{which}-ignored', path_summary(r), len(res))
            else:
                if not (isinstance(ret, Agg) and ret.variant == 'Pending'):
                    return viol(prop, ob, [ex], f'no future ready but the race returns {vrepr(ret)[:60]}', 'race-spurious', path_summary(r), len(res))
        need = {('handler', 'first'), ('stopped', 'first'), ('handler', 'later'), ('stopped', 'later')}
        if not need <= seen:
            return ob.done([ex], 'inconclusive', f'vacuity: {sorted(seen)}', paths=len(res))
        ob.done([ex], 'held', '', {'paths': len(res), 'orders': sorted(map(str, seen))}, paths=len(res))
    return guarded(report, 'cancellation_race', 'the select! poll closure of do_handle, for every start index and every readiness order: whichever of (service future, stopped()) completes first - with ANY '
                   'value, including an error from a lost connection - ends the race with that outcome; nothing is polled afterwards', ['BiStreamRequestHandler::do_handle::{select closure}'],
                   {'loop_unroll': 3, 'start index': 'symbolic', 'poll outcomes': 'symbolic'}, body)


def ob_send_stream_drop(report, prop):
    def body(ob):
        ex = e2.executor('anemo', [], max_depth=1)
        fns = [f for f in find_fns(ex.prog, r'(^|::)<impl>::drop$') if re.search(r'&mut (\w+::)*SendStream$', f.decl.get(f.args[0], '').strip()) and 'quinn' not in f.decl.get(f.args[0], '')]      # wherever the wrapper lives
        if len(fns) != 1:
            return ob.done([ex], 'inconclusive', 'SendStream::drop not found', paths=0)
        res = ex.run(fns[0], [])
        for r in res:
            calls = [e for e in r.events if e.kind == 'call']
            rs = [e for e in calls if e.name.endswith('quinn::SendStream::reset')]
            if r.tag != 'return' or len(rs) != 1 or any(e.name.endswith('quinn::SendStream::finish') for e in calls):
                return viol(prop, ob, [ex], f'dropping a SendStream does not reset it (calls: {[e.name.split("::")[-1] for e in calls]}): an abandoned or failed write would look like a clean end of stream',
                            'drop-no-reset', path_summary(r), len(res))
        ob.done([ex], 'held', '', {'paths': len(res)}, paths=len(res))
    return guarded(report, 'send_stream_drop_resets', 'SendStream::drop always calls reset() (and never finish()): an abandoned RPC or failed write is signalled, never mistaken for a complete message',
                   ['<SendStream as Drop>::drop'], {}, body)


def ob_do_rpc(report, prop):
    def body(ob):
        def m_open_bi(ex, p, call, k):
            p.events.append(Event('open-bi', 'Connection::open_bi', (ex.deref(p, call.args[0]),)))
            k(p, Sym('open_bi_future', 'OpenBi'))

        def m_wreq(ex, p, call, k):
            p.events.append(Event('write-request', 'write_request', (ex.deref(p, call.args[0]), call.args[1])))
            k(p, Sym('write_request_future', 'W'))

        def m_rresp(ex, p, call, k):
            p.events.append(Event('read-response', 'read_response', (ex.deref(p, call.args[0]),)))
            k(p, Sym('read_response_future', 'R'))

        def m_framed(ex, p, call, k):
            kind = 'write' if 'FramedWrite' in call.short else 'read'
            k(p, Sym(f'framed_{kind}', call.retty).with_ov('io', call.args[0]))

        def m_finish(ex, p, call, k):
            p.events.append(Event('finish', 'finish', (ex.deref(p, call.args[0]),)))
            k(p, Sym('finish_result', 'Result<(), ClosedStream>'))

        def m_get_mut(ex, p, call, k):
            s = ex.deref(p, call.args[0])
            io = s.get_ov('io') if isinstance(s, Sym) else None
            cell = ('H', f'io({vname(s)})', '')
            if io is not None:
                p.mem[cell] = io
            k(p, Ptr(cell, (), True))

        def m_ext_insert(ex, p, call, k):
            p.events.append(Event('ext-insert', 'Extensions::insert', (call.args[1],)))
            k(p, MD.NONE)
        models = [(r'Connection::open_bi$', m_open_bi), (r'(^|::)write_request$', m_wreq), (r'(^|::)read_response$', m_rresp), (r'Framed(Read|Write)::new$', m_framed),
                  (r'SendStream::finish$', m_finish), (r'Framed(Read|Write)::get_mut$', m_get_mut), (r'Extensions::insert$', m_ext_insert)] + CONNECTION_MODELS
        ex = e2.executor('anemo', models, max_depth=3)
        parent = find_method(ex.prog, 'Peer', 'do_rpc')
        fn = find_closure(ex.prog, parent, [0])
        p, args = coroutine_start(ex, fn)
        res = ex.run(fn, args, p)
        pf = struct_fields('crates/anemo/src/network/peer.rs', 'Peer')
        n_ok = 0
        for r in res:
            if r.tag != 'return':
                return viol(prop, ob, [ex], f'do_rpc can {r.tag}', 'rpc-abnormal', path_summary(r), len(res))
            # a request the sender could not write (refused by its own codec, stream error) ends the RPC there: nothing is awaited afterwards
            wq_ = [i for i, e in enumerate(r.events) if e.kind == 'write-request']
            if wq_:
                wfail = any(re.search(r'poll\(write_request_future\)#\d+\.discr == 1', str(z3.simplify(c)).replace('1 == poll', 'poll')) or
                            re.search(r'1 == poll\(write_request_future\)#\d+\.discr', str(z3.simplify(c))) for c in r.pc)
                if wfail and any(e.kind == 'read-response' for e in r.events[wq_[0]:]):
                    return viol(prop, ob, [ex], 'after write_request failed (e.g. the request exceeds the sender\'s own frame limit) do_rpc still waits for a response: '
                                'the refusal is not reported promptly and both sides wait on each other', 'rpc-write-error-ignored', path_summary(r), len(res))
            if not (isinstance(r.ret, Agg) and r.ret.variant == 'Ready' and isinstance(r.ret.fields[0], Agg) and r.ret.fields[0].variant == 'Ok'):
                continue
            n_ok += 1
            evs = r.events
            ob_ = [e for e in evs if e.kind == 'open-bi']
            wq = [i for i, e in enumerate(evs) if e.kind == 'write-request']
            rp = [i for i, e in enumerate(evs) if e.kind == 'read-response']
            fi = [i for i, e in enumerate(evs) if e.kind == 'finish']
            if len(ob_) != 1 or vname(ob_[0].args[0]) != f'{e2.upvar_base(ex, fn)}.{pf.index("connection")}':
                return viol(prop, ob, [ex], 'an RPC does not open exactly one fresh bidirectional stream on the peer\'s connection', 'rpc-stream', path_summary(r), len(res))
            if len(wq) != 1 or len(rp) != 1 or len(fi) != 1 or not (wq[0] < fi[0] < rp[0]):
                return viol(prop, ob, [ex], 'a successful RPC is not: write request, finish the send half, read response - each exactly once, in that order', 'rpc-order', path_summary(r), len(res))
            w, rd = evs[wq[0]], evs[rp[0]]
            wio = w.args[0].get_ov('io') if isinstance(w.args[0], Sym) else None
            rio = rd.args[0].get_ov('io') if isinstance(rd.args[0], Sym) else None
            pair = 'poll(open_bi_future)#1@Ok.0'
            if wio is None or rio is None:
                return ob.done([ex], 'inconclusive', f'the framed streams handed to write_request/read_response ({vrepr(w.args[0])[:60]}, {vrepr(rd.args[0])[:60]}) are not built by '
                               'FramedWrite::new/FramedRead::new directly over the stream halves: wrapper this obligation cannot follow', paths=len(res))
            if not (wio is not None and rio is not None and vname(wio) == pair + '.0' and vname(rio) == pair + '.1'):
                return viol(prop, ob, [ex], f'request and response do not travel on the two halves of the stream opened for this RPC ({vrepr(wio)}, {vrepr(rio)})', 'rpc-halves', path_summary(r), len(res))
            if vname(w.args[1]) != 'gen.1':
                return viol(prop, ob, [ex], f'the request written is {vrepr(w.args[1])}, not the caller\'s request', 'rpc-request', path_summary(r), len(res))
            resp = r.ret.fields[0].fields[0]
            if not vname(resp).startswith('poll(read_response_future)#1@Ok.0'):
                return viol(prop, ob, [ex], f'the response returned is {vrepr(resp)[:80]}, not the one read from this stream', 'rpc-response', path_summary(r), len(res))
            ext = [e for e in evs[rp[0]:] if e.kind == 'ext-insert']
            if not any(isinstance(e.args[0], z3.ExprRef) and str(e.args[0]) == f'pid({e2.upvar_base(ex, fn)}.{pf.index("connection")})' for e in ext):
                return viol(prop, ob, [ex], 'the response is not tagged with the authenticated peer id of the connection it came from', 'rpc-peer-id-ext', path_summary(r), len(res))
        if not n_ok:
            return ob.done([ex], 'inconclusive', 'no successful path', paths=len(res))
        ob.done([ex], 'held', '', {'paths': len(res), 'success_paths': n_ok}, paths=len(res))
    return guarded(report, 'one_stream_per_rpc', 'Peer::do_rpc: one fresh bi stream on the peer\'s connection; the caller\'s request is written to its send half, the half is finished, the response is read from '
                   'its receive half and returned, tagged with the connection\'s authenticated peer id', ['Peer::do_rpc'], {'inline_depth': 3}, body)


def ob_rpc_not_detached(report, prop):
    """Peer::call / do_rpc (and the futures they return) never hand the RPC to a spawned task: dropping the caller's future drops
    the streams (which resets / stops them), so the remote side learns of the abandonment"""
    def body(ob):
        ex = e2.executor('anemo', [], max_depth=2)
        ms = dict(e2.methods_of(ex.prog, 'Peer'))
        ms.update({'<Service>::' + k_: v_ for k_, v_ in e2.methods_of(ex.prog, 'Peer', trait='Service').items()})
        SP = re.compile(r'(^|::)(spawn|spawn_local|spawn_blocking|spawn_on)$|JoinSet::spawn\w*$|Handle::spawn\w*$')
        total = 0
        checked = []
        for name, f in sorted(ms.items()):
            bodies = [f] + [g for raw, fs in ex.prog.fns.items() if raw.startswith(f.raw + '::{closure#') for g in fs]
            for g in bodies:
                try:
                    if g.args and g.decl.get(g.args[0], '').startswith('Pin<&mut {'):
                        p, args = coroutine_start(ex, g)
                        res = ex.run(g, args, p)
                    else:
                        res = ex.run(g, [])
                except (Unmodelled, NotFound):
                    continue
                total += len(res)
                checked.append(g.name)
                for r in res:
                    sp = [e for e in r.events if e.kind == 'call' and SP.search(str(e.name))]
                    if sp:
                        return viol(prop, ob, [ex], f'{g.name} hands work to a spawned task ({sp[0].name}): the RPC is detached from the future the caller holds, so abandoning '
                                    'that future no longer resets/stops the streams and the remote handler is never cancelled', 'rpc-detached', path_summary(r), total)
        if not any('call' in c for c in checked):
            return ob.done([ex], 'inconclusive', f'Peer::call not analysed: {checked[:6]}', paths=total)
        ob.done([ex], 'held', '', {'bodies': checked[:20], 'paths': total}, paths=total)
    return guarded(report, 'rpc_lives_in_callers_future', 'no method of Peer (nor any future it returns) spawns a task: an RPC is driven only by the future its caller holds, so dropping that '
                   'future drops both stream halves (RESET / STOP_SENDING reach the remote)', ['Peer::*'], {'inline_depth': 2}, body)


def ob_send_stream_transparent(report, prop):
    """anemo's SendStream wrapper adds nothing to the byte stream: each poll_write hands exactly the caller's buffer to the quinn stream once and
    reports exactly what quinn reports (a wrapper that loops over partial writes and then reports Pending has written a prefix the caller will
    write again: the receiver sees duplicated bytes inside a frame of the right length)"""
    def body(ob):
        def m_inner(ex_, p, call, k):
            buf = call.args[2]
            p.events.append(Event('inner-write', 'quinn::SendStream::poll_write', (ex_.deref(p, call.args[0]), buf)))
            k(p, Sym(f'inner_write{p.seq("iw")}', 'Poll<Result<usize, quinn::WriteError>>'))

        def m_map_err(ex_, p, call, k):
            v = call.args[0]
            k(p, Sym(f'map_err({vname(v)})', call.retty).with_ov('from', ('Poll::map_err', (v,))))
        ex = e2.executor('anemo', [(r'quinn::SendStream::poll_write$|<quinn::SendStream as (\w+::)*AsyncWrite>::poll_write$', m_inner),
                                   (r'Poll::<.*>::map_err(::<.*>)?$|Poll::map_err$', m_map_err)], max_depth=2, unroll=3)
        fn = find_method(ex.prog, 'SendStream', 'poll_write', trait='AsyncWrite', file_re=r'anemo/src/connection\.rs')
        p = Path()
        p.mem[('H', 'ss', 'SendStream')] = Sym('ss', 'connection::SendStream')
        p.mem[('H', 'buf', '[u8]')] = Sym('buf', '[u8]')
        res = ex.run(fn, [Ptr(('H', 'ss', 'SendStream'), (), True), Sym('cx', 'Context'), Ptr(('H', 'buf', '[u8]'))], p)
        n = 0
        for r in res:
            if r.tag == 'loop-bound':
                return viol(prop, ob, [ex], 'SendStream::poll_write loops over the inner stream: after a partial write it can report Pending (or an error) for bytes that were '
                            'already handed to QUIC; the caller writes them again and the peer receives a frame with duplicated content', 'sendstream-loop', path_summary(r), len(res))
            if r.tag != 'return':
                return viol(prop, ob, [ex], f'SendStream::poll_write can {r.tag}', 'sendstream-abnormal', path_summary(r), len(res))
            iw = [e for e in r.events if e.kind == 'inner-write']
            if len(iw) != 1:
                return viol(prop, ob, [ex], f'SendStream::poll_write calls the QUIC stream {len(iw)} times per call: partial progress of an earlier call is lost when a later one is Pending '
                            '(the bytes are written twice)', 'sendstream-multi-write', path_summary(r), len(res))
            b = iw[0].args[1]
            if not (isinstance(b, Ptr) and b.key == ('H', 'buf', '[u8]') and not b.projs):
                return viol(prop, ob, [ex], f'SendStream::poll_write hands {vrepr(b)[:60]} to the QUIC stream, not the caller\'s buffer', 'sendstream-buffer', path_summary(r), len(res))
            if not derives_from(r.ret, lambda v: isinstance(v, Sym) and v.name.startswith('inner_write')):
                return viol(prop, ob, [ex], f'SendStream::poll_write reports {vrepr(r.ret)[:80]}, not what the QUIC stream reported', 'sendstream-result', path_summary(r), len(res))
            n += 1
        if not n:
            return ob.done([ex], 'inconclusive', 'no path', paths=len(res))
        ob.done([ex], 'held', '', {'paths': len(res)}, paths=len(res))
    return guarded(report, 'send_stream_write_is_transparent', '<SendStream as AsyncWrite>::poll_write: exactly one quinn poll_write per call, with the caller\'s whole buffer, result passed through '
                   '(error type converted); so the bytes the framing layer writes are the bytes QUIC carries, once', ['<connection::SendStream as AsyncWrite>::poll_write'], {'loop_unroll': 3}, body)


ATOMIC_RMW = re.compile(r'Atomic\w*(::<[^>]*>)?::(fetch_add|fetch_sub|fetch_update|fetch_max|fetch_min|fetch_and|fetch_or|fetch_xor|store|swap|compare_exchange(_weak)?)$')


def ob_rpc_state_released_on_drop(report, prop):
    """an abandoned RPC leaves no bookkeeping behind: whatever shared counter the caller side updates before a suspension point of do_rpc and puts
    back when the call completes must be put back by a Drop (dropping the future - caller gone, timeout layer fired, select! took another arm -
    skips everything after the await)"""
    def body(ob):
        ex = e2.executor('anemo', [], max_depth=3)
        ex.explore_pending = True
        parent = find_method(ex.prog, 'Peer', 'do_rpc')
        fn = find_closure(ex.prog, parent, [0])
        p, args = coroutine_start(ex, fn)
        res = ex.run(fn, args, p)

        def rmw(r):
            out, stack = [], []
            for i, e in enumerate(r.events):
                if e.kind == 'enter':
                    stack.append(str(e.name))
                elif e.kind == 'leave' and stack:
                    stack.pop()
                elif e.kind == 'call' and ATOMIC_RMW.search(re.sub(r'::<[^<>]*(<[^<>]*>[^<>]*)*>$', '', str(e.name))):
                    tgt = vname(ex.deref(r.path, e.args[0])) if e.args and isinstance(e.args[0], Ptr) else (vname(e.args[0]) if e.args else '?')
                    out.append((i, re.sub(r'::<.*$', '', str(e.name).replace('Atomic::<usize>', 'Atomic')).rsplit('::', 1)[-1], tgt, any(re.search(r' as Drop>::drop$|drop_in_place', x) for x in stack)))
            return out
        suspended = [r for r in res if r.tag == 'return' and isinstance(r.ret, Agg) and r.ret.name == 'Poll' and r.ret.variant == 'Pending']
        done = [r for r in res if r.tag == 'return' and isinstance(r.ret, Agg) and r.ret.name == 'Poll' and r.ret.variant == 'Ready']
        if not suspended or not done:
            return ob.done([ex], 'inconclusive', f'vacuity: suspended paths={len(suspended)} completed paths={len(done)}', paths=len(res))
        # counters touched while the future is still pending ...
        held = {}
        for r in suspended:
            for i, op, tgt, in_drop in rmw(r):
                held.setdefault(tgt, r)
        # ... and put back explicitly (not by a Drop) on a completion path
        def base(t):
            return re.sub(r'\.\d+$', '', t)
        for r in done:
            ops = rmw(r)
            # a hand-over protocol spread over two counters of one shared object (take a ticket before waiting, advance `now_serving` afterwards) is the same leak
            for (i, op1, t1, _d1) in ops:
                for (j, op2, t2, d2) in ops:
                    if j > i and t1 != t2 and base(t1) == base(t2) and t1 in held and not d2 and any(e.kind == 'poll' for e in r.events[i:j]):
                        return viol(prop, ob, [ex], f'do_rpc updates {t1} ({op1}) before a suspension point and completes the hand-over on {t2} ({op2}) only after it, outside any Drop: an RPC abandoned '
                                    'while it waits never performs the second step - every caller queued behind it on this connection waits for ever', 'rpc-state-leaks-on-drop',
                                    path_summary(held[t1]), len(res))
            for tgt in {t for _, _, t, _ in ops}:
                mine = [o for o in ops if o[2] == tgt]
                if tgt in held and len(mine) >= 2 and not mine[-1][3]:
                    return viol(prop, ob, [ex], f'do_rpc updates the shared counter {tgt} ({mine[0][1]}) before it first suspends and restores it ({mine[-1][1]}) only on the path where the call '
                                'completes: an RPC abandoned while pending (caller dropped the future, a timeout fired) never restores it - bookkeeping leaks with every abandoned call',
                                'rpc-state-leaks-on-drop', path_summary(held[tgt]), len(res))
        ob.done([ex], 'held', '', {'paths': len(res), 'suspended_paths': len(suspended), 'counters_touched_while_pending': sorted(held)}, paths=len(res))
    return guarded(report, 'abandoned_rpc_leaves_no_bookkeeping', 'Peer::do_rpc: no shared atomic counter is changed before a suspension point and restored only by code after it (restoring must '
                   'happen in a Drop so that dropping the pending future restores it too)', ['Peer::do_rpc'], {'inline_depth': 3, 'schedule': 'every await may be Pending'}, body)
