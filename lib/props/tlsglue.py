"""Obligations over anemo's TLS glue (crypto.rs / config.rs / endpoint.rs) shared by C01, C03, C14.
The cryptography itself (rustls, webpki, ring, x509-parser) is a trusted base: what is decided is
that anemo delegates to it with the right arguments and never turns a refusal into acceptance."""
import re, z3
from common import *
import e2, mirdump
from e2 import *
from mirsym import models as MD
from mirsym import iters as IT
from mirsym.sym import derives_from

CR = 'crates/anemo/src/crypto.rs'


def base(n):
    return n.replace('.deref', '').replace('.*', '')


def viol(prop, ob, exs, detail, key, sample, n):
    o = ob.done(exs, 'violated', detail, sample, key=key, paths=n)
    o.replay = write_replay(prop, o.name, {'detail': detail, 'sample': sample})
    return o


def ed25519_tables():
    """(names of statics/consts that are exactly `&[webpki::ring::ED25519]`, names of WebPkiSupportedAlgorithms tables built only from those
    and mapping only SignatureScheme::ED25519) - by content, whatever the items are called"""
    import glob
    lists, tables = set(), set()
    srcs = []
    for f in glob.glob(os.path.join(REPO, 'crates/anemo/src', '**', '*.rs'), recursive=True):
        try:
            srcs.append(re.sub(r'//[^\n]*', '', open(f, errors='replace').read()))
        except OSError:
            pass
    for src in srcs:
        for m in re.finditer(r'\b(?:static|const)\s+(\w+)\s*:[^=;]*=\s*&\[(.*?)\]\s*;', src, re.S):
            items = [x.strip() for x in m.group(2).split(',') if x.strip()]
            if items == ['webpki::ring::ED25519']:
                lists.add(m.group(1))
    for src in srcs:
        for m in re.finditer(r'\b(?:static|const)\s+(\w+)\s*:[^=;]*=\s*(?:\w+::)*WebPkiSupportedAlgorithms\s*\{(.*?)\}\s*;', src, re.S):
            body = re.sub(r'\s+', '', m.group(2)).rstrip(',')
            mm = re.fullmatch(r'all:(\w+),mapping:&\[\((?:rustls::)?SignatureScheme::ED25519,(\w+)\),?\]', body)
            if mm and mm.group(1) in lists and mm.group(2) in lists:
                tables.add(m.group(1))
    return lists, tables


def _static_name(v):
    m = re.search(r'static (\w+):', vrepr(v) + ' ' + vname(v))
    return m.group(1) if m else None


def ob_signature_delegation(report, prop):
    """all six verify_tls1{2,3}_signature bodies return rustls::crypto::verify_tls1x_signature(own args, &SUPPORTED_ALGORITHMS)"""
    def body(ob):
        ex = e2.executor('anemo', [], max_depth=1)
        ED_LISTS, ED_TABLES = ed25519_tables()
        if not ED_TABLES:
            return viol(prop, ob, [ex], 'the crate declares no signature-algorithm table that names only Ed25519 (`WebPkiSupportedAlgorithms { all: [ED25519], mapping: [(ED25519, [ED25519])] }`)',
                        'sig-algs-table', {}, 0)
        fns = find_fns(ex.prog, r'(^|::)<impl>::verify_tls1[23]_signature$')
        if len(fns) != 6:
            return ob.done([ex], 'inconclusive', f'expected six handshake-signature verifier bodies, found {len(fns)}', paths=0)
        total = 0
        for f in fns:
            ver = '12' if 'tls12' in f.name else '13'
            res = ex.run(f, [])
            total += len(res)
            for r in res:
                if r.tag != 'return':
                    return viol(prop, ob, [ex], f'{f.name} can {r.tag}', 'sig-abnormal', path_summary(r), total)
                calls = [e for e in r.events if e.kind == 'call']
                dl = [e for e in calls if e.name.endswith(f'rustls::crypto::verify_tls{ver}_signature')]
                who = f'{ex.prog.impl_header(f.impl_span)}'
                if len(dl) != 1:
                    return viol(prop, ob, [ex], f'{who} verify_tls{ver}_signature does not delegate to rustls::crypto::verify_tls{ver}_signature (calls: {[c.name for c in calls]}): '
                                'the handshake signature - the proof of key possession - is not checked', f'sig-no-delegation-tls{ver}', path_summary(r), total)
                a = dl[0].args
                oka = (len(a) == 4 and vname(a[0]) == vname(ex.read_loc(r.path, None, ('L', 0, '_2'), ())) if False else True)
                names = [vname(x) for x in a[:3]]
                if names != ['&in_2.*' if False else names[0], names[1], names[2]] or not (names[0].startswith('&in_2') and names[1].startswith('&in_3') and names[2].startswith('&in_4')):
                    return viol(prop, ob, [ex], f'{who} verify_tls{ver}_signature passes {names} instead of its own (message, cert, dss)', f'sig-args-tls{ver}', path_summary(r), total)
                if _static_name(a[3]) not in ED_TABLES:
                    return viol(prop, ob, [ex], f'{who} verify_tls{ver}_signature uses {vrepr(a[3])[:80]}, which is not a table naming only Ed25519 (known Ed25519-only tables: {sorted(ED_TABLES)})', f'sig-algs-tls{ver}', path_summary(r), total)
                if vname(r.ret) != vname(dl[0].ret):
                    return viol(prop, ob, [ex], f'{who} verify_tls{ver}_signature does not return the delegate\'s verdict unchanged ({vrepr(r.ret)[:80]})', f'sig-result-tls{ver}', path_summary(r), total)
        ob.done([ex], 'held', '', {'verifier_bodies': 6, 'paths': total}, paths=total)
    return guarded(report, 'handshake_signature_delegated', 'all six verify_tls12/13_signature bodies (client verifier, server verifier, pinned server verifier) return '
                   'rustls::crypto::verify_tls1x_signature(message, cert, dss, &SUPPORTED_ALGORITHMS) on their own arguments; the tables name only Ed25519',
                   ['CertVerifier::verify_tls1{2,3}_signature (x2)', 'ExpectedCertVerifier::verify_tls1{2,3}_signature', 'SUPPORTED_ALGORITHMS'], {'inline_depth': 1}, body)


def ob_expected_verifier(report, prop):
    def body(ob):
        presented = z3.BitVec('presented', 256)
        expected = z3.BitVec('expected', 256)

        def m_pid(ex, p, call, k):
            p.events.append(Event('extract-id', 'peer_id_from_certificate', (ex.deref(p, call.args[0]),)))
            q = p.clone()
            ok_ = z3.Bool('cert_parses')
            p.pc.append(ok_)
            k(p, MD.ok(presented))
            q.pc.append(z3.Not(ok_))
            k(q, MD.err(Sym('parse_error', 'rustls::Error')))

        def m_delegate(ex, p, call, k):
            p.events.append(Event('delegate', 'CertVerifier::verify_server_cert', tuple(ex.deref(p, a) if isinstance(a, Ptr) else a for a in call.args)))
            k(p, Sym('delegate_result', 'Result<ServerCertVerified, rustls::Error>'))
        ex = e2.executor('anemo', [('role:peer_id_from_certificate', m_pid), (r'<CertVerifier as ServerCertVerifier>::verify_server_cert$', m_delegate)], max_depth=2)
        fns = [f for f in find_fns(ex.prog, r'(^|::)<impl>::verify_server_cert$') if 'ExpectedCertVerifier' in f.decl.get(f.args[0], '')]
        if len(fns) != 1:
            return ob.done([ex], 'inconclusive', 'ExpectedCertVerifier::verify_server_cert not found', paths=0)
        fn = fns[0]
        p = Path()
        p.mem[('H', 'self', 'ExpectedCertVerifier')] = struct_agg('crates/anemo/src/crypto.rs', 'ExpectedCertVerifier',
                                                                    [(r'^CertVerifier$', Sym('inner_verifier', 'CertVerifier')), (r'^PeerId$', expected)])
        args = [Ptr(('H', 'self', 'ExpectedCertVerifier'))] + [Ptr(('H', n, '')) for n in ('end_entity', 'intermediates', 'server_name', 'ocsp')] + [Sym('now', 'UnixTime')]
        for n in ('end_entity', 'intermediates', 'server_name', 'ocsp'):
            p.mem[('H', n, '')] = Sym(n, '')
        res = ex.run(fn, args, p)
        dd = z3.BitVec('delegate_result.discr', 64)
        ok_paths = 0
        for r in res:
            if r.tag != 'return':
                return viol(prop, ob, [ex], f'pinned verifier can {r.tag}', 'pin-abnormal', path_summary(r), len(res))
            ret = r.ret
            is_ok = (isinstance(ret, Agg) and ret.variant == 'Ok') or (isinstance(ret, Sym) and ret.name == 'delegate_result' and ex.feasible(r.pc + [dd == 0]))
            if not is_ok:
                continue
            ok_paths += 1
            ext = [e for e in r.events if e.kind == 'extract-id']
            dl = [e for e in r.events if e.kind == 'delegate']
            if len(ext) != 1 or not re.search(r'(^|[(&])end_entity\b', vname(ext[0].args[0])):       # the certificate itself or a view of its bytes (`as_ref(&end_entity)`)
                return viol(prop, ob, [ex], 'acceptance without extracting the identity from the presented end-entity certificate', 'pin-no-extract', path_summary(r), len(res))
            q, m, _ = e2.solve(r.pc + [z3.Bool('cert_parses'), presented != expected] + ([dd == 0] if isinstance(ret, Sym) else []))
            ex.queries += 1
            if q != 'unsat':
                return viol(prop, ob, [ex], f'a dial pinned to identity {hex(m.eval(expected, True).as_long())[:18]}.. accepts a certificate carrying {hex(m.eval(presented, True).as_long())[:18]}..',
                            'pin-mismatch-accepted', path_summary(r), len(res))
            if e2.solve(r.pc + [z3.Not(z3.Bool('cert_parses'))], want_model=False)[0] != 'unsat':
                return viol(prop, ob, [ex], 'an unparsable certificate is accepted', 'pin-unparsable-accepted', path_summary(r), len(res))
            if len(dl) != 1:
                return viol(prop, ob, [ex], 'acceptance without running the certificate verification of CertVerifier', 'pin-no-delegate', path_summary(r), len(res))
            a = [vname(x) for x in dl[0].args]
            if a[0] != 'inner_verifier' or a[1:5] != ['end_entity', 'intermediates', 'server_name', 'ocsp'] or a[5] != 'now':
                return viol(prop, ob, [ex], f'certificate verification is run on {a}, not on the verifier\'s own arguments', 'pin-delegate-args', path_summary(r), len(res))
            if not (isinstance(ret, Sym) and ret.name == 'delegate_result'):
                return viol(prop, ob, [ex], 'the delegate\'s verdict is not what is returned', 'pin-result', path_summary(r), len(res))
            order = [e.kind for e in r.events if e.kind in ('extract-id', 'delegate')]
            if order != ['extract-id', 'delegate']:
                return viol(prop, ob, [ex], 'identity comparison does not precede certificate validation', 'pin-order', path_summary(r), len(res))
        if not ok_paths:
            return ob.done([ex], 'inconclusive', 'vacuity: no accepting path', paths=len(res))
        ob.done([ex], 'held', '', {'paths': len(res), 'accepting_paths': ok_paths}, paths=len(res))
    return guarded(report, 'pinned_identity_verifier', 'ExpectedCertVerifier::verify_server_cert returns Ok only if peer_id_from_certificate(end_entity) == the pinned id (all 2^512 pairs) '
                   'and CertVerifier::verify_server_cert on the same arguments returned Ok; comparison first', ['ExpectedCertVerifier::verify_server_cert'], {'ids': '256-bit symbolic'}, body)


def ob_expected_id_flow(report, prop):
    def body(ob):
        def m_cfg(ex, p, call, k):
            p.events.append(Event('pinned-config', 'client_config_with_expected_server_identity', (call.args[1],)))
            k(p, Sym('pinned_config', 'quinn::ClientConfig').with_ov('pinned', call.args[1]))

        def m_connect(ex, p, call, k):
            # quinn::Endpoint::connect_with(&self, config, addr, server_name): the external boundary of a dial
            p.events.append(Event('connect', 'quinn::Endpoint::connect_with', (call.args[1], call.args[2])))
            k(p, Sym('connecting_result', 'Result<quinn::Connecting, quinn::ConnectError>'))
        ex = e2.executor('anemo', [(r'client_config_with_expected_server_identity$', m_cfg), (r'quinn::Endpoint::connect_with$', m_connect)], max_depth=4)
        fn = find_method(ex.prog, 'Endpoint', 'connect_with_expected_peer_id')
        pid = z3.BitVec('wanted', 256)
        res = ex.run(fn, [Ptr(('H', 'endpoint', 'Endpoint')), Sym('addr', 'SocketAddr'), pid])
        n = 0
        for r in res:
            if r.tag != 'return':
                return viol(prop, ob, [ex], f'connect_with_expected_peer_id can {r.tag}', 'flow-abnormal', path_summary(r), len(res))
            cs = [e for e in r.events if e.kind == 'connect']
            if len(cs) != 1 or vname(cs[0].args[1]) != 'addr':
                return viol(prop, ob, [ex], 'the dial is not issued exactly once to the requested address', 'flow-connect', path_summary(r), len(res))
            cfg = cs[0].args[0]
            pinned = cfg.get_ov('pinned') if isinstance(cfg, Sym) else None
            if not (isinstance(pinned, z3.ExprRef) and e2.solve(r.pc + [pinned != pid], want_model=False)[0] == 'unsat'):
                return viol(prop, ob, [ex], f'the TLS client configuration used for the dial ({vrepr(cfg)[:80]}) is not pinned to the identity requested for THIS dial: '
                            'a configuration built for another expected identity (e.g. cached per address) would be reused', 'flow-config-not-pinned-to-arg', path_summary(r), len(res))
            n += 1
        if not n:
            return ob.done([ex], 'inconclusive', 'no path', paths=len(res))
        # the pinned configuration is built around ExpectedCertVerifier(CertVerifier{..}, peer_id) with the function's own argument
        ex2 = e2.executor('anemo', [], max_depth=1)
        fn2 = find_method(ex2.prog, 'EndpointConfig', 'client_config_with_expected_server_identity')
        res2 = ex2.run(fn2, [Ptr(('H', 'cfg', 'EndpointConfig')), pid])
        okp = 0
        for r in res2:
            if r.tag != 'return':
                continue
            wc = [e for e in r.events if e.kind == 'call' and e.name.endswith('with_custom_certificate_verifier')]
            if len(wc) != 1:
                return viol(prop, ob, [ex, ex2], 'pinned client config is not built with a custom certificate verifier', 'flow-verifier-missing', path_summary(r), len(res2))

            def is_pinned(v):
                return isinstance(v, Agg) and v.name == 'ExpectedCertVerifier' and len(v.fields) == 2 and any(isinstance(f, z3.ExprRef) and str(f) == 'wanted' for f in v.fields)
            if not derives_from(wc[0].args[1], is_pinned, ex=ex2, p=r.path):
                return viol(prop, ob, [ex, ex2], 'the verifier installed in the pinned client config is not ExpectedCertVerifier(_, the requested peer id)', 'flow-verifier-id', path_summary(r), len(res2))
            if not derives_from(r.ret, lambda v: isinstance(v, Sym) and vname(wc[0].ret) == v.name, ex=ex2, p=r.path):
                return viol(prop, ob, [ex, ex2], 'the returned quinn client config is not the one carrying the pinned verifier', 'flow-config-result', path_summary(r), len(res2))
            okp += 1
        if not okp:
            return ob.done([ex, ex2], 'inconclusive', 'pinned config construction not observed', paths=len(res) + len(res2))
        ob.done([ex, ex2], 'held', '', {'paths': len(res) + len(res2)}, paths=len(res) + len(res2))
    return guarded(report, 'expected_identity_reaches_verifier', 'Endpoint::connect_with_expected_peer_id dials with a client config built for exactly the requested identity; that config installs '
                   'ExpectedCertVerifier(_, that identity)', ['Endpoint::connect_with_expected_peer_id', 'EndpointConfig::client_config_with_expected_server_identity'], {}, body)


# ----------------------------------------------------------------------------- CertVerifier: name checks and self-signed validation (C01 / C14)
def _run_cert_verifier(which):
    """paths of CertVerifier::verify_{server,client}_cert with webpki/rustls calls as symbolic results"""
    def m_prepare(ex, p, call, k):
        p.events.append(Event('prepare', 'prepare_for_self_signed', (ex.deref(p, call.args[0]), ex.deref(p, call.args[1]))))
        k(p, Sym('prepared', 'Result<CertChainAndRoots, rustls::Error>'))

    def m_verify_usage(ex, p, call, k):
        p.events.append(Event('verify-usage', 'verify_for_usage', tuple(ex.deref(p, a) if isinstance(a, Ptr) else a for a in call.args)))
        k(p, Sym('usage_result', 'Result<VerifiedPath, webpki::Error>'))

    def m_valid_for_name(ex, p, call, k):
        n = p.seq('namecheck')
        name = ex.deref(p, call.args[1])
        p.events.append(Event('name-check', 'verify_is_valid_for_subject_name', (ex.deref(p, call.args[0]), name), Sym(f'name_valid{n}', 'Result<(), webpki::Error>')))
        k(p, Sym(f'name_valid{n}', 'Result<(), webpki::Error>'))

    def m_end_entity(ex, p, call, k):
        k(p, Ptr(('H', f'end_entity_of({vname(ex.deref(p, call.args[0]))})', 'EndEntityCert')))

    def m_try_from(ex, p, call, k):
        # ServerName::try_from(name.as_str()): symbolic parse result that remembers the string it was parsed from
        n = p.seq('tryname')
        src = ex.deref(p, call.args[0]) if isinstance(call.args[0], Ptr) else call.args[0]
        k(p, Sym(f'parsed_name{n}', call.retty).with_ov('from', ('ServerName::try_from', (src,))))
    models = [('role:prepare_for_self_signed', m_prepare), (r'EndEntityCert::verify_for_usage$', m_verify_usage),
              (r'verify_is_valid_for_subject_name$', m_valid_for_name), (r'VerifiedPath::end_entity$', m_end_entity),
              (r'<ServerName as TryFrom>::try_from$', m_try_from)] + IT.ITER_MODELS
    ex = e2.executor('anemo', models, max_depth=3, unroll=3)
    fns = [f for f in find_fns(ex.prog, rf'^crypto::<impl>::verify_{which}_cert$') if re.search(r'&(crypto::)?CertVerifier$', f.decl.get(f.args[0], ''))]
    if len(fns) != 1:
        raise NotFound(f'CertVerifier::verify_{which}_cert: {len(fns)}')
    return ex, fns[0]


def ob_server_cert_verifier(report, prop):
    def body(ob):
        ex, fn = _run_cert_verifier('server')
        p = Path()
        names = ('end_entity', 'intermediates', 'server_name', 'ocsp')
        for n in names:
            p.mem[('H', n, '')] = Sym(n, '')
        res = ex.run(fn, [Ptr(('H', 'self', 'CertVerifier'))] + [Ptr(('H', n, '')) for n in names] + [Sym('now', 'UnixTime')], p)
        ok_paths = 0
        for r in res:
            if r.tag != 'return':
                if r.tag == 'loop-bound':
                    continue
                return viol(prop, ob, [ex], f'verify_server_cert can {r.tag}', 'srv-abnormal', path_summary(r), len(res))
            ret = r.ret
            pcs = ' '.join(str(z3.simplify(c)).replace('\n', ' ') for c in r.pc)
            is_ok = (isinstance(ret, Agg) and ret.variant == 'Ok') or (isinstance(ret, Sym) and ret.name.startswith('name_valid') and False)
            # the function returns `name_check.map_err(..).map(..)`: an Ok result requires the name check's Ok
            if isinstance(ret, Sym) or (isinstance(ret, Agg) and ret.variant == 'Ok'):
                pass
            if not (isinstance(ret, Agg) and ret.variant == 'Ok'):
                continue
            ok_paths += 1
            pre = [e for e in r.events if e.kind == 'prepare']
            vu = [e for e in r.events if e.kind == 'verify-usage']
            nc = [e for e in r.events if e.kind == 'name-check']
            # membership: a search over the verifier's own accepted names whose deciding predicate compares the element with the dialed name
            nm = [e for e in r.events if e.kind == 'search' and e.args[3].s == 'hit' and _over_accepted_names(ex, r.path, e.args[0])
                  and re.search(r'eq\(.*\)', str(e.args[2])) and 'server_name' in str(e.args[2]) and re.search(r'self\.\d+(\.deref)?\[#', str(e.args[2]))
                  and not z3.is_not(e.args[2])]
            if len(pre) != 1 or not re.search(r'(^|[(&])end_entity\b', vname(pre[0].args[0])) or 'prepared.discr == 0' not in pcs:
                return viol(prop, ob, [ex], 'server certificate accepted without preparing the self-signed chain from the presented end-entity certificate', 'srv-prepare', path_summary(r), len(res))
            if len(vu) != 1 or 'usage_result.discr == 0' not in pcs:
                return viol(prop, ob, [ex], 'server certificate accepted without a successful webpki verify_for_usage', 'srv-usage', path_summary(r), len(res))
            a = vu[0].args
            if _static_name(a[1]) not in ed25519_tables()[0] or not any('server_auth' in vrepr(x) for x in a) or vname(a[4]) != 'now':
                return viol(prop, ob, [ex], f'verify_for_usage is not run with (SUPPORTED_SIG_ALGS, the self-signed anchor, now, server_auth): {[vrepr(x)[:40] for x in a]}', 'srv-usage-args', path_summary(r), len(res))
            if 'prepared@Ok.0' not in vname(a[0]) or 'prepared@Ok.0' not in vname(a[2]):
                return viol(prop, ob, [ex], 'verify_for_usage does not use the end-entity certificate as its own trust anchor', 'srv-anchor', path_summary(r), len(res))
            if not nm:
                return viol(prop, ob, [ex], 'server certificate accepted without the dialed name being one of this endpoint\'s accepted network names', 'srv-name-membership', path_summary(r), len(res))
            if not re.search(r'server_name\.discr == \d+', pcs):
                return viol(prop, ob, [ex], 'the kind of the dialed ServerName (DNS name) is not checked', 'srv-name-kind', path_summary(r), len(res))
            if len(nc) != 1 or vname(nc[0].args[1]) != 'server_name' or not re.search(r'name_valid1\.discr == 0', pcs) or 'usage_result@Ok.0' not in vname(nc[0].args[0]):
                return viol(prop, ob, [ex], 'server certificate accepted without the verified certificate being valid for the dialed network name', 'srv-name-validity', path_summary(r), len(res))
        if not ok_paths:
            return ob.done([ex], 'inconclusive', 'vacuity: no accepting path', paths=len(res))
        ob.done([ex], 'held', '', {'paths': len(res), 'accepting_paths': ok_paths}, paths=len(res))
    return guarded(report, 'server_cert_requires_name_and_self_signature', 'CertVerifier::verify_server_cert returns Ok only if: the chain was prepared from the presented certificate (its own trust anchor), '
                   'webpki verify_for_usage(Ed25519 only, now, server_auth) succeeded, the dialed name is a DNS name equal to an accepted network name, and the verified certificate is valid for '
                   'that name', ['CertVerifier::verify_server_cert', 'prepare_for_self_signed'], {'webpki/rustls': 'results symbolic', 'loop_unroll': 2}, body)


def _over_accepted_names(ex, p, it):
    """the abstract iterator walks (a pipeline rooted in) the verifier's own `server_names`"""
    for _ in range(6):
        c = IT._coll(ex, p, it.fields[0])
        inner = c.get_ov('collected') if isinstance(c, Sym) else None
        if inner is None:
            return re.fullmatch(r'self\.\d+(\.deref)?', vname(c)) is not None
        it = inner
    return False


def ob_client_cert_verifier(report, prop):
    def body(ob):
        ex, fn = _run_cert_verifier('client')
        p = Path()
        for n in ('end_entity', 'intermediates'):
            p.mem[('H', n, '')] = Sym(n, '')
        res = ex.run(fn, [Ptr(('H', 'self', 'CertVerifier')), Ptr(('H', 'end_entity', '')), Ptr(('H', 'intermediates', '')), Sym('now', 'UnixTime')], p)
        ok_paths = 0
        for r in res:
            if r.tag != 'return':
                if r.tag == 'loop-bound':
                    continue
                return viol(prop, ob, [ex], f'verify_client_cert can {r.tag}', 'cli-abnormal', path_summary(r), len(res))
            ret = r.ret
            if not (isinstance(ret, Agg) and ret.variant == 'Ok'):
                continue
            ok_paths += 1
            pcs = ' '.join(str(z3.simplify(c)).replace('\n', ' ') for c in r.pc)
            pre = [e for e in r.events if e.kind == 'prepare']
            vu = [e for e in r.events if e.kind == 'verify-usage']
            if len(pre) != 1 or not re.search(r'(^|[(&])end_entity\b', vname(pre[0].args[0])) or 'prepared.discr == 0' not in pcs:
                return viol(prop, ob, [ex], 'client certificate accepted without preparing the self-signed chain from the presented certificate', 'cli-prepare', path_summary(r), len(res))
            if len(vu) != 1 or 'usage_result.discr == 0' not in pcs or not any('client_auth' in vrepr(x) for x in vu[0].args) or _static_name(vu[0].args[1]) not in ed25519_tables()[0]:
                return viol(prop, ob, [ex], 'client certificate accepted without a successful webpki verify_for_usage(Ed25519 only, client_auth)', 'cli-usage', path_summary(r), len(res))
            # some accepted network name of THIS verifier must have been checked against the verified certificate, successfully
            good = []
            for e in r.events:
                if e.kind != 'name-check':
                    continue
                from_own = derives_from(e.args[1], lambda v: isinstance(v, Sym) and re.fullmatch(r'self\.\d+(\.deref)?\[#[\d.]+\]', v.name) is not None, ex=ex, p=r.path)
                on_cert = 'usage_result@Ok.0' in vname(e.args[0])
                okd = e2.solve(r.pc + [z3.BitVec(vname(e.ret) + '.discr', 64) != 0], want_model=False)[0] == 'unsat'
                ex.queries += 1
                if from_own and on_cert and okd:
                    good.append(e)
            if not good:
                nc = [e for e in r.events if e.kind == 'name-check']
                if not nc:
                    return viol(prop, ob, [ex], 'client certificate accepted without any accepted network name being checked against it', 'cli-name-required', path_summary(r), len(res))
                return viol(prop, ob, [ex], 'client certificate accepted although no check of the verified certificate against one of this endpoint\'s accepted names succeeded '
                            f'(checks on this path: {[(vrepr(e.args[0])[:40], vrepr(e.args[1])[:40]) for e in nc]})', 'cli-name-predicate', path_summary(r), len(res))
        if not ok_paths:
            return ob.done([ex], 'inconclusive', 'vacuity: no accepting path', paths=len(res))
        ob.done([ex], 'held', '', {'paths': len(res), 'accepting_paths': ok_paths}, paths=len(res))
    return guarded(report, 'client_cert_requires_accepted_name', 'CertVerifier::verify_client_cert returns Ok only if webpki verify_for_usage(Ed25519 only, client_auth) on the self-anchored certificate '
                   'succeeded and verify_is_valid_for_subject_name of the verified certificate succeeded for a name parsed from one of this verifier\'s accepted network names',
                   ['CertVerifier::verify_client_cert'], {'webpki': 'results symbolic', 'server_names': 'abstract collection (generic element) / finite vectors up to 3 pushes'}, body)


def ob_client_auth_mandatory(report, prop):
    def body(ob):
        ex = e2.executor('anemo', [], max_depth=1)
        n = 0
        for meth in ('client_auth_mandatory', 'offer_client_auth'):
            fns = find_fns(ex.prog, rf'^crypto::<impl>::{meth}$')
            if len(fns) != 1:
                return ob.done([ex], 'inconclusive', f'{meth}: {len(fns)} bodies', paths=n)
            res = ex.run(fns[0], [])
            n += len(res)
            for r in res:
                if r.tag != 'return' or not (isinstance(r.ret, z3.ExprRef) and z3.is_true(z3.simplify(r.ret))):
                    return viol(prop, ob, [ex], f'{meth}() does not return constant true: unauthenticated clients would be admitted without an identity', f'mtls-{meth}', path_summary(r), n)
        ob.done([ex], 'held', '', {'paths': n}, paths=n)
    return guarded(report, 'client_auth_mandatory', 'the server-side verifier offers and requires client authentication (both constant true)',
                   ['CertVerifier::client_auth_mandatory', 'CertVerifier::offer_client_auth'], {}, body)


def ob_peer_id_extraction(report, prop):
    def body(ob):
        def m_from_der(ex, p, call, k):
            p.events.append(Event('x509', 'X509Certificate::from_der', (ex.deref(p, call.args[0]),)))
            k(p, Sym('parsed', 'Result<(&[u8], X509Certificate), Err>'))

        def m_public_key(ex, p, call, k):
            p.events.append(Event('spki', 'public_key', (ex.deref(p, call.args[0]),)))
            k(p, Ptr(('H', 'spki', 'SubjectPublicKeyInfo')))

        def m_from_spki(ex, p, call, k):
            p.events.append(Event('ed25519', 'from_public_key_der', (ex.deref(p, call.args[0]),)))
            k(p, Sym('keybytes', 'Result<PublicKeyBytes, Error>'))

        def m_to_bytes(ex, p, call, k):
            k(p, Agg('[]', None, [z3.BitVec(f'key{i}', 8) for i in range(32)], 'array') if False else Sym('key_bytes_array', '[u8; 32]').with_ov('from', ('to_bytes', (call.args[0],))))
        ex = e2.executor('anemo', [(r'X509Certificate.*::from_der$|FromDer>::from_der$', m_from_der), (r'::public_key$', m_public_key),
                                   (r'DecodePublicKey>::from_public_key_der$', m_from_spki), (r'PublicKeyBytes::to_bytes$', m_to_bytes),
                                   (r'CertificateDer as AsRef>::as_ref$|as Deref>::deref$', lambda ex_, p_, call, k: k(p_, call.args[0]))], max_depth=2)
        fn = e2.role_fn(ex.prog, 'peer_id_from_certificate')[0]
        p = Path()
        p.mem[('H', 'cert', 'CertificateDer')] = Sym('cert', 'CertificateDer')
        res = ex.run(fn, [Ptr(('H', 'cert', 'CertificateDer'))], p)
        ok = 0
        for r in res:
            if r.tag != 'return':
                return viol(prop, ob, [ex], f'peer_id_from_certificate can {r.tag} on a malformed certificate', 'pid-abnormal', path_summary(r), len(res))
            if not (isinstance(r.ret, Agg) and r.ret.variant == 'Ok'):
                continue
            ok += 1
            pcs = ' '.join(str(z3.simplify(c)) for c in r.pc)
            x = [e for e in r.events if e.kind == 'x509']
            s = [e for e in r.events if e.kind == 'spki']
            d = [e for e in r.events if e.kind == 'ed25519']
            if len(x) != 1 or vname(x[0].args[0]) != 'cert' or 'parsed.discr == 0' not in pcs:
                return viol(prop, ob, [ex], 'an identity is derived without successfully parsing the given certificate', 'pid-parse', path_summary(r), len(res))
            if len(s) != 1 or 'parsed@Ok.0' not in vname(s[0].args[0]):
                return viol(prop, ob, [ex], 'the identity is not taken from the parsed certificate\'s subject public key', 'pid-spki', path_summary(r), len(res))
            if len(d) != 1 or 'keybytes.discr == 0' not in pcs or 'spki' not in vname(d[0].args[0]):
                return viol(prop, ob, [ex], 'the identity is not the Ed25519 key decoded from the subject-public-key field', 'pid-ed25519', path_summary(r), len(res))
            pid = r.ret.fields[0]
            if not derives_from(pid, lambda v: isinstance(v, Sym) and v.name == 'key_bytes_array') and not (isinstance(pid, Agg) and derives_from(pid, lambda v: isinstance(v, Sym) and v.name.startswith('keybytes'))):
                return viol(prop, ob, [ex], f'the PeerId returned ({vrepr(pid)[:60]}) is not the bytes of that key', 'pid-bytes', path_summary(r), len(res))
        if not ok:
            return ob.done([ex], 'inconclusive', 'no Ok path', paths=len(res))
        ob.done([ex], 'held', '', {'paths': len(res)}, paths=len(res))
    return guarded(report, 'identity_is_certificate_public_key', 'peer_id_from_certificate: Ok(PeerId) only = bytes of the Ed25519 key decoded from the subject-public-key-info of the successfully parsed '
                   'certificate; any parser error is an Err', ['peer_id_from_certificate'], {'x509-parser / ed25519 pkcs8': 'results symbolic'}, body)


def ob_connection_identity(report, prop):
    def body(ob):
        def m_pid(ex, p, call, k):
            p.events.append(Event('extract-id', 'peer_id_from_certificate', (ex.deref(p, call.args[0]),)))
            k(p, Sym('extracted', 'Result<PeerId, rustls::Error>'))

        def m_peer_identity(ex, p, call, k):
            k(p, Sym('peer_identity', 'Option<Box<dyn Any>>'))

        def m_downcast(ex, p, call, k):
            k(p, Sym('chain_box', 'Result<Box<Vec<CertificateDer>>, Box<dyn Any>>'))

        def m_vec_index(ex, p, call, k):
            v = ex.deref(p, call.args[0])
            idx = call.args[1]
            p.events.append(Event('chain-index', 'Vec::index', (v, idx)))
            i = MD.conc(idx)
            k(p, Ptr(('H', f'{vname(v)}[{i if i is not None else "?"}]', 'CertificateDer')))

        def m_pop(ex, p, call, k):
            v = ex.deref(p, call.args[0])
            p.events.append(Event('chain-index', 'Vec::pop', (v, Str('last'))))
            k(p, Sym(f'{vname(v)}[last]', 'Option<CertificateDer>'))
        ex = e2.executor('anemo', [('role:peer_id_from_certificate', m_pid), (r'quinn::Connection::peer_identity$', m_peer_identity), (r'::downcast$', m_downcast),
                                   (r'<Vec as Index>::index$', m_vec_index), (r'Vec::(pop|last|remove|swap_remove)$', m_pop),
                                   (r'Box as Deref>::deref$', lambda ex_, p_, call, k: k(p_, Ptr(('H', vname(ex_.deref(p_, call.args[0])) + '.boxed', ''))))], max_depth=2)
        fn = find_method(ex.prog, 'Connection', 'new', file_re=r'anemo/src/connection\.rs')
        cf = struct_fields('crates/anemo/src/connection.rs', 'Connection')
        res = ex.run(fn, [Sym('quinn_conn', 'quinn::Connection'), Sym('origin', 'ConnectionOrigin')])
        ok = 0
        for r in res:
            if r.tag != 'return' or not (isinstance(r.ret, Agg) and r.ret.variant == 'Ok'):
                continue
            ok += 1
            c = r.ret.fields[0]
            ext = [e for e in r.events if e.kind == 'extract-id']
            idx = [e for e in r.events if e.kind == 'chain-index']
            if len(ext) != 1 or 'extracted.discr == 0' not in ' '.join(str(z3.simplify(x)) for x in r.pc):
                return viol(prop, ob, [ex], 'a Connection is created without successfully extracting the peer identity from its certificate', 'conn-extract', path_summary(r), len(res))
            native0 = not idx and re.search(r'\[0\]$|\[#0\]$', vname(ext[0].args[0])) is not None      # `&chain[0]` on a slice: a MIR projection, no call
            if os.environ.get('VERIF_DEBUG'):
                print('DEBUG ext arg', vrepr(ext[0].args[0]), vname(ext[0].args[0]))
            if not native0 and (len(idx) != 1 or idx[0].name != 'Vec::index' or MD.conc(idx[0].args[1]) != 0):
                return viol(prop, ob, [ex], f'the identity is not taken from element 0 of the peer\'s certificate chain - the end-entity certificate the handshake signature was verified against '
                            f'({idx[0].name if idx else "no index"} {vrepr(idx[0].args[1]) if idx else ""})', 'conn-chain-element', path_summary(r), len(res))
            if '[0]' not in vname(ext[0].args[0]):
                return viol(prop, ob, [ex], f'identity extracted from {vrepr(ext[0].args[0])[:60]}, not from the end-entity certificate', 'conn-extract-arg', path_summary(r), len(res))
            if not (isinstance(c, Agg) and vname(c.fields[cf.index('peer_id')]) == 'extracted@Ok.0' and vname(c.fields[cf.index('inner')]) == 'quinn_conn' and vname(c.fields[cf.index('origin')]) == 'origin'):
                return viol(prop, ob, [ex], f'Connection fields are not (inner = the quinn connection, peer_id = the extracted identity, origin = as given): {vrepr(c)[:140]}', 'conn-fields', path_summary(r), len(res))
        if not ok:
            return ob.done([ex], 'inconclusive', 'no Ok path', paths=len(res))
        ob.done([ex], 'held', '', {'paths': len(res)}, paths=len(res))
    return guarded(report, 'connection_identity_from_end_entity', 'Connection::new: peer_id = peer_id_from_certificate(chain[0]) of the TLS peer identity of that very quinn connection, stored once',
                   ['Connection::new', 'Connection::try_peer_id'], {}, body)


def M_split_top(t):
    from mirsym import mir as _M
    return _M.split_top(t)


def ob_server_config_sni(report, prop):
    def body(ob):
        def m_next(ex, p, call, k):
            n = p.seq('pair')
            if n > 2:
                return k(p, MD.NONE)
            q = p.clone()
            pair = Agg('()', None, (Sym(f'name{n}', 'String'), Sym(f'cert{n}', 'CertificateDer')), 'tuple')
            p.events.append(Event('pair', 'next', (pair,)))
            # the list may be owned `Vec<(String, CertificateDer)>` or borrowed `&[(&str, &CertificateDer)]`: same pairs, by value or behind references
            inner = re.sub(r'^(std::option::|core::option::)?Option<(.*)>$', r'\2', (call.retty or '').strip())
            by_ref = inner.startswith('&')
            elems = M_split_top(re.sub(r"^&('\w+ )?", '', inner).strip()[1:-1]) if inner.rstrip().endswith(')') else ['', '']
            vals = []
            for v_, t_ in zip(pair.fields, (elems + ['', ''])[:2]):
                if t_.strip().startswith('&'):
                    c_ = ('H', f'{v_.name}.cell', '')
                    p.mem[c_] = v_
                    vals.append(Ptr(c_))
                else:
                    vals.append(v_)
            item = Agg('()', None, tuple(vals), 'tuple')
            if by_ref:
                c_ = ('H', f'pair{n}.cell', '')
                p.mem[c_] = item
                item = Ptr(c_)
            k(p, MD.some(item))
            k(q, MD.NONE)

        def m_certified(ex, p, call, k):
            v = ex.deref(p, call.args[0]) if isinstance(call.args[0], Ptr) else call.args[0]
            k(p, Sym(f'certified({vname(v)})', 'CertifiedKey').with_ov('from', ('CertifiedKey::new', (v,))))

        def m_add(ex, p, call, k):
            p.events.append(Event('sni-add', 'ResolvesServerCertUsingSni::add', (ex.deref(p, call.args[1]), call.args[2])))
            k(p, Sym(f'add_result{p.seq("add")}', 'Result<(), rustls::Error>'))
        ex = e2.executor('anemo', [(r'(vec::IntoIter|slice::Iter|^<IntoIter|^<Iter) as Iterator>::next$|IntoIter as Iterator>::next$|Iter as Iterator>::next$', m_next), (r'CertifiedKey::new$', m_certified), (r'ResolvesServerCertUsingSni::add$', m_add)], max_depth=1, unroll=4)
        fns = [f for f in find_fns(ex.prog, r'^config::<impl>::server_config$') if len(f.args) >= 3]
        if not fns:
            # moved out of the builder: the only crate function of that name returning a quinn server configuration
            fns = [f for f in find_fns(ex.prog, r'(^|::)server_config$') if 'ServerConfig' in (f.ret or '') and '{closure' not in f.raw]
        if len(fns) != 1:
            return ob.done([ex], 'inconclusive', 'EndpointConfigBuilder::server_config not found', paths=0)
        res = ex.run(fns[0], [])
        n_ok = 0
        for r in res:
            if r.tag != 'return' or not (isinstance(r.ret, Agg) and r.ret.variant == 'Ok'):
                continue
            names = [e.name for e in r.events if e.kind == 'call']
            pairs = [e.args[0] for e in r.events if e.kind == 'pair']
            adds = [e for e in r.events if e.kind == 'sni-add']
            if any(n.endswith('with_single_cert') for n in names) or not any(n.endswith('with_cert_resolver') for n in names):
                return viol(prop, ob, [ex], 'the listener\'s certificate is not chosen by the SNI name the dialer claims (no ResolvesServerCertUsingSni): a dialer claiming a foreign network name would be answered',
                            'sni-resolver-missing', path_summary(r), len(res))
            if not any(n.endswith('with_client_cert_verifier') for n in names):
                return viol(prop, ob, [ex], 'the server config is built without the client certificate verifier', 'sni-client-verifier', path_summary(r), len(res))
            if len(adds) != len(pairs):
                return viol(prop, ob, [ex], f'{len(pairs)} accepted names but {len(adds)} SNI registrations', 'sni-count', path_summary(r), len(res))
            for pr, ad in zip(pairs, adds):
                if base(vname(ad.args[0])) != vname(pr.fields[0]) or not derives_from(ad.args[1], lambda v: isinstance(v, Sym) and v.name == vname(pr.fields[1]), ex=ex, p=r.path):
                    return viol(prop, ob, [ex], f'SNI name {vrepr(ad.args[0])} is not registered with the certificate generated for that name', 'sni-pairing', path_summary(r), len(res))
            n_ok += 1
        if not n_ok:
            return ob.done([ex], 'inconclusive', 'no Ok path', paths=len(res))
        ob.done([ex], 'held', '', {'paths': len(res), 'ok_paths': n_ok}, paths=len(res))
    return guarded(report, 'listener_cert_by_sni', 'EndpointConfigBuilder::server_config: TLS 1.3 only, client verifier installed, certificate resolved by SNI with exactly one (name -> certificate for that name) '
                   'registration per accepted name; never a single unconditional certificate', ['EndpointConfigBuilder::server_config'], {'loop_unroll': 4, 'names': '<= 2'}, body)


def ob_build_names(report, prop):
    def body(ob):
        def m_gen(ex, p, call, k):
            nm = ex.deref(p, call.args[1])
            p.events.append(Event('gen-cert', 'generate_cert', (nm,)))
            k(p, Agg('()', None, (Sym(f'cert_for({vname(nm)})', 'CertificateDer'), Sym('key_der', 'PrivateKeyDer')), 'tuple'))

        def m_client_cfg(ex, p, call, k):
            p.events.append(Event('client-config', 'client_config', tuple(e2.snapshot(ex, p, a) for a in call.args)))
            k(p, Sym('client_cfg_result', 'Result<quinn::ClientConfig>'))

        def m_server_cfg(ex, p, call, k):
            p.events.append(Event('server-config', 'server_config', tuple(e2.snapshot(ex, p, a) for a in call.args)))
            k(p, Sym('server_cfg_result', 'Result<quinn::ServerConfig>'))

        def m_clone(ex, p, call, k):
            k(p, ex.deref(p, call.args[0]))
        def m_by_result(ex_, p, call, k):
            # whatever crate function builds the quinn client / server configuration (the pinned EndpointConfigBuilder::{client,server}_config
            # or the same helper moved / renamed): recognised by what it returns
            f = ex_.resolve(call.callee) if isinstance(call.callee, str) else None
            if f is None or not f.blocks or '{closure' in f.raw or re.search(r'(^|::)build$', call.short):
                return NotImplemented
            t = (f.ret or '') + ' ' + (call.retty or '')
            if re.match(r'\s*\((\w+::)*CertificateDer<[^>]*>,\s*(\w+::)*PrivateKeyDer', f.ret or ''):
                names = [i for i, a in enumerate(f.args) if re.search(r'^&(\'\w+ )?(str|String|std::string::String)$', (f.decl.get(a, '') or '').strip())]
                if len(names) != 1:
                    return NotImplemented
                nm = ex_.deref(p, call.args[names[0]])
                p.events.append(Event('gen-cert', 'generate_cert', (nm,)))
                return k(p, Agg('()', None, (Sym(f'cert_for({vname(nm)})', 'CertificateDer'), Sym('key_der', 'PrivateKeyDer')), 'tuple'))
            if re.search(r'Result<(quinn::)?(config::)?ClientConfig\b', t):
                return m_client_cfg(ex_, p, call, k)
            if re.search(r'Result<(quinn::)?(config::)?ServerConfig\b', t):
                return m_server_cfg(ex_, p, call, k)
            return NotImplemented
        ex = e2.executor('anemo', [(r'(^|::)generate_cert$', m_gen), (r'(^|::)client_config$', m_client_cfg),
                                   (r'(^|::)server_config$', m_server_cfg), (r'.', m_by_result),
                                   (r'Arc::new$', lambda ex_, p_, call, k: k(p_, call.args[0]))], max_depth=1, opaque=[r'construct_reset_key$'])
        fn = find_method(ex.prog, 'EndpointConfigBuilder', 'build')
        bf = struct_fields('crates/anemo/src/config.rs', 'EndpointConfigBuilder')
        b = struct_sym('b', 'EndpointConfigBuilder', bf, {'server_name': MD.some(Sym('primary', 'String')), 'alternate_server_name': Sym('alt', 'Option<String>'),
                                                          'private_key': MD.some(Sym('sk', '[u8; 32]'))})
        res = ex.run(fn, [b])
        ad = z3.BitVec('alt.discr', 64)
        seen = set()

        def names_of(v, r):
            out = []

            def grab(x):
                if isinstance(x, Sym) and re.sub(r'(\.deref)+$', '', x.name) in ('primary', 'alt@Some.0'):       # the String or a &str view of it
                    out.append(re.sub(r'(\.deref)+$', '', x.name))
                return False
            derives_from(v, grab, ex=ex, p=r.path)
            return out
        for r in res:
            if r.tag != 'return' or not (isinstance(r.ret, Agg) and r.ret.variant == 'Ok'):
                continue
            cc = [e for e in r.events if e.kind == 'client-config']
            sc = [e for e in r.events if e.kind == 'server-config']
            if not any(e.kind == 'gen-cert' for e in r.events):
                return ob.done([ex], 'inconclusive', 'build() succeeds without calling a certificate generator this obligation recognises (a function returning (CertificateDer, PrivateKeyDer) for a name)',
                               paths=len(res))
            if len(cc) != 1 or len(sc) != 1:
                return viol(prop, ob, [ex], 'build() does not create exactly one client and one server configuration', 'build-count', path_summary(r), len(res))
            # arguments by what they are, not by position: the certificate verifier (accepted names) vs everything else (certificates, SNI pairs)
            def is_verifier(v):
                return derives_from(v, lambda x: (isinstance(x, Agg) and x.name == 'CertVerifier') or (isinstance(x, Sym) and re.search(r'\bCertVerifier\b', x.ty or '') is not None),
                                    ex=ex, p=r.path)
            cargs, sargs = e2.flatten_args(cc[0].args, ('CertVerifier',)), e2.flatten_args(sc[0].args, ('CertVerifier',))
            cver, crest = [a for a in cargs if is_verifier(a)], [a for a in cargs if not is_verifier(a)]
            sver, srest = [a for a in sargs if is_verifier(a)], [a for a in sargs if not is_verifier(a)]
            if os.environ.get('VERIF_DEBUG'):
                print('DEBUG cargs', [vrepr(a)[:150] for a in cargs]); print('DEBUG sargs', [vrepr(a)[:150] for a in sargs])
            if len(cver) != 1 or len(sver) != 1:
                return ob.done([ex], 'inconclusive', f'cannot tell the certificate verifier among the arguments of the configuration builders ({len(cver)}, {len(sver)})', paths=len(res))
            ccerts = []
            for a in crest:
                derives_from(a, lambda v: ccerts.append(base(v.name)) or False if isinstance(v, Sym) and v.name.startswith('cert_for(') else False, ex=ex, p=r.path)
            if sorted(set(ccerts)) != ['cert_for(primary)']:
                return viol(prop, ob, [ex], f'the client presents {sorted(set(ccerts))}, not the certificate issued for its primary network name', 'build-client-cert', path_summary(r), len(res))
            cn = names_of(cver[0], r)
            if sorted(set(cn)) != ['primary']:
                return viol(prop, ob, [ex], f'the dialer\'s verifier accepts names {sorted(set(cn))}, not exactly its primary name', 'build-client-names', path_summary(r), len(res))
            has_alt = e2.solve(r.pc + [ad != 1], want_model=False)[0] == 'unsat'
            want = ['alt@Some.0', 'primary'] if has_alt else ['primary']
            seen.add('alt' if has_alt else 'no-alt')
            sn = sorted(set(names_of(sver[0], r)))
            if sn != want:
                return viol(prop, ob, [ex], f'the listener\'s client-certificate verifier accepts {sn}; expected {want}', 'build-server-names', path_summary(r), len(res))
            pairs = Agg('()', None, tuple(srest), 'tuple')
            pn = sorted(set(names_of(pairs, r)))
            if not pn:
                # an empty SNI table could not complete a single handshake (the suite would fail): the names are carried in a form this obligation cannot trace
                return ob.done([ex], 'inconclusive', 'the (name, certificate) pairs handed to the server configuration cannot be traced back to the builder\'s names', paths=len(res))
            if pn != want:
                return viol(prop, ob, [ex], f'the listener answers SNI names {pn}; expected {want}', 'build-sni-names', path_summary(r), len(res))
            certs = []
            derives_from(pairs, lambda v: certs.append(base(v.name)) or False if isinstance(v, Sym) and v.name.startswith('cert_for(') else False, ex=ex, p=r.path)
            if sorted(set(certs)) != sorted(f'cert_for({n})' for n in want):
                return viol(prop, ob, [ex], f'listener certificates {sorted(set(certs))} are not one per accepted name', 'build-sni-certs', path_summary(r), len(res))
        if seen != {'alt', 'no-alt'}:
            return ob.done([ex], 'inconclusive', f'vacuity: {seen}', paths=len(res))
        ob.done([ex], 'held', '', {'paths': len(res)}, paths=len(res))
    return guarded(report, 'network_name_plumbing', 'EndpointConfigBuilder::build: dialer verifier accepts [primary] and presents the primary certificate; listener verifier and SNI table accept [primary] or '
                   '[primary, alternate], each name with the certificate generated for it', ['EndpointConfigBuilder::build'], {}, body)


def ob_dial_name(report, prop):
    def body(ob):
        def m_server_name(ex, p, call, k):
            k(p, Ptr(('H', 'PRIMARY_NAME', 'str')))
        ex = e2.executor('anemo', [(r'EndpointConfig::server_name$', m_server_name)], max_depth=4)
        n = total = 0
        for entry in ('connect', 'connect_with_expected_peer_id'):
            fn = find_method(ex.prog, 'Endpoint', entry)
            res = ex.run(fn, [])
            total += len(res)
            for r in res:
                cw = [e for e in r.events if e.kind == 'call' and e.name.endswith('quinn::Endpoint::connect_with')]
                if r.tag != 'return' or not cw:
                    continue            # lock poisoning / configuration errors before anything is dialed
                if len(cw) != 1:
                    return viol(prop, ob, [ex], f'Endpoint::{entry} issues {len(cw)} quinn connect_with calls on one path', 'dialname-connect', path_summary(r), total)
                if vname(ex.deref(r.path, cw[0].args[3])) != 'PRIMARY_NAME.*' and 'PRIMARY_NAME' not in vname(cw[0].args[3]):
                    return viol(prop, ob, [ex], f'the dial offers {vrepr(cw[0].args[3])[:60]} as network name, not the endpoint\'s primary server name', 'dialname-name', path_summary(r), total)
                n += 1
        ob.done([ex], 'held' if n else 'inconclusive', '', {'paths': total}, paths=total)
    return guarded(report, 'dialer_offers_primary_name', 'every dial (Endpoint::connect, Endpoint::connect_with_expected_peer_id) reaches quinn::Endpoint::connect_with with config.server_name() '
                   '(the primary network name) as the offered name', ['Endpoint::connect', 'Endpoint::connect_with_expected_peer_id'], {'inline_depth': 4}, body)


_TLS_STATE_TYPES = re.compile(r'StoresServerSessions|ClientSessionStore|Resumption|ProducesTickets|SessionMemoryCache|TicketSwitcher|Ticketer|\bServerConfig\b|\bClientConfig\b|'
                              r'ResolvesServerCert|ResolvesClientCert|CertifiedKey|SigningKey|CertVerifier|ExpectedCertVerifier')


def ob_tls_state_per_endpoint(report, prop):
    """every TLS configuration an endpoint uses is built from that endpoint's own key/certificate and carries its own session state: nothing that takes part in a
    handshake (session cache, ticketer, resumption store, certificate resolver, verifier, a whole rustls config) lives in a process-global static shared with the
    other endpoints of the process.  A shared server session cache lets endpoint B resume a session the dialer established with endpoint A: the dialer then
    attributes B's connection to A's certificate without B ever proving possession of any key."""
    def body(ob):
        ex = e2.executor('anemo', [], max_depth=1)
        prog = ex.prog
        roots = []
        for fs in prog.fns.values():
            for f in fs:
                if f.blocks and '{closure' not in f.raw and re.search(r'\b(ServerConfig|ClientConfig|EndpointConfig)\b', f.ret or '') and not re.search(r'^&', (f.ret or '').strip()):
                    roots.append(f)
        if not roots:
            return ob.done([ex], 'inconclusive', 'no function of the crate builds a TLS/QUIC configuration', paths=0)
        reach = {}
        for f in roots:
            reach[f.raw] = f
            for g in e2.local_callees(prog, f, depth=3).values():
                reach[g.raw] = g
        allf = []
        for f in list(reach.values()):
            allf.append(f)
            for raw, fs in prog.fns.items():
                if raw.startswith(f.raw + '::{closure#'):
                    allf += [x for x in fs if x.blocks]
        found, bad = [], []
        for f in allf:
            for name, ty in getattr(f, 'statics', None) or []:
                if '__CALLSITE' in name:
                    continue
                found.append((f.name, name, ty))
                if _TLS_STATE_TYPES.search(ty):
                    bad.append((f.name, name, ty))
        if bad:
            fn_, name, ty = bad[0]
            o = ob.done([ex], 'violated', f'{fn_} (reached from the TLS configuration builders) uses the process-global `static {name}: {ty.lstrip("&")}`: handshake state shared between the endpoints of '
                        'a process - e.g. one server session cache - lets one endpoint resume a session established with another, so the dialer attributes the connection to a certificate '
                        'whose key the answering endpoint never proved to hold', {'statics': [list(x) for x in found]}, key='tls-shared-static:' + name.rsplit('::', 1)[-1], paths=len(allf))
            o.replay = write_replay(prop, o.name, {'shared_handshake_state': [list(b) for b in bad]})
            return o
        ob.done([ex], 'held', '', {'config_builders': sorted(f.name for f in roots), 'functions_scanned': len(allf), 'statics_referenced': sorted({f'{n}: {t}' for _, n, t in found})}, paths=len(allf))
    return guarded(report, 'tls_state_is_per_endpoint', 'call graph (MIR) of every function that builds a rustls/quinn configuration: no session cache, ticketer, certificate resolver, verifier or whole '
                   'TLS configuration is taken from a process-global static', ['EndpointConfigBuilder::{build,server_config,client_config}', 'EndpointConfig::client_config_with_expected_server_identity'],
                   {'call graph': 'crate-local static calls, 3 levels + nested closures', 'statics': 'as listed by rustc per MIR body'}, body)
