"""Obligations over anemo's TLS glue (crypto.rs / config.rs / endpoint.rs) shared by C01, C03, C14.
The cryptography itself (rustls, webpki, ring, x509-parser) is a trusted base: what is decided is
that anemo delegates to it with the right arguments and never turns a refusal into acceptance."""
import re, z3
from common import *
import e2, mirdump
from e2 import *
from mirsym import models as MD
from mirsym.sym import derives_from

CR = 'crates/anemo/src/crypto.rs'


def viol(prop, ob, exs, detail, key, sample, n):
    o = ob.done(exs, 'violated', detail, sample, key=key, paths=n)
    o.replay = write_replay(prop, o.name, {'detail': detail, 'sample': sample})
    return o


def ob_signature_delegation(report, prop):
    """all six verify_tls1{2,3}_signature bodies return rustls::crypto::verify_tls1x_signature(own args, &SUPPORTED_ALGORITHMS)"""
    def body(ob):
        ex = e2.executor('anemo', [], max_depth=1)
        fns = find_fns(ex.prog, r'^crypto::<impl>::verify_tls1[23]_signature$')
        if len(fns) != 6:
            return ob.done([ex], 'inconclusive', f'expected six handshake-signature verifier bodies, found {len(fns)}', paths=0)
        total = 0
        for f in fns:
            ver = '12' if 'tls12' in f.name else '13'
            res = ex.run(f, [])
            total += len(res)
            for r in res:
                if r.tag != 'return':
                    return viol(prop, ob, [ex], f'{f.name} can {r.tag}', 'sig-abnormal', path_summary(r), total)
                calls = [e for e in r.events if e.kind == 'call']
                dl = [e for e in calls if e.name.endswith(f'rustls::crypto::verify_tls{ver}_signature')]
                who = f'{ex.prog.impl_header(f.impl_span)}'
                if len(dl) != 1:
                    return viol(prop, ob, [ex], f'{who} verify_tls{ver}_signature does not delegate to rustls::crypto::verify_tls{ver}_signature (calls: {[c.name for c in calls]}): '
                                'the handshake signature - the proof of key possession - is not checked', f'sig-no-delegation-tls{ver}', path_summary(r), total)
                a = dl[0].args
                oka = (len(a) == 4 and vname(a[0]) == vname(ex.read_loc(r.path, None, ('L', 0, '_2'), ())) if False else True)
                names = [vname(x) for x in a[:3]]
                if names != ['&in_2.*' if False else names[0], names[1], names[2]] or not (names[0].startswith('&in_2') and names[1].startswith('&in_3') and names[2].startswith('&in_4')):
                    return viol(prop, ob, [ex], f'{who} verify_tls{ver}_signature passes {names} instead of its own (message, cert, dss)', f'sig-args-tls{ver}', path_summary(r), total)
                if 'SUPPORTED_ALGORITHMS' not in vrepr(a[3]) and 'SUPPORTED_ALGORITHMS' not in vname(a[3]):
                    return viol(prop, ob, [ex], f'{who} verify_tls{ver}_signature uses {vrepr(a[3])[:80]} instead of the Ed25519-only SUPPORTED_ALGORITHMS', f'sig-algs-tls{ver}', path_summary(r), total)
                if vname(r.ret) != vname(dl[0].ret):
                    return viol(prop, ob, [ex], f'{who} verify_tls{ver}_signature does not return the delegate\'s verdict unchanged ({vrepr(r.ret)[:80]})', f'sig-result-tls{ver}', path_summary(r), total)
        # the algorithm tables name only Ed25519
        src = open(os.path.join(REPO, CR)).read()
        m1 = re.search(r'static\s+SUPPORTED_SIG_ALGS\s*:[^=]*=\s*&\[(.*?)\];', src, re.S)
        m2 = re.search(r'static\s+SUPPORTED_ALGORITHMS\s*:[^=]*=\s*WebPkiSupportedAlgorithms\s*\{(.*?)\};', src, re.S)
        algs = [x.strip() for x in m1.group(1).split(',') if x.strip()] if m1 else None
        if algs != ['webpki::ring::ED25519']:
            return viol(prop, ob, [ex], f'SUPPORTED_SIG_ALGS = {algs}: not exactly [webpki::ring::ED25519]', 'sig-algs-table', {}, total)
        if not m2 or re.sub(r'\s+', '', m2.group(1)) not in ('all:SUPPORTED_SIG_ALGS,mapping:&[(rustls::SignatureScheme::ED25519,SUPPORTED_SIG_ALGS)],',
                                                              'all:SUPPORTED_SIG_ALGS,mapping:&[(rustls::SignatureScheme::ED25519,SUPPORTED_SIG_ALGS)]'):
            return viol(prop, ob, [ex], 'SUPPORTED_ALGORITHMS maps something other than SignatureScheme::ED25519 -> SUPPORTED_SIG_ALGS', 'sig-algs-mapping', {}, total)
        ob.done([ex], 'held', '', {'verifier_bodies': 6, 'paths': total}, paths=total)
    return guarded(report, 'handshake_signature_delegated', 'all six verify_tls12/13_signature bodies (client verifier, server verifier, pinned server verifier) return '
                   'rustls::crypto::verify_tls1x_signature(message, cert, dss, &SUPPORTED_ALGORITHMS) on their own arguments; the tables name only Ed25519',
                   ['CertVerifier::verify_tls1{2,3}_signature (x2)', 'ExpectedCertVerifier::verify_tls1{2,3}_signature', 'SUPPORTED_ALGORITHMS'], {'inline_depth': 1}, body)


def ob_expected_verifier(report, prop):
    def body(ob):
        presented = z3.BitVec('presented', 256)
        expected = z3.BitVec('expected', 256)

        def m_pid(ex, p, call, k):
            p.events.append(Event('extract-id', 'peer_id_from_certificate', (ex.deref(p, call.args[0]),)))
            q = p.clone()
            ok_ = z3.Bool('cert_parses')
            p.pc.append(ok_)
            k(p, MD.ok(presented))
            q.pc.append(z3.Not(ok_))
            k(q, MD.err(Sym('parse_error', 'rustls::Error')))

        def m_delegate(ex, p, call, k):
            p.events.append(Event('delegate', 'CertVerifier::verify_server_cert', tuple(ex.deref(p, a) if isinstance(a, Ptr) else a for a in call.args)))
            k(p, Sym('delegate_result', 'Result<ServerCertVerified, rustls::Error>'))
        ex = e2.executor('anemo', [(r'(^|::)peer_id_from_certificate$', m_pid), (r'<CertVerifier as ServerCertVerifier>::verify_server_cert$', m_delegate)], max_depth=2)
        fns = [f for f in find_fns(ex.prog, r'^crypto::<impl>::verify_server_cert$') if 'ExpectedCertVerifier' in f.decl.get(f.args[0], '')]
        if len(fns) != 1:
            return ob.done([ex], 'inconclusive', 'ExpectedCertVerifier::verify_server_cert not found', paths=0)
        fn = fns[0]
        p = Path()
        p.mem[('H', 'self', 'ExpectedCertVerifier')] = Agg('ExpectedCertVerifier', None, (Sym('inner_verifier', 'CertVerifier'), expected))
        args = [Ptr(('H', 'self', 'ExpectedCertVerifier'))] + [Ptr(('H', n, '')) for n in ('end_entity', 'intermediates', 'server_name', 'ocsp')] + [Sym('now', 'UnixTime')]
        for n in ('end_entity', 'intermediates', 'server_name', 'ocsp'):
            p.mem[('H', n, '')] = Sym(n, '')
        res = ex.run(fn, args, p)
        dd = z3.BitVec('delegate_result.discr', 64)
        ok_paths = 0
        for r in res:
            if r.tag != 'return':
                return viol(prop, ob, [ex], f'pinned verifier can {r.tag}', 'pin-abnormal', path_summary(r), len(res))
            ret = r.ret
            is_ok = (isinstance(ret, Agg) and ret.variant == 'Ok') or (isinstance(ret, Sym) and ret.name == 'delegate_result' and ex.feasible(r.pc + [dd == 0]))
            if not is_ok:
                continue
            ok_paths += 1
            ext = [e for e in r.events if e.kind == 'extract-id']
            dl = [e for e in r.events if e.kind == 'delegate']
            if len(ext) != 1 or vname(ext[0].args[0]) != 'end_entity':
                return viol(prop, ob, [ex], 'acceptance without extracting the identity from the presented end-entity certificate', 'pin-no-extract', path_summary(r), len(res))
            q, m, _ = e2.solve(r.pc + [z3.Bool('cert_parses'), presented != expected] + ([dd == 0] if isinstance(ret, Sym) else []))
            ex.queries += 1
            if q != 'unsat':
                return viol(prop, ob, [ex], f'a dial pinned to identity {hex(m.eval(expected, True).as_long())[:18]}.. accepts a certificate carrying {hex(m.eval(presented, True).as_long())[:18]}..',
                            'pin-mismatch-accepted', path_summary(r), len(res))
            if e2.solve(r.pc + [z3.Not(z3.Bool('cert_parses'))], want_model=False)[0] != 'unsat':
                return viol(prop, ob, [ex], 'an unparsable certificate is accepted', 'pin-unparsable-accepted', path_summary(r), len(res))
            if len(dl) != 1:
                return viol(prop, ob, [ex], 'acceptance without running the certificate verification of CertVerifier', 'pin-no-delegate', path_summary(r), len(res))
            a = [vname(x) for x in dl[0].args]
            if a[0] != 'inner_verifier' or a[1:5] != ['end_entity', 'intermediates', 'server_name', 'ocsp'] or a[5] != 'now':
                return viol(prop, ob, [ex], f'certificate verification is run on {a}, not on the verifier\'s own arguments', 'pin-delegate-args', path_summary(r), len(res))
            if not (isinstance(ret, Sym) and ret.name == 'delegate_result'):
                return viol(prop, ob, [ex], 'the delegate\'s verdict is not what is returned', 'pin-result', path_summary(r), len(res))
            order = [e.kind for e in r.events if e.kind in ('extract-id', 'delegate')]
            if order != ['extract-id', 'delegate']:
                return viol(prop, ob, [ex], 'identity comparison does not precede certificate validation', 'pin-order', path_summary(r), len(res))
        if not ok_paths:
            return ob.done([ex], 'inconclusive', 'vacuity: no accepting path', paths=len(res))
        ob.done([ex], 'held', '', {'paths': len(res), 'accepting_paths': ok_paths}, paths=len(res))
    return guarded(report, 'pinned_identity_verifier', 'ExpectedCertVerifier::verify_server_cert returns Ok only if peer_id_from_certificate(end_entity) == the pinned id (all 2^512 pairs) '
                   'and CertVerifier::verify_server_cert on the same arguments returned Ok; comparison first', ['ExpectedCertVerifier::verify_server_cert'], {'ids': '256-bit symbolic'}, body)


def ob_expected_id_flow(report, prop):
    def body(ob):
        def m_cfg(ex, p, call, k):
            p.events.append(Event('pinned-config', 'client_config_with_expected_server_identity', (call.args[1],)))
            k(p, Sym('pinned_config', 'quinn::ClientConfig').with_ov('pinned', call.args[1]))

        def m_connect(ex, p, call, k):
            p.events.append(Event('connect', 'connect_with_client_config', (call.args[1], call.args[2])))
            k(p, Sym('connecting_result', 'Result<Connecting>'))
        ex = e2.executor('anemo', [(r'client_config_with_expected_server_identity$', m_cfg), (r'Endpoint::connect_with_client_config$', m_connect)], max_depth=2)
        fn = find_method(ex.prog, 'Endpoint', 'connect_with_expected_peer_id')
        pid = z3.BitVec('wanted', 256)
        res = ex.run(fn, [Ptr(('H', 'endpoint', 'Endpoint')), Sym('addr', 'SocketAddr'), pid])
        n = 0
        for r in res:
            if r.tag != 'return':
                return viol(prop, ob, [ex], f'connect_with_expected_peer_id can {r.tag}', 'flow-abnormal', path_summary(r), len(res))
            cs = [e for e in r.events if e.kind == 'connect']
            if len(cs) != 1 or vname(cs[0].args[1]) != 'addr':
                return viol(prop, ob, [ex], 'the dial is not issued exactly once to the requested address', 'flow-connect', path_summary(r), len(res))
            cfg = cs[0].args[0]
            pinned = cfg.get_ov('pinned') if isinstance(cfg, Sym) else None
            if not (isinstance(pinned, z3.ExprRef) and e2.solve(r.pc + [pinned != pid], want_model=False)[0] == 'unsat'):
                return viol(prop, ob, [ex], f'the TLS client configuration used for the dial ({vrepr(cfg)[:80]}) is not pinned to the identity requested for THIS dial: '
                            'a configuration built for another expected identity (e.g. cached per address) would be reused', 'flow-config-not-pinned-to-arg', path_summary(r), len(res))
            n += 1
        if not n:
            return ob.done([ex], 'inconclusive', 'no path', paths=len(res))
        # the pinned configuration is built around ExpectedCertVerifier(CertVerifier{..}, peer_id) with the function's own argument
        ex2 = e2.executor('anemo', [], max_depth=1)
        fn2 = find_method(ex2.prog, 'EndpointConfig', 'client_config_with_expected_server_identity')
        res2 = ex2.run(fn2, [Ptr(('H', 'cfg', 'EndpointConfig')), pid])
        okp = 0
        for r in res2:
            if r.tag != 'return':
                continue
            wc = [e for e in r.events if e.kind == 'call' and e.name.endswith('with_custom_certificate_verifier')]
            if len(wc) != 1:
                return viol(prop, ob, [ex, ex2], 'pinned client config is not built with a custom certificate verifier', 'flow-verifier-missing', path_summary(r), len(res2))

            def is_pinned(v):
                return isinstance(v, Agg) and v.name == 'ExpectedCertVerifier' and len(v.fields) == 2 and isinstance(v.fields[1], z3.ExprRef) and str(v.fields[1]) == 'wanted'
            if not derives_from(wc[0].args[1], is_pinned, ex=ex2, p=r.path):
                return viol(prop, ob, [ex, ex2], 'the verifier installed in the pinned client config is not ExpectedCertVerifier(_, the requested peer id)', 'flow-verifier-id', path_summary(r), len(res2))
            if not derives_from(r.ret, lambda v: isinstance(v, Sym) and vname(wc[0].ret) == v.name, ex=ex2, p=r.path):
                return viol(prop, ob, [ex, ex2], 'the returned quinn client config is not the one carrying the pinned verifier', 'flow-config-result', path_summary(r), len(res2))
            okp += 1
        if not okp:
            return ob.done([ex, ex2], 'inconclusive', 'pinned config construction not observed', paths=len(res) + len(res2))
        ob.done([ex, ex2], 'held', '', {'paths': len(res) + len(res2)}, paths=len(res) + len(res2))
    return guarded(report, 'expected_identity_reaches_verifier', 'Endpoint::connect_with_expected_peer_id dials with a client config built for exactly the requested identity; that config installs '
                   'ExpectedCertVerifier(_, that identity)', ['Endpoint::connect_with_expected_peer_id', 'EndpointConfig::client_config_with_expected_server_identity'], {}, body)
