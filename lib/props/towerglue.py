"""Obligations shared by the anemo-tower middlewares (C18, C19, C20): the tower readiness contract."""
import re, z3
from common import *
import e2
from e2 import *


def ob_poll_ready_transparent(report, prop, ty, src):
    """`poll_ready` of the middleware = `poll_ready` of the wrapped service, every time: tower allows `call` only after the *same value* reported ready.
    A middleware that remembers "inner was ready" in a field hands that memory to every clone (services are cloned per request), whose inner clone was
    never polled: an accepted request then reaches a service that is not ready (load-shed answers Overloaded without running the handler, a concurrency
    limit panics)."""
    def body(ob):
        ex = e2.executor('anemo-tower', [], max_depth=2)
        fn = find_method(ex.prog, ty, 'poll_ready', trait='Service')
        sf = struct_fields(src, ty)
        if 'inner' not in sf:
            return ob.done([ex], 'inconclusive', f'{ty} has no field `inner`', paths=0)
        res = ex.run(fn, [])
        for r in res:
            if r.tag != 'return':
                return _viol(ob, prop, ex, f'{ty}::poll_ready can {r.tag}', 'poll-ready-abnormal', r, len(res))
            pr = [e for e in r.events if e.kind == 'call' and re.search(r' as Service>::poll_ready$', str(e.name))]
            if len(pr) != 1 or not re.fullmatch(re.escape(f'&in_1.*.{sf.index("inner")}') + r'(\.0|\.\*)*', vrepr(pr[0].args[0])):
                return _viol(ob, prop, ex, f'{ty}::poll_ready polls the wrapped service {len(pr)} times on some path (expected: exactly once, its own `inner`): readiness answered from '
                             'remembered state is inherited by clones whose inner service was never polled', 'poll-ready-not-delegated', r, len(res))
            if vname(r.ret) != vname(pr[0].ret):
                # rebuilt result (`ready!(inner.poll_ready(cx))?; Poll::Ready(Ok(()))`): ready may only be reported when the wrapped service said so
                name = vname(pr[0].ret)
                pcs = ' '.join(str(z3.simplify(c)).replace('\n', ' ') for c in r.pc)
                ret = r.ret
                says_ready_ok = isinstance(ret, Agg) and ret.variant == 'Ready' and ret.fields and isinstance(ret.fields[0], Agg) and ret.fields[0].variant == 'Ok'
                inner_ready_ok = re.search(r'(?<!Not\()' + re.escape(f'{name}.discr == 0'), pcs) and re.search(r'(?<!Not\()' + re.escape(f'{name}@Ready.0.discr == 0'), pcs)
                if says_ready_ok and not inner_ready_ok:
                    return _viol(ob, prop, ex, f'{ty}::poll_ready reports ready on a path where the wrapped service did not (path condition: {pcs[:120]})', 'poll-ready-result', r, len(res))
                if not isinstance(ret, Agg):
                    return ob.done([ex], 'inconclusive', f'{ty}::poll_ready returns {vrepr(ret)[:60]}: relation to the wrapped service\'s answer not understood', paths=len(res))
        if not res:
            return ob.done([ex], 'inconclusive', 'no path', paths=0)
        ob.done([ex], 'held', '', {'paths': len(res)}, paths=len(res))
    return guarded(report, 'poll_ready_is_the_wrapped_services', f'<{ty} as Service>::poll_ready: on every path exactly one poll_ready of its own inner service, result passed through',
                   [f'<{ty} as Service>::poll_ready'], {}, body)


def _viol(ob, prop, ex, detail, key, r, n):
    o = ob.done([ex], 'violated', detail, path_summary(r), key=key, paths=n)
    o.replay = write_replay(prop, o.name, {'detail': detail, 'path': path_summary(r)})
    return o
