#!/usr/bin/env python3-vt
"""debug: run the executor with only the global models over functions matching patterns"""
import sys, os, re, time, threading, traceback
sys.path.insert(0, os.path.dirname(os.path.abspath(__file__)))
sys.setrecursionlimit(1000000)
import e2
from mirsym.sym import *

def main():
    crate = sys.argv[1]
    verbose = '-v' in sys.argv
    pats = [a for a in sys.argv[2:] if a != '-v']
    for pat in pats:
        ex0 = e2.executor(crate)
        for f in e2.find_fns(ex0.prog, pat)[:8]:
            from mirsym import iters
            ex = e2.executor(crate, iters.ITER_MODELS if os.environ.get('ITER') else (), max_depth=int(os.environ.get('DEPTH', '2')))
            t0 = time.time()
            try:
                if f.args and f.decl[f.args[0]].startswith('Pin<&mut {') :
                    p, args = e2.coroutine_start(ex, f)
                    res = ex.run(f, args, p)
                else:
                    res = ex.run(f, [])
                tags = {}
                for r in res: tags[r.tag] = tags.get(r.tag, 0) + 1
                print(f'OK  paths={len(res):4d} {tags} q={ex.queries} {time.time()-t0:.1f}s blocks={len(f.blocks)} {f.name[-100:]}')
                if verbose:
                    for r in res[:40]:
                        print('   --', r.tag, [str(z3.simplify(c))[:80] for c in r.path.pc][:8])
                        for e in r.path.events:
                            if e.kind in ('call', 'map', 'panic', 'poll', 'diverge', 'drop'): print('        ', repr(e)[:200])
                        print('        ret', vrepr(r.ret) if r.ret is not None else None)
            except Exception as e:
                print(f'EXC {type(e).__name__}: {str(e)[:300]}  in {f.name[-90:]}')
                if verbose: traceback.print_exc()

threading.stack_size(512*1024*1024)
t = threading.Thread(target=main); t.start(); t.join()
