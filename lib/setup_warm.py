import os, sys
sys.path.insert(0, os.path.dirname(os.path.abspath(__file__)))
import common, kani
# Kani: compile the overlay once so that dependencies are cached
rep = common.Report('SETUP', 'quick')
scratch = common.sync_scratch('kani-setup')
kani.overlay(scratch, ['cm'])
rc, out, wall = common.run(['cargo', 'kani', '--target-dir', kani.KANI_TARGET, '--only-codegen'],
                           cwd=os.path.join(scratch, 'crates/anemo'), timeout=1800)
print(f'kani warm-up rc={rc} {wall:.0f}s')
common.remove_scratch('kani-setup')
try:
    import mirdump
    for c in ('anemo', 'anemo-tower', 'anemo-build'):
        p = mirdump.mir_for(c)
        print('mir', c, p)
except ImportError:
    pass
