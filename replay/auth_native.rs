// Native replay (scratch overlay only, `#[cfg(test)]` child module of anemo-tower/src/auth/mod.rs).
use super::*;

fn verif_id(s: &str) -> anemo::PeerId {
    let s = format!("{:0>64}", s.trim().trim_start_matches("0x"));
    let mut b = [0u8; 32];
    for i in 0..32 {
        b[i] = u8::from_str_radix(&s[2 * i..2 * i + 2], 16).unwrap();
    }
    anemo::PeerId(b)
}

/// C20: AllowedPeers::new(VERIF_CEX_LIST).authorize(request from VERIF_CEX_SENDER | no sender) accepts exactly the listed senders.
#[test]
fn verif_replay_c20_allow_list() {
    let list: Vec<anemo::PeerId> = std::env::var("VERIF_CEX_LIST").expect("VERIF_CEX_LIST").split(',').filter(|s| !s.trim().is_empty()).map(verif_id).collect();
    let sender = std::env::var("VERIF_CEX_SENDER").ok().filter(|s| !s.is_empty()).map(|s| verif_id(&s));
    let auth = AllowedPeers::new(list.clone());
    let mut req = anemo::Request::new(bytes::Bytes::new());
    if let Some(s) = sender {
        req.extensions_mut().insert(s);
    }
    let r = auth.authorize(&mut req);
    match sender {
        None => assert!(matches!(&r, Err(resp) if resp.status() == anemo::types::response::StatusCode::InternalServerError), "no sender identity must be answered InternalServerError"),
        Some(s) if list.contains(&s) => assert!(r.is_ok(), "listed sender {s:?} refused"),
        Some(s) => assert!(matches!(&r, Err(resp) if resp.status() == anemo::types::response::StatusCode::NotFound), "unlisted sender {s:?} not refused with NotFound: accepted={}", r.is_ok()),
    }
}
