// Native replay (scratch overlay only, `#[cfg(test)]` child module of network/connection_manager.rs).
use super::*;
use crate::{ConnectionOrigin, PeerId};

fn verif_id(var: &str) -> PeerId {
    let s = std::env::var(var).expect(var);
    let s = format!("{:0>64}", s.trim_start_matches("0x"));
    let mut b = [0u8; 32];
    for i in 0..32 {
        b[i] = u8::from_str_radix(&s[2 * i..2 * i + 2], 16).unwrap();
    }
    PeerId(b)
}

/// C05: for the ids of a solver counterexample (VERIF_CEX_A, VERIF_CEX_B, hex) both sides must keep the same
/// connection - the one dialed by the greater id - whatever order the two connections arrive in on each side.
#[test]
fn verif_replay_c05_tie_break() {
    let (a, b) = (verif_id("VERIF_CEX_A"), verif_id("VERIF_CEX_B"));
    assert_ne!(a, b);
    let t = |own: &PeerId, remote: &PeerId, existing, new| ActivePeersInner::simultaneous_dial_tie_breaking(own, remote, existing, new);
    // X is dialed by A (A: Outbound, B: Inbound); Y is dialed by B (A: Inbound, B: Outbound)
    for a_x_first in [true, false] {
        for b_x_first in [true, false] {
            let a_keeps_x = if a_x_first { !t(&a, &b, ConnectionOrigin::Outbound, ConnectionOrigin::Inbound) } else { t(&a, &b, ConnectionOrigin::Inbound, ConnectionOrigin::Outbound) };
            let b_keeps_x = if b_x_first { !t(&b, &a, ConnectionOrigin::Inbound, ConnectionOrigin::Outbound) } else { t(&b, &a, ConnectionOrigin::Outbound, ConnectionOrigin::Inbound) };
            assert_eq!(a_keeps_x, b_keeps_x, "the two sides keep different connections (a_x_first={a_x_first}, b_x_first={b_x_first})");
            assert_eq!(a_keeps_x, a > b, "the surviving connection is not the one dialed by the greater id");
        }
    }
}
