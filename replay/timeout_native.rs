// Native replay (scratch overlay only, `#[cfg(test)]` child module of middleware/timeout/mod.rs).
use super::*;

/// C11: the `timeout` header for a deadline of VERIF_CEX_NANOS nanoseconds is min(ns, u64::MAX) in decimal.
#[test]
fn verif_replay_c11_timeout_header() {
    let ns: u128 = std::env::var("VERIF_CEX_NANOS").expect("VERIF_CEX_NANOS").parse().unwrap();
    let d = std::time::Duration::new((ns / 1_000_000_000) as u64, (ns % 1_000_000_000) as u32);
    assert_eq!(d.as_nanos(), ns);
    let want = if ns > u64::MAX as u128 { u64::MAX } else { ns as u64 };
    assert_eq!(duration_to_timeout(d), want.to_string(), "header for {ns} ns");
}
