// Native replay tests (scratch overlay only, `#[cfg(test)]` child module of network/wire.rs).
// They re-run, against the real build, the concrete inputs on which a solver-found violation
// of C15/C07 manifests; selected through the VERIF_REPLAY environment variable.
use super::*;
use bytes::{Bytes, BytesMut};
use tokio_util::codec::{Decoder, Encoder};

fn codec_with(max: Option<usize>) -> tokio_util::codec::LengthDelimitedCodec {
    let mut cfg = crate::Config::default();
    cfg.max_frame_size = max;
    network_message_frame_codec(&cfg)
}

/// C15: no maximum configured => a declared length above tokio-util's 8 MiB default is not refused.
#[test]
fn verif_replay_c15_unlimited_decode() {
    for n in [8u32 * 1024 * 1024 + 1, 1 << 31, u32::MAX] {
        let mut codec = codec_with(None);
        let mut buf = BytesMut::new();
        buf.extend_from_slice(&n.to_be_bytes());
        let r = codec.decode(&mut buf);
        assert!(matches!(r, Ok(None)), "declared length {n} refused although no max_frame_size is configured: {r:?}");
    }
}

/// C15: no maximum configured => the sender accepts a body larger than 8 MiB.
#[test]
fn verif_replay_c15_unlimited_encode() {
    let mut codec = codec_with(None);
    let body = Bytes::from(vec![0u8; 8 * 1024 * 1024 + 1]);
    let mut out = BytesMut::new();
    let r = codec.encode(body, &mut out);
    assert!(r.is_ok(), "8 MiB + 1 body refused by the sender although no max_frame_size is configured: {r:?}");
    assert_eq!(out.len(), 4 + 8 * 1024 * 1024 + 1);
}

/// C15: exact boundary for a configured maximum (both directions), VERIF_MAX selects the limit.
#[test]
fn verif_replay_c15_boundary() {
    let m: usize = std::env::var("VERIF_MAX").ok().and_then(|s| s.parse().ok()).unwrap_or(1024);
    for n in [m.saturating_sub(1), m, m + 1] {
        let mut codec = codec_with(Some(m));
        let mut out = BytesMut::new();
        let r = codec.encode(Bytes::from(vec![7u8; n]), &mut out);
        assert_eq!(r.is_ok(), n <= m, "encode of {n} bytes with max {m}");
        let mut codec = codec_with(Some(m));
        let mut buf = BytesMut::new();
        buf.extend_from_slice(&(n as u32).to_be_bytes());
        buf.extend_from_slice(&vec![7u8; n]);
        let d = codec.decode(&mut buf);
        assert_eq!(d.is_ok(), n <= m, "decode of {n} bytes with max {m}");
    }
}

fn verif_poll_once<F: std::future::Future>(f: F) -> Option<F::Output> {
    use std::task::{Context, Poll, RawWaker, RawWakerVTable, Waker};
    fn noop(_: *const ()) {}
    fn clone(_: *const ()) -> RawWaker {
        RawWaker::new(std::ptr::null(), &VTABLE)
    }
    static VTABLE: RawWakerVTable = RawWakerVTable::new(clone, noop, noop, noop);
    let waker = unsafe { Waker::from_raw(RawWaker::new(std::ptr::null(), &VTABLE)) };
    let mut cx = Context::from_waker(&waker);
    let mut f = Box::pin(f);
    match f.as_mut().poll(&mut cx) {
        Poll::Ready(v) => Some(v),
        Poll::Pending => None,
    }
}

/// C07/C06: the preamble reader on the 8 bytes of a solver counterexample (VERIF_CEX_BYTES = "61 6e .."):
/// accepted iff they are exactly "anemo" 00 01 00.
#[test]
fn verif_replay_c07_preamble_bytes() {
    let s = std::env::var("VERIF_CEX_BYTES").expect("VERIF_CEX_BYTES");
    let bytes: Vec<u8> = s.split_whitespace().map(|x| u8::from_str_radix(x, 16).unwrap()).collect();
    assert_eq!(bytes.len(), 8);
    let mut rd: &[u8] = &bytes;
    let r = verif_poll_once(read_version_frame(&mut rd)).expect("in-memory read completes");
    let spec = bytes == [0x61, 0x6e, 0x65, 0x6d, 0x6f, 0x00, 0x01, 0x00];
    assert_eq!(r.is_ok(), spec, "preamble {s}: reader says {:?}, the wire format says {}", r.as_ref().map(|_| "accept").map_err(|e| e.to_string()), if spec { "accept" } else { "reject" });
}
