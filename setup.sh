#!/bin/bash
# Run once after a fresh restore (offline). Warms the build caches under /verif/.cache:
#  - Kani build of anemo's dependency graph (kani-target)
#  - MIR dumps of the three crates for the current /repo tree (mir/<treehash>/)
# Everything here is a cache: deleting /verif/.cache only makes the next check slower.
set -u
cd "$(dirname "$(readlink -f "$0")")"
export CARGO_NET_OFFLINE=true
mkdir -p .cache evidence replays
python3-vt lib/setup_warm.py || echo "setup: cache warm-up failed (checks will rebuild on demand)"
exit 0
