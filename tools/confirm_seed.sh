#!/bin/bash
# usage: confirm_seed.sh <worktree> <outdir/k> <demo cargo-test args...>
# Confirms in the scratch worktree: (1) existing suite passes with patch, (2) demo fails with patch, (3) demo passes without.
wt=$1; out=$2; shift 2
export CARGO_TARGET_DIR=$wt/target CARGO_NET_OFFLINE=true
cd $wt || exit 9
git checkout -q -- . && git clean -qfd -e target
res="$out/confirm.txt"; : > $res
git apply $out/patch.diff || { echo "patch does not apply" >> $res; exit 1; }
cargo test --workspace --no-fail-fast --offline > $out/confirm_suite.log 2>&1
suite_rc=$?
passed=$(grep -E '^test result: ' $out/confirm_suite.log | awk '{p+=$4; f+=$6} END {print p" passed "f" failed"}')
echo "suite_with_patch rc=$suite_rc $passed" >> $res
git apply $out/demo.diff || { echo "demo.diff does not apply on patched tree" >> $res; }
cargo test --offline "$@" > $out/confirm_demo_with.log 2>&1
echo "demo_with_patch rc=$?" >> $res
git apply -R $out/patch.diff || echo "could not revert patch" >> $res
cargo test --offline "$@" > $out/confirm_demo_without.log 2>&1
echo "demo_without_patch rc=$?" >> $res
git checkout -q -- . && git clean -qfd -e target
cat $res
