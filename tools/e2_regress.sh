#!/bin/bash
# development aid: all mirsym obligations of all properties (Kani skipped), one line each
cd /verif
export VERIF_EVIDENCE_DIR=/var/tmp/anemo-verif-matrix/evidence VERIF_REPLAY_DIR=/var/tmp/anemo-verif-matrix/replays; mkdir -p $VERIF_EVIDENCE_DIR $VERIF_REPLAY_DIR
for id in C01 C02 C03 C04 C05 C06 C07 C09 C10 C11 C12 C13 C14 C15 C16 C17 C18 C19 C20; do
  VERIF_DEV_NO_KANI=1 ./check $id 2>&1 | grep -E "VIOLATED|INCONCLUSIVE |HELD on|internal error" | cut -c1-260 | sed "s/^/$id: /"
done
