#!/usr/bin/env python3
"""regenerate /verif/MANIFEST.json from the table below (kept in one place so it stays valid)"""
import json, os
V = '/verif'
props = [json.loads(l) for l in open(f'{V}/properties.jsonl')]
TECH_E1 = 'solver-based: Kani/CBMC (SAT, CaDiCaL) bounded model checking of the compiled code'
TECH_E2 = 'solver-based: symbolic execution of rustc MIR (mirsym) with z3 (cvc5 differential in thorough tier)'
CLAIMS = {
 'C04': ('E2', 'one inductive step from an arbitrary state of the connection map for add/remove/remove_with_stable_id (all 256-bit ids, origins), lock bracketing of every wrapper, handler-exit removal by stable id; decided per path by z3 over the real MIR',
         'contract models: HashMap as finite map, std RwLock, tokio broadcast order; quinn close; interleavings discharged by the lock contract, not explored', '2/C04'),
 'C05': ('E1+E2', 'compiled tie-break for all 2^512 id pairs and all arrival orders (Kani) + the replace/keep decision of the real add() instantiated on both sides (z3) + late exit of the loser is a no-op + add_peer/handler wiring',
         'Kani/CBMC soundness; QUIC handshake completion and quiescence outside', '2/C05'),
 'C07': ('E1+E2', 'preamble reader over all 2^64 inputs and writer bytes (Kani and, as a twin, MIR+z3), closed sets of status/version codes, frame layout for bodies <= 8/16 bytes, message structure (frame order, serializer entry point, fields that travel, every failed step is an error) from the MIR',
         'bincode default options = fixed-int LE (contract); bodies beyond the bound and hashbrown/serde internals outside', '2/C07'),
 'C10': ('E2', 'admit <=> spec equivalence over all affinity x limit x count values for the async admission block, identity of the lookup key, len counts all connections, dials never limited, dialer waits for the listener acknowledgement, KnownPeers::{get,insert}',
         'Connecting future / handshake as interface points; TLS identity (C01) and QUIC close propagation outside', '2/C10'),
 'C11': ('E2+E1', 'deadline = min?(header, default) for every header/default combination on both sides, poll order/outcome table, header parse table for every u64, Builder::start wiring of both layers, Peer::call through the layer; decimal grammar of str::parse::<u64> by Kani',
         'tokio::time::sleep fires on time; HeaderMap lookup as symbolic presence', '2/C11'),
 'C13': ('E1+E2', 'backoff arithmetic of the compiled DialBackoffState (Kani, bounded ranges) + eligibility closure == spec, number_to_dial / address index / pending_dials bookkeeping, retain outcomes (z3 over MIR)',
         'temporal guarantees over virtual time outside; Duration/Instant as integers in E2', '2/C13'),
 'C15': ('E1+E2', 'compiled codec returned by network_message_frame_codec: refuse iff size > max for every usize limit and every 4-byte declared length, exact boundary on both sides for bodies <= 8/16 bytes, None = unlimited; both stream ends built from the own config; senders add no off-by-one refusal',
         'QUIC keeps the connection up after a refused message (outside); multi-MiB bodies only by native replay', '2/C15 and 5'),
 'C03': ('E2', 'pinned verifier accepts only presented == expected (all id pairs) and only with the delegate\'s Ok; the requested identity reaches the verifier of THIS dial; all six handshake-signature verifiers delegate to rustls with Ed25519-only tables; dial success only after connect + listener ack; registration precedes the reply; handshake step order',
         'rustls/webpki/ring/x509-parser and quinn trusted: that TLS fails for an impostor is the cryptographic base, not decided here', '2/C03'),
 'C16': ('E2', 'dispatch table of Router::call for every matcher outcome (one dispatch, fallback on every error, no panic), route/merge bookkeeping, route_layer scope, RPC prefix string (z3 seq)',
         'matchit (what matches, panic-freedom) trusted - out of reach under CBMC', '2/C16'),
 'C17': ('E2', 'generator route strings for ALL package/service/route names (z3 sequence theory over the generator MIR), the actually generated example program (regenerated from the current generator), Status<->Response conversion effects, typed call outcome tables',
         'quote/syn token plumbing and serde codecs trusted; generated code beyond the path strings checked on one program', '2/C17'),
 'C18': ('E2', 'per-call permit discipline of the limiter future for every poll outcome and both wait modes: key, capacity, acquire-before-call, release exactly once after completion, refusal without call, no other state mutation; table sharing of the layer',
         'tokio Semaphore and DashMap contracts; interleavings follow from them (not explored)', '2/C18'),
 'C20': ('E2', 'call();poll() composition of the authorization service for both verdicts (invocation iff accepted, refusal yields exactly the authorizer response), allow-list exactness for a symbolic 2-element list and any sender',
         'finite-set model of HashSet; Request::peer_id is the authenticated sender (C01)', '2/C20'),
 'C01': ('E2', 'anemo\'s delegation and data flow around the TLS stack: all six handshake-signature verifiers delegate to rustls with Ed25519-only tables on their own arguments; client auth mandatory; certificate verifiers accept only after webpki self-anchored verification + name validity; identity = SPKI key of chain[0] of that connection; identity attached to requests/responses from the connection, wire headers carry no extensions',
         'Ed25519/ring, rustls handshake state machine, webpki, x509-parser are a trusted base (not encodable: DER parsing alone exceeds 15 min / 20 GB under CBMC)', '2/C01'),
 'C02': ('E2', 'per-stream obligations: one fresh bi stream per RPC with request/response on its two halves, service invoked at most once after a successful decode with that request, response written = service value on the same stream, message structure of all four wire functions, SendStream drop resets, accept loop spawns one handler per stream',
         'quinn stream isolation/ordering/no-duplication trusted; concurrency and datagram faults outside', '2/C02'),
 'C06': ('E1+E2', 'total decoders for untrusted bytes (preamble over all 2^64 inputs, frame head for every prefix/limit, status codes) by Kani; error confinement, accept-loop handling of stray streams/datagrams, no-panic of dispatch/fallback/timeout parsing by mirsym',
         'bincode/serde/matchit/hashbrown panic-freedom trusted (out of reach); stream-level misbehaviour outside', '2/C06'),
 'C09': ('E1+E2', 'local steps: disconnect = removal(Requested) under the lock, Peer handles only for listed connections, total namesake reason mapping, idle-timeout/keep-alive applied on every config path and every stream/window limit as min(n, 2^62-1) (VarInt contract checked by Kani on quinn-proto), handler exit removes own connection by stable id before tearing down tasks, a failed handler task is never ignored',
         'eventual mutuality and loss detection are QUIC timers (outside)', '2/C09'),
 'C12': ('E2', 'cancellation mechanism: select race decided for every start index/readiness order/completion value, nothing awaited outside the race, stopped-first => no response, SendStream drop resets, connection end aborts request tasks, request failures touch only their stream',
         'quinn reset/stop propagation and stream credit trusted', '2/C12'),
 'C14': ('E2', 'name plumbing: server/client certificate verifiers require accepted-name membership and name validity of the verified certificate, pinned path included; SNI table = one certificate per accepted name; dialer verifier/certificate/dial name = primary',
         'rustls SNI selection and webpki name matching trusted', '2/C14'),
 'C19': ('E2', 'call();poll() composition of the rate limiter: shared limiter keyed by the request\'s peer id, service called once only after a positive limiter decision, over-quota => TooManyRequests + wait-nanos in nanoseconds from the limiter clock, no call',
         'governor GCRA quota arithmetic trusted (not encodable)', '2/C19'),
}
NA = {
 'C08': 'shutdown/teardown is behaviour of the tokio runtime, quinn endpoint driver and OS over time; not a function of inputs a solver can be given, objects not constructible under Kani nor abstractable without assuming the property (DESIGN.md 4)',
}
checks = []
for p in props:
    i = p['id']
    if i in CLAIMS:
        eng, text, note, ref = CLAIMS[i]
        checks.append({'property_id': i, 'quick_cmd': f'./check {i} --tier quick', 'thorough_cmd': f'./check {i} --tier thorough', 'evidence_file': f'evidence/{i}.json',
                       'replay_cmd_template': f'./check {i} --replay {{path}}', 'engine': {'E1': 'kani', 'E2': 'mirsym'}.get(eng, 'kani+mirsym'),
                       'level_claimed': {'category': 'model_checking', 'text': text, 'design_ref': 'DESIGN.md ' + ref},
                       'level_note': note, 'technique': (TECH_E1 if eng == 'E1' else TECH_E2 if eng == 'E2' else TECH_E1 + ' + ' + TECH_E2)})
na = [{'property_id': p['id'], 'reason': NA.get(p['id'], 'check under construction in this session; becomes a claimed check once its command exists (DESIGN.md 7)')}
      for p in props if p['id'] not in CLAIMS]
m = {'version': 1, 'setup_cmd': './setup.sh',
     'hooks': {'guard': 'kani / test (cfg set by cargo-kani resp. cargo test); no line in /repo carries a verification hook',
               'enable': 'every check copies /repo\'s working tree to a scratch dir (/var/tmp/anemo-verif) and appends `#[cfg(kani)] #[path=..] mod __verif_*;` (or #[cfg(test)] for native replay) lines to the copy only (lib/kani.py overlay); MIR is dumped from an untouched copy',
               'baseline_off_cmd': 'cd /repo && cargo test --workspace --no-fail-fast --offline', 'source_commits': [], 'add_only': True},
     'engines': [{'name': 'kani', 'path': 'lib/kani.py', 'serves_properties': [i for i, c in CLAIMS.items() if 'E1' in c[0]],
                  'kind_free_text': 'Kani 0.68 / CBMC 6.11 bounded model checking of the compiled code; harnesses in /verif/kani overlaid on a scratch copy'},
                 {'name': 'mirsym', 'path': 'lib/mirsym', 'serves_properties': [i for i, c in CLAIMS.items() if 'E2' in c[0]],
                  'kind_free_text': 'path-by-path symbolic execution of the textual MIR (cargo +nightly rustc -Zunpretty=mir) with z3; library calls replaced by contract models'}],
     'checks': checks, 'not_applicable': na,
     'notes': 'exit 0 held / 1 VIOLATION (replayed or solver counterexample written to replays/) / 2 inconclusive. known_findings.json lists one fixed defect (C15). seeded/ holds independently produced property-breaking patches with the checks that catch them.'}
json.dump(m, open(f'{V}/MANIFEST.json', 'w'), indent=1)
print(len(checks), 'checks', len(na), 'not applicable')
