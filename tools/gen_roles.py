#!/usr/bin/env python3
"""Regenerate lib/roles.json: for every struct of the *pinned* /repo tree, field name -> normalised type.
Run only on the unchanged tree; the file is committed.  It lets obligations that bind/read a private field by the
name it had at the pinned commit find that field by its type after a rename/reorder (e2.Fields)."""
import glob, json, os, re, sys
sys.path.insert(0, os.path.join(os.path.dirname(os.path.abspath(__file__)), '..', 'lib'))
import e2
from common import REPO
out = {}
for f in sorted(glob.glob(os.path.join(REPO, 'crates/*/src/**/*.rs'), recursive=True)):
    src = open(f, errors='replace').read()
    rel = os.path.relpath(f, REPO)
    for m in re.finditer(r'\bstruct\s+(\w+)', re.sub(r'//[^\n]*', '', src)):
        pairs = e2._parse_struct(src, m.group(1))
        if pairs:
            out[f'{rel}::{m.group(1)}'] = dict(pairs)
json.dump(out, open(e2.ROLES_FILE, 'w'), indent=1, sort_keys=True)
print(len(out), 'structs')

# function signatures of the pinned tree (lib/fnroles.json), from the MIR of every analysed crate
import mirdump, fnroles
from mirsym import mir as M
tab = {}
for crate in mirdump.CRATES:
    prog = M.load(mirdump.mir_for(crate), REPO, crate)
    prog.src_root = REPO
    tab[crate] = fnroles.table_of(prog)
json.dump(tab, open(fnroles.FILE, 'w'), indent=1, sort_keys=True)
print({c: sum(len(v) for v in t.values()) for c, t in tab.items()}, 'functions')
