#!/usr/bin/env python3
"""keep_seed.py <prop> <k> <agent-out-dir> <demo cargo args> : copy a confirmed seeded defect into /verif/seeded/<prop>-<k>/"""
import json, os, shutil, sys, re
prop, k, src, demo = sys.argv[1], sys.argv[2], sys.argv[3], sys.argv[4]
dst = f'/verif/seeded/{prop}-{k}'
os.makedirs(dst, exist_ok=True)
for f in ('patch.diff', 'demo.diff', 'demo.rs', 'notes.md', 'confirm.txt'):
    p = os.path.join(src, f)
    if os.path.exists(p):
        shutil.copy(p, os.path.join(dst, f))
notes = open(os.path.join(src, 'notes.md')).read() if os.path.exists(os.path.join(src, 'notes.md')) else ''
confirm = open(os.path.join(src, 'confirm.txt')).read() if os.path.exists(os.path.join(src, 'confirm.txt')) else ''
first = next((l.strip('# ').strip() for l in notes.splitlines() if l.strip()), '')
needs = ''
m = re.search(r'(?is)(needs?|what it needs|to manifest)[^\n]*\n(.{0,600})', notes)
if m:
    needs = ' '.join(m.group(0).split())[:500]
meta = {'property': prop, 'id': f'{prop}-{k}', 'summary': first[:300], 'needs_to_manifest': needs,
        'files': sorted(os.listdir(dst)),
        'demo': f'git apply demo.diff (on top of patch.diff or on the pristine tree), then: cargo test --offline {demo}',
        'confirmed_by_me': {'how': 'tools/confirm_seed.sh in a scratch worktree under /tmp/wt (removed afterwards): existing suite with the patch, demo with the patch, demo without the patch',
                            'result': confirm.strip().splitlines()},
        'origin': 'independent sub-agent given only the property record and a scratch worktree'}
json.dump(meta, open(os.path.join(dst, 'meta.json'), 'w'), indent=1)
print(dst)
