#!/bin/bash
# development aid: every neutral patch against EVERY property (E2 part), in parallel on scratch worktrees /var/tmp/repo-x<i>
# usage: tools/neutral_cross.sh [workers]   -> prints every non-HELD line
N=${1:-8}
cd /verif
export VERIF_DEV_NO_KANI=1 VERIF_DEV_NO_NATIVE=1
ls -d neutral/*/ | sed "s#neutral/##; s#/##" | grep -E -e "${FILTER:-.}" > /tmp/neutral_cross_${WT_PREFIX:-repo-x}.list
for i in $(seq 1 $N); do
  wt=/var/tmp/${WT_PREFIX:-repo-x}$i
  [ -d $wt ] || { git -C /repo worktree add --detach $wt HEAD -q; cp /repo/Cargo.lock $wt/; }
  (
    export ANEMO_REPO=$wt VERIF_EVIDENCE_DIR=/var/tmp/anemo-verif-matrix/${WT_PREFIX:-repo-x}-ev$i VERIF_REPLAY_DIR=/var/tmp/anemo-verif-matrix/${WT_PREFIX:-repo-x}-rp$i
    mkdir -p $VERIF_EVIDENCE_DIR $VERIF_REPLAY_DIR
    awk -v n=$N -v i=$i 'NR % n == i % n' /tmp/neutral_cross_${WT_PREFIX:-repo-x}.list | while read id; do
      git -C $wt checkout -q -- . ; git -C $wt clean -qfd crates
      git -C $wt apply /verif/neutral/$id/patch.diff 2>/dev/null || { echo "$id: patch does not apply"; continue; }
      for p in ${PROPS:-C01 C02 C03 C04 C05 C06 C07 C09 C10 C11 C12 C13 C14 C15 C16 C17 C18 C19 C20}; do
        ./check $p 2>&1 | grep -E "VIOLATED|INCONCLUSIVE " | cut -c1-300 | sed "s/^/$id [$p]: /"
      done
      echo "$id done"
    done
    git -C $wt checkout -q -- . ; git -C $wt clean -qfd crates
  ) > /tmp/neutral_cross_${WT_PREFIX:-repo-x}_$i.log 2>&1 &
done
wait
cat /tmp/neutral_cross_${WT_PREFIX:-repo-x}_*.log | grep -v " done$"
echo "cross-check finished: $(cat /tmp/neutral_cross_${WT_PREFIX:-repo-x}_*.log | grep -c ' done$') patches"
