#!/bin/bash
# every neutral patch against its own property with the COMPLETE quick check (incl. Kani), in parallel on scratch worktrees /var/tmp/repo-f<i>
# (own scratch copy and Kani build per worker); rewrites neutral/RESULTS.md.  usage: tools/neutral_full.sh [workers]
N=${1:-4}
cd /verif
ls -d neutral/*/ | sed "s#neutral/##; s#/##" | grep -E -e "${FILTER:-.}" > /tmp/neutral_full.list
rm -f /tmp/neutral_full_[0-9]*.log
for i in $(seq 1 $N); do
  wt=/var/tmp/repo-f$i
  [ -d $wt ] || { git -C /repo worktree add --detach $wt HEAD -q; cp /repo/Cargo.lock $wt/; }
  (
    export ANEMO_REPO=$wt VERIF_EVIDENCE_DIR=/var/tmp/anemo-verif-matrix/fev$i VERIF_REPLAY_DIR=/var/tmp/anemo-verif-matrix/frp$i
    export VERIF_SCRATCH=/var/tmp/anemo-verif-wf$i VERIF_KANI_TARGET=/var/tmp/anemo-verif-wf$i/kani-target
    mkdir -p $VERIF_EVIDENCE_DIR $VERIF_REPLAY_DIR
    awk -v n=$N -v i=$i 'NR % n == i % n' /tmp/neutral_full.list | while read id; do
      props=${id%-*}; [ -f neutral/$id/props ] && props=$(cat neutral/$id/props)
      git -C $wt checkout -q -- . ; git -C $wt clean -qfd crates
      git -C $wt apply /verif/neutral/$id/patch.diff 2>/dev/null || { echo "$id rc=9 patch does not apply"; continue; }
      worst=0; note=""
      for p in $props; do
        ./check $p > /tmp/neutral_full_$id.$p.out 2>&1; rc=$?
        [ $rc -gt $worst ] && worst=$rc
        [ $rc -ne 0 ] && note="$note $(grep -E 'VIOLATED|INCONCLUSIVE property' /tmp/neutral_full_$id.$p.out | head -2 | cut -c1-200 | tr '\n' ' ')"
      done
      echo "$id rc=$worst $note"
    done
    git -C $wt checkout -q -- . ; git -C $wt clean -qfd crates
  ) > /tmp/neutral_full_$i.log 2>&1 &
done
wait
out=neutral/RESULTS.md
{
  echo "# Behaviour-preserving patches vs checks (complete quick tier incl. Kani, $(date -u +%F))"
  echo ""
  echo "Expected: exit 0. Exit 2 = some obligation inconclusive (the representation the obligation is phrased over changed; see DESIGN 11.1); exit 1 = false alarm (none)."
  echo ""
  echo "| patch | exit | note |"; echo "|---|---|---|"
  cat /tmp/neutral_full_[0-9]*.log | sort | sed -E 's/^(\S+) rc=([0-9]+) ?(.*)$/| \1 | \2 | \3 |/' | tr -s ' '
} > $out
echo "neutral full: $(cat /tmp/neutral_full_[0-9]*.log | grep -c 'rc=0') exit 0, $(cat /tmp/neutral_full_[0-9]*.log | grep -c 'rc=2') exit 2, $(cat /tmp/neutral_full_[0-9]*.log | grep -c 'rc=1') exit 1 of $(wc -l < /tmp/neutral_full.list)"
