#!/bin/bash
# development aid: the complete quick check (incl. Kani) of the own property of the given neutral patches, one after the other, on the scratch
# worktree /var/tmp/repo-kani (never /repo).  usage: tools/neutral_kani.sh C05-5 C05-6 ...   -> one line per patch: id rc, plus every non-HELD line
wt=/var/tmp/repo-kani
cd /verif
[ -d $wt ] || { git -C /repo worktree add --detach $wt HEAD -q; cp /repo/Cargo.lock $wt/; }
export ANEMO_REPO=$wt VERIF_EVIDENCE_DIR=/var/tmp/anemo-verif-matrix/kani-ev VERIF_REPLAY_DIR=/var/tmp/anemo-verif-matrix/kani-rp
mkdir -p $VERIF_EVIDENCE_DIR $VERIF_REPLAY_DIR
for id in "$@"; do
  p=${id%-*}
  git -C $wt checkout -q -- . ; git -C $wt clean -qfd crates
  git -C $wt apply /verif/neutral/$id/patch.diff 2>/dev/null || { echo "$id: patch does not apply"; continue; }
  t0=$(date +%s)
  ./check $p > /tmp/neutral_kani_$id.out 2>&1; rc=$?
  echo "$id rc=$rc $(( $(date +%s) - t0 ))s"
  grep -E "VIOLATED|INCONCLUSIVE " /tmp/neutral_kani_$id.out | cut -c1-260 | sed "s/^/   /"
done
git -C $wt checkout -q -- . ; git -C $wt clean -qfd crates
