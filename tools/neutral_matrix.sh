#!/bin/bash
# apply every behaviour-preserving refactoring under neutral/<id>-<k>/patch.diff to /repo, run the property's quick check
# (expected exit 0), restore.  Any non-zero exit is a false alarm of the machinery.
cd /verif
export VERIF_EVIDENCE_DIR=/var/tmp/anemo-verif-matrix/evidence VERIF_REPLAY_DIR=/var/tmp/anemo-verif-matrix/replays; mkdir -p $VERIF_EVIDENCE_DIR $VERIF_REPLAY_DIR
out=neutral/RESULTS.md
echo "# Behaviour-preserving refactorings vs checks (quick tier, $(date -u +%F)); expected: exit 0" > $out
echo "" >> $out
echo "| refactoring | exit | non-held obligations |" >> $out
echo "|---|---|---|" >> $out
for d in neutral/*/; do
  id=$(basename $d); prop=${id%-*}
  [ -f $d/patch.diff ] || continue
  git -C /repo apply /verif/$d/patch.diff || { echo "| $id | patch does not apply | |" >> $out; continue; }
  # a directory may name the properties to check in a file `props` (default: the property in its name)
  props=$prop; [ -f $d/props ] && props=$(cat $d/props)
  rc=0; : > /tmp/neutral_$id.log
  for pr in $props; do
    ${NEUTRAL_ENV:-} ./check $pr >> /tmp/neutral_$id.log 2>&1; r=$?; [ $r -gt $rc ] && rc=$r
  done
  git -C /repo checkout -- . ; git -C /repo clean -qfd crates
  obls=$(grep -E "VIOLATED|INCONCLUSIVE " /tmp/neutral_$id.log | awk '{print $3}' | sort -u | tr '\n' ' ')
  echo "| $id | $rc | $obls |" >> $out
  echo "$id rc=$rc $obls"
done
