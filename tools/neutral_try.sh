#!/bin/bash
# development aid: try the neutral patches of one property (from /tmp/wt/N<ID>-out or /verif/neutral) on the clean copy /var/tmp/repo-clean, E2 only
# usage: tools/neutral_try.sh <ID> [extra props to check too]
id=$1; shift
props="$id $*"
cd /verif
export VERIF_EVIDENCE_DIR=/var/tmp/anemo-verif-matrix/evidence VERIF_REPLAY_DIR=/var/tmp/anemo-verif-matrix/replays; mkdir -p $VERIF_EVIDENCE_DIR $VERIF_REPLAY_DIR
for k in 1 2 3 4; do
  pf=/tmp/wt/N$id-out/$k/patch.diff; [ -f $pf ] || pf=/verif/neutral/$id-$k/patch.diff
  [ -f $pf ] || continue
  git -C /var/tmp/repo-clean checkout -- . ; git -C /var/tmp/repo-clean clean -qfd crates
  git -C /var/tmp/repo-clean apply $pf || { echo "$id-$k: patch does not apply"; continue; }
  for p in $props; do
    ANEMO_REPO=/var/tmp/repo-clean VERIF_DEV_NO_KANI=1 ./check $p 2>&1 | grep -E "VIOLATED|INCONCLUSIVE |HELD on" | cut -c1-420 | sed "s/^/$id-$k [$p]: /"
  done
done
git -C /var/tmp/repo-clean checkout -- . ; git -C /var/tmp/repo-clean clean -qfd crates
