#!/bin/bash
# run every claimed check (quick tier by default) on /repo as it is; summary to stdout
cd /verif
tier=${1:-quick}
ids=$(python3 -c "import json;print(' '.join(c['property_id'] for c in json.load(open('MANIFEST.json'))['checks']))")
for id in $ids; do
  s=$(date +%s)
  ./check $id --tier $tier > /tmp/runall_$id.log 2>&1; rc=$?
  echo "$id rc=$rc $(( $(date +%s) - s ))s $(tail -1 /tmp/runall_$id.log | cut -c1-150)"
done
