#!/bin/bash
# every seeded defect against its own property, in parallel on scratch worktrees /var/tmp/repo-x<i>; prints those NOT reported as violated.
# default: E2 part only (development aid).  FULL=1: the complete quick check incl. Kani (use few workers: FULL=1 tools/seed_cross.sh 3) and
# seeded/RESULTS.md is rewritten from the outcome.
N=${1:-8}
cd /verif
[ -n "$FULL" ] || export VERIF_DEV_NO_KANI=1
ls -d seeded/*/ | sed 's#seeded/##; s#/##' > /tmp/seed_cross.list
rm -f /tmp/seed_cross_[0-9]*.log
for i in $(seq 1 $N); do
  wt=/var/tmp/${WT_PREFIX:-repo-x}$i
  [ -d $wt ] || { git -C /repo worktree add --detach $wt HEAD -q; cp /repo/Cargo.lock $wt/; }
  (
    export ANEMO_REPO=$wt VERIF_EVIDENCE_DIR=/var/tmp/anemo-verif-matrix/ev$i VERIF_REPLAY_DIR=/var/tmp/anemo-verif-matrix/rp$i
    [ -z "$FULL" ] || export VERIF_SCRATCH=/var/tmp/anemo-verif-w$i VERIF_KANI_TARGET=/var/tmp/anemo-verif-w$i/kani-target     # own scratch copy and Kani build per worker
    mkdir -p $VERIF_EVIDENCE_DIR $VERIF_REPLAY_DIR
    awk -v n=$N -v i=$i 'NR % n == i % n' /tmp/seed_cross.list | while read id; do
      p=${id%-*}
      git -C $wt checkout -q -- . ; git -C $wt clean -qfd crates
      git -C $wt apply /verif/seeded/$id/patch.diff 2>/dev/null || { echo "$id: patch does not apply"; continue; }
      ./check $p > /tmp/seed_cross_$id.out 2>&1; rc=$?
      echo "$id rc=$rc $(grep -E 'VIOLATED|INCONCLUSIVE ' /tmp/seed_cross_$id.out | head -1 | cut -c1-160)"
    done
    git -C $wt checkout -q -- . ; git -C $wt clean -qfd crates
  ) > /tmp/seed_cross_$i.log 2>&1 &
done
wait
cat /tmp/seed_cross_[0-9]*.log | sort | grep -v "rc=1 " 
if [ -n "$FULL" ]; then
  out=seeded/RESULTS.md
  echo "# Seeded defects vs checks (quick tier incl. Kani, $(date -u +%F)); expected: exit 1 with a VIOLATION line" > $out
  echo "" >> $out; echo "| seed | exit | first reporting obligation |" >> $out; echo "|---|---|---|" >> $out
  cat /tmp/seed_cross_[0-9]*.log | sort | sed -E 's/^(\S+) rc=([0-9]+) ?(.*)$/| \1 | \2 | \3 |/' | tr -s ' ' >> $out
fi
echo "seed cross-check finished: $(cat /tmp/seed_cross_[0-9]*.log | grep -c 'rc=1 ') of $(wc -l < /tmp/seed_cross.list) reported as violations"
