#!/bin/bash
# apply every seeded defect to /repo in turn, run the quick check of its property, restore; writes seeded/RESULTS.md
cd /verif
export VERIF_EVIDENCE_DIR=/var/tmp/anemo-verif-matrix/evidence VERIF_REPLAY_DIR=/var/tmp/anemo-verif-matrix/replays; mkdir -p $VERIF_EVIDENCE_DIR $VERIF_REPLAY_DIR
out=seeded/RESULTS.md
echo "# Seeded defects vs checks (quick tier, $(date -u +%F))" > $out
echo "" >> $out
echo "| seed | exit | catching obligations (first line of the report) |" >> $out
echo "|---|---|---|" >> $out
for d in seeded/*/; do
  id=$(basename $d); prop=${id%-*}
  [ -f $d/patch.diff ] || continue
  git -C /repo apply /verif/$d/patch.diff || { echo "| $id | patch does not apply | |" >> $out; continue; }
  ./check $prop > /tmp/seed_$id.log 2>&1; rc=$?
  git -C /repo checkout -- . ; git -C /repo clean -qfd crates
  obls=$(grep -E "VIOLATED|INCONCLUSIVE " /tmp/seed_$id.log | awk '{print $3}' | sort -u | tr '\n' ' ')
  first=$(grep -E "VIOLATED" /tmp/seed_$id.log | head -1 | sed -E 's/^\[[A-Z0-9]+\] VIOLATED +[^ ]+ \([^)]*\) //' | cut -c1-160 | tr '|' '/')
  echo "| $id | $rc | $obls - $first |" >> $out
  echo "$id rc=$rc $obls"
done
