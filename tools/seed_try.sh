#!/bin/bash
# development aid: apply the seeded defects of the given properties to the clean copy /var/tmp/repo-clean and run the E2 part of the check
cd /verif
export VERIF_EVIDENCE_DIR=/var/tmp/anemo-verif-matrix/evidence VERIF_REPLAY_DIR=/var/tmp/anemo-verif-matrix/replays; mkdir -p $VERIF_EVIDENCE_DIR $VERIF_REPLAY_DIR
for id in "$@"; do
 for k in 1 2 3; do
  pf=/verif/seeded/$id-$k/patch.diff; [ -f $pf ] || continue
  git -C /var/tmp/repo-clean checkout -- . ; git -C /var/tmp/repo-clean clean -qfd crates
  git -C /var/tmp/repo-clean apply $pf || { echo "$id-$k: patch does not apply"; continue; }
  ANEMO_REPO=/var/tmp/repo-clean VERIF_DEV_NO_KANI=1 ./check $id 2>&1 | grep -E "VIOLATED|INCONCLUSIVE |HELD on" | head -2 | cut -c1-260 | sed "s/^/seed $id-$k: /"
 done
done
git -C /var/tmp/repo-clean checkout -- . ; git -C /var/tmp/repo-clean clean -qfd crates
