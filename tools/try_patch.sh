#!/bin/bash
# development aid: apply one patch (neutral/<id> or seeded/<id>) on the scratch worktree /var/tmp/repo-dev and run the E2 part of the given properties
# usage: tools/try_patch.sh neutral/C03-6 C03 C10 ...      (VERBOSE=1: full output)
pd=$1; shift
wt=/var/tmp/repo-dev
cd /verif
[ -d $wt ] || { git -C /repo worktree add --detach $wt HEAD -q; cp /repo/Cargo.lock $wt/; }
export ANEMO_REPO=$wt VERIF_DEV_NO_KANI=1 VERIF_EVIDENCE_DIR=/var/tmp/anemo-verif-matrix/dev-ev VERIF_REPLAY_DIR=/var/tmp/anemo-verif-matrix/dev-rp
mkdir -p $VERIF_EVIDENCE_DIR $VERIF_REPLAY_DIR
git -C $wt checkout -q -- . ; git -C $wt clean -qfd crates
pf=/verif/$pd/patch.diff; case "$pd" in /*) pf=$pd/patch.diff;; esac; [ "$pd" = none ] || git -C $wt apply $pf || { echo "$pd: patch does not apply"; exit 2; }
for p in "$@"; do
  if [ -n "$VERBOSE" ]; then ./check $p ${ONLY:+--only $ONLY} 2>&1 | cut -c1-${WIDTH:-600}
  else ./check $p ${ONLY:+--only $ONLY} 2>&1 | grep -E "VIOLATED|INCONCLUSIVE |HELD on|internal error" | cut -c1-${WIDTH:-420} | sed "s#^#$pd [$p]: #"; fi
done
[ -n "$KEEP" ] || { git -C $wt checkout -q -- . ; git -C $wt clean -qfd crates; }
